#!/bin/bash
# Offline setup: nothing to download or compile; byte-compile the framework and run its self-tests.
set -e
HERE="$(cd "$(dirname "${BASH_SOURCE[0]}")" && pwd)"
cd "$HERE"
export VERIF_REPO="${VERIF_REPO:-/repo}"
export PYTHONPATH="$VERIF_REPO:$HERE"
/venv/bin/python -m compileall -q vmc >/dev/null
/venv/bin/python -m vmc.selftest
# stand-ins for the third-party packages the code generator needs (absent offline): conformance against upstream fixtures
PYTHONPATH="$VERIF_REPO:$HERE/shims" PATH="$HERE/shims/bin:$PATH" /venv/bin/python "$HERE/shims/conformance.py" --fast | tail -3
