#!/usr/bin/env python3
"""Regenerates MANIFEST.json from the table below (run after adding a check)."""
import json

ALL = [f"C{i:02d}" for i in range(1, 20)]

CHECKS = {
    "C07": dict(
        category="exploration", engine="E1", design_ref="DESIGN.md 2.5 (hostile names), 3/C07",
        technique="bounded-exhaustive enumeration of hostile-name assignments to skeleton name slots x generator option sets x irregular XML/JSON samples, with import / bind / instantiate / duplicate-name oracles",
        text=("XSD (with and without target namespace) and DTD skeletons with 11 name slots: every single slot x 67 hostile names (59 values for enumeration slots), every same-scope slot pair x 19+ "
              "names that collide after case / punctuation normalisation, every same-scope slot triple x 6 three-way collisions x 3 rotations (thorough: each x 62 option sets incl. all 8 name cases per "
              "object type); the same names on a two-namespace schema pair with one type name in both namespaces x the 5 structure styles; every option set on the default names; every "
              "G-tree document within the bound as an irregular XML sample (alone or in pairs) and 10 JSON shapes x hostile keys, x option sets. Generation must end in success or CodegenError; every "
              "module must compile and import, every class must yield binding metadata and be instantiable, no scope may contain two fields or two classes of one name, no module may define a class under a name it imports from a sibling module."),
        note="stand-ins for jinja2/toposort/click/ruff (ruff no-op: formatting not checked); 120 s watchdog; one open known finding"),
    "C02": dict(
        category="exploration", engine="E1+G-xsd", design_ref="DESIGN.md 2.5 (G-xsd), 3/C02",
        technique="bounded-exhaustive enumeration of generated schemas x generator options x schema-derived instance documents, with libxml2 as independent validator and infoset oracle",
        text=("Every G-xsd schema (base + <= 1 (thorough 2) of 43 features) is rendered, fed to the real generator under 8 (thorough 16) option sets; the generated package must import and bind; every "
              "instance document the schema's own AST yields within the unrolling / deviation bound is first validated by libxml2, must parse under the strictest parser settings, and its "
              "re-serialization must have the same infoset after typed normalisation and schema-prescribed defaults (ordered, and schema-valid again, where the property demands order). The same "
              "expectations are applied under every option set, so accepted documents and produced infosets cannot depend on output-only options."),
        note="stand-ins for jinja2/toposort/ruff/click; XSD 1.1-only constructs and facets xsdata does not enforce are outside the generated fragment; five open known findings"),
    "C12": dict(
        category="model_checking", engine="E4+E1", design_ref="DESIGN.md 2.4, 3/C12",
        technique="exhaustive exploration of the environment's answers (set-iteration order at every reached site, id() direction) within a deviation bound, on the real generator loaded through an owning AST transform; plus bounded real hash-seed sweep and route comparison",
        text=("The code generator modules of the current tree are imported through a transform that turns every set(...) call / display / comprehension and id() into explorer choice points. For each "
              "source set of the corpus (synthetic xsd sets with cycles, a hub of back-references, two namespaces, same-named classes from differently named files, each under all 5 structure styles; upstream "
              "xsd / dtd / wsdl / xml / json fixtures) every choice vector with <= 1 (thorough 2) non-default answers must produce byte-identical files to the canonical-order run; results of set algebra "
              "and the toposort stand-in are owned too. Real PYTHONHASHSEED 0..3 (thorough 0..31) in fresh processes validates the owned model and covers sets built in C; generating twice in one "
              "process (also with the cache of parsed classes: the run that writes it and the run that reads it; and from another working directory that holds decoy files under the names the sources use for each other), every ordered pair of 4 naming-convention sets run one after the other in one process (second run vs a pristine interpreter), and API vs config-file vs CLI-flag routes for 13 "
              "option deviations are compared byte for byte."),
        note="stand-ins for jinja2/click/toposort/ruff (shims/, conformance-checked against upstream fixtures); bytes compared before ruff; include_header excluded"),
    "C10": dict(
        category="exploration", engine="E1+E5", design_ref="DESIGN.md 3/C10",
        technique="bounded-exhaustive enumeration of injections (every slot x shape) x all 8 flag combinations against the property's decision table",
        text=("For every G-model model without generic content (quick 0.7k, thorough 6k) and its default / one-deviation instance: unknown elements of 6 shapes at every child slot of every "
              "class-bound element, 4 kinds of unknown attributes (incl. xsi:schemaLocation and arbitrary xsi:*) on every class-bound element, every typed leaf corrupted, each under all 8 "
              "combinations of the three fail_on_* options and both handlers; the same for dictionary and JSON input. The outcome must be exactly what the decision table says: equal object, "
              "ParserError, or value kept as given plus ConverterWarning. Plus: a model with an open wildcard / attribute map in a child and namespace-restricted ones on the root x every document with "
              "<= 2 injected elements and <= 1 injected attribute at either place, judged by the documented namespace constraints (what is unknown depends on the field, not on the name)."),
        note="'unknown' is decided from the field list alone; attributes on simple-typed elements are not judged"),
    "C15": dict(
        category="fault_enumeration", engine="E1+E5", design_ref="DESIGN.md 3/C15",
        technique="exhaustive single-fault enumeration (every byte offset, every element, every value) on valid documents, error-type and well-formedness oracles",
        text=("Every single structural fault on every element / attribute / text of each model document (delete, duplicate, retag, re-namespace, undeclared prefix, swap, child in simple content, "
              "12 foreign xsi:type values incl. the binary datatypes and 5 xsi:nil values, 12 replacement values for every typed leaf, wrong / wrapped root; each also under a lenient configuration), truncation at every byte offset, deletion of every byte and 6 substitutions at every offset of 44 (thorough 673) "
              "documents, all byte strings of length <= 2 over 8 bytes, a well-formed document under 35 declared encoding names, and 5 + 8-per-key JSON/dict faults through DictDecoder, JsonParser, truncated JSON text and "
              "List[Model] targets; both handlers. Each call must "
              "return an instance of the requested class or raise a documented error within the watchdog, and the native handler must reject what expat and libxml2 both call not well-formed."),
        note="bounded time is a 20 s watchdog; documented errors: ParserError, ConverterError, XmlContextError, XmlHandlerError, json.JSONDecodeError"),
    "C09": dict(
        category="exploration", engine="E1+E5", design_ref="DESIGN.md 3/C09",
        technique="bounded-exhaustive enumeration of meaning-preserving document rewrites at every application site, metamorphic oracle parse(rewrite(d)) == parse(d)",
        text=("For every G-model model (<= 2 fields, <= 3 grammar answers: 7.4k models) and its default instance, each one-value deviation and the variant serialized under a user default namespace, every single "
              "application site (thorough: every pair) of 20 rewrites is applied: prefix aliasing, xmlns hoisting and re-declaration, default namespace <-> prefix, attribute reordering, whitespace "
              "in every gap of element-only content, comments / PIs in every gap and inside text, CDATA, character references, UTF-16/Latin-1/BOM re-encoding, surrounding whitespace on non-string "
              "values, XInclude extraction of each child (path and base_url). Both handlers must return an object equal to the one parsed from the original."),
        note="each rewritten document is first checked to have the same infoset by libxml2; one open known finding (native handler + XInclude + prefixed values)"),
    "C08": dict(
        category="model_checking", engine="E1+E5", design_ref="DESIGN.md 3/C08",
        technique="explicit event-sequence exploration of the shared writer state machine across three writers + bounded-exhaustive differential comparison of handlers over source kinds",
        text=("Writers: every G-model model x full product of values x config deviations, and every writer event sequence of the C03 automaton alphabet x 12 user prefix maps, are written by "
              "XmlEventWriter, LxmlEventWriter and LxmlTreeBuilder/TreeSerializer; all three must reject together or produce the same infoset (prefixed values compared after resolving "
              "prefixes). Handlers: serialized model instances and G-tree documents x 9 infoset-preserving decorations x {native, lxml} x {bytes, str, path, file object, lxml tree/element, "
              "ElementTree tree/element} must parse to equal objects."),
        note="mixed/generic content with indentation excluded (documented); documents whose values use prefixes are not given as ElementTree sources (prefixes are lost there)"),
    "C03": dict(
        category="model_checking", engine="E1+E5", design_ref="DESIGN.md 2.1, 2.6, 3/C03",
        technique="explicit event-sequence exploration of the writer state machine on the real writers + bounded-exhaustive comparison with an independent reference serializer",
        text=("Leg 1: every well-nested writer event sequence over all tree shapes with <= 3 (thorough 4) elements and <= 2 (3) non-default labels x 15 user prefix maps (default "
              "namespace, collisions with generated prefixes, duplicate URIs, reserved/invalid prefixes and namespace names, empty URI) is fed to the real XmlEventWriter, LxmlEventWriter and LxmlTreeBuilder; "
              "the result must be a library error or a document that expat and strict libxml2 accept and whose infoset (QName values resolved in scope) is the tree the events denote; "
              "distinct canonical EventHandler states and transitions are counted. Leg 2: G-model models x instances x prefix maps x both writers against vmc/refser.py, an independent "
              "reading of the documented metadata that never touches XmlMeta/XmlVar/EventGenerator."),
        note="trusted: expat, libxml2, vmc/refser.py; where the docs are silent (nil on empty nillable values) the reference accepts both spellings"),
    "C11": dict(
        category="exploration", engine="E1", design_ref="DESIGN.md 2.5 (G-tree), 3/C11",
        technique="bounded-exhaustive enumeration of generic XML trees x wildcard placements x handlers x writers with infoset round-trip and tree-parser agreement oracles",
        text=("Every G-tree document (all shapes with <= 3 (thorough 4) elements, <= 2 (3) non-default labels over namespace modes incl. default-namespace re-/un-declaration and prefix "
              "re-binding, namespaced / QName-valued attributes, xsi:type'd primitives, text and tails) is placed under 8 wildcard placements; the parsed generic tree must have the shape an "
              "independent expat-based converter derives, render(parse(d)) must have d's infoset (whitespace-only text next to children excepted), the stand-alone TreeParser and both handlers must agree."),
        note="generated documents are self-checked with expat + libxml2 before use; two open known findings"),
    "C14": dict(
        category="model_checking", engine="E2", design_ref="DESIGN.md 2.2, 3/C14",
        technique="explicit-state breadth-first search over operation histories on the real objects, canonical state hashing, differential oracle shared-vs-fresh on every transition",
        text=("BFS over histories of <= 3 (thorough 4) operations from a pool of 45 (parse/serialize/JSON decode/encode, succeeding and failing, both handlers, models "
              "built to collide on shared state: a namespace-less child under two parents, xsi:type lookups incl. one name in two hierarchies, wildcard memo, prefix re-binding, modules imported between "
              "calls, a serializer with its own globalns, one compound field fed strings that select different choices) applied to one shared XmlContext + parsers + serializers. States are real objects rebuilt by replaying the history and deduplicated by a generic "
              "canonical hash of every slot of those objects and of all cached XmlMeta/XmlVar. Invariant on every transition: result on shared instances == result on fresh instances."),
        note="fixed operation pool; process-wide pure lru_caches not part of the state; one open known finding (metadata cache keyed by class only)"),
    "C19": dict(
        category="model_checking", engine="E3+E1", design_ref="DESIGN.md 2.3, 3/C19",
        technique="stateless preemption-bounded exploration of real threads on the real code under a controlled scheduler (sys.monitoring LINE events + per-thread semaphores)",
        text=("Fifteen 2-thread harnesses forced to collide on the shared XmlContext / XmlParser / XmlSerializer (cold context, lookup without target class, xsi:type "
              "lookups, wildcard namespace memo, parse vs serialize, module import changing len(sys.modules)) are run under every schedule with <= 2 preemptions "
              "(thorough: <= 3, plus 3-thread harnesses with <= 2). Scheduling points are the executed lines that read or write shared mutable state: the attribute "
              "set is found by a dynamic write profile (canonical hash of the shared roots after every line, run per operation alone and after every operation it can meet) and the lines by an AST scan "
              "of the current tree, so state added by an edit is picked up; a static site offers a preemption at its first 3 dynamic occurrences per thread. Process-wide state of the tree (module globals, class attributes, module-level instances, "
              "attributes added to the model classes, lru_caches) is found by a walk, watched by the same profile and restored to its after-import contents before every execution, so the threads "
              "start in a process that has used nothing. Oracle: every call's result equals its result when run alone, and the shared objects still work afterwards."),
        note="line granularity (no preemption between bytecodes of one line); steps on thread-local state commute; >3 threads / >3 preemptions outside the bound"),
    "C04": dict(
        category="exploration", engine="E1+E4", design_ref="DESIGN.md 2.1, 2.4, 2.5, 3/C04",
        technique="bounded-exhaustive enumeration of generated models x instances x factories x dict/JSON routes, with set-iteration order of the decoder owned as a choice point",
        text=("Every G-model binding model without anyType fields within the deviation bound x full product of value alphabets x {dict, filter_none} x "
              "{DictEncoder/DictDecoder, JsonSerializer/JsonParser} x single object / list document; the encoded form must be JSON-native and json.dumps-able "
              "and decode back to an equal object. xsdata's dict decoder, encoder and context are loaded through the set-order owning transform so that "
              "address-dependent set iteration is explored as a choice (this is how the nondeterministic subclass selection was found)."),
        note="documented JSON limitations (compound choices needing intermediate types / subclasses) excluded by construction; one open known finding"),
    "C18": dict(
        category="exploration", engine="E1", design_ref="DESIGN.md 2.1, 2.5, 3/C18",
        technique="bounded-exhaustive enumeration of generated models x instances; rendered source exec'd in an empty namespace",
        text=("Every G-model binding model within the bound (incl. inner classes/enums, frozen+tuples, generics, attribute maps, required fields holding None) x full product of value alphabets "
              "x {fresh serializer, serializer that has just rendered the same values as an instance of a same-named class with other defaults from another module}: "
              "PycodeSerializer.render output is executed in an empty namespace and the bound variable compared structurally (exact types, NaN-aware)."),
        note="the synthetic model module is importable while the source runs; equality is structural"),
    "C01": dict(
        category="exploration", engine="E1", design_ref="DESIGN.md 2.1, 2.5, 3/C01",
        technique="bounded-exhaustive enumeration of generated binding models x instances x serializer configs x backends, round-trip oracle",
        text=("Every binding model the G-model grammar yields within the deviation bound (quick: <=2 fields, thorough: <=3 fields, <=3 non-default grammar answers, plus every single-field model with >= 2 such answers once more as a pair "
              "of equal fields) is materialised as real dataclasses; for each, the full product of the per-field value alphabets under the "
              "default configuration and every <=2-deviation combination of values and serializer configuration is rendered by both writers and parsed by both handlers; "
              "the result must equal the original structurally with exact leaf types. No reference model: blind to symmetric mistakes (C03 covers those)."),
        note="domain exclusions are listed in evidence.assumptions and DESIGN.md; six analysed defects are listed as open known findings, each as a predicate over case and outcome"),
    "C05": dict(
        category="exploration", engine="E1", design_ref="DESIGN.md 2.1, 2.6, 3/C05",
        technique="bounded-exhaustive enumeration of value alphabets, lexical grammars and candidate-type lists against an independent XSD datatype reference",
        text=("Every value of the per-type alphabets (incl. all ints in [-300,300], +-2^k+-1, floats m*10^e, Decimal exponents -30..30, short byte strings, "
              "QNames x prefix maps, enum members, formatted dates) is serialized, its text judged against the XSD lexical space DataType.from_value names, and "
              "read back; every string of the bounded lexical grammars (sign/int/fraction/exponent/whitespace, specials, base64 spacing, hex case, QName forms) "
              "must be accepted with the XSD value; every ordered pair and triple of the 14 documented types decides by documented priority."),
        note="trusted: vmc/xsdref.py; rejection of invalid forms not demanded; whitespace not applied to str or strptime-format types"),
    "C06": dict(
        category="exploration", engine="E1", design_ref="DESIGN.md 2.1, 2.6, 3/C06",
        technique="bounded-exhaustive enumeration of component products and all ordered value pairs against an independent XSD datatype reference",
        text=("Every lexical string built from the boundary component sets (full product for date, time, duration, periods; dateTime full "
              "product in thorough and <=3 non-default components in quick) is parsed and compared with an independent XSD 1.1 reference; "
              "every valid value is formatted, checked for lexical validity and re-parsed; std-lib conversions are enumerated over a "
              "date x time x tz product; ==,!=,<,<=,>,>= are checked on all ordered pairs of values placed next to each other on the timeline. "
              "Exhaustive inside the stated alphabets, silent about values outside them."),
        note="trusted: vmc/xsdref.py (own XSD 1.1 lexical/value reference, integer arithmetic); timezoned and un-timezoned values not compared with each other"),
}

CHECKS.update({
    "C13": dict(
        category="exploration", engine="E1+G-xsd", design_ref="DESIGN.md 2.5 (G-xsd), 3/C13",
        technique="bounded-exhaustive enumeration of hidden regular models x sample-document sets, generator run on the samples alone, strict re-parse and infoset / JSON-value comparison of every sample",
        text=("XML: every hidden regular model (G-xsd base + <= 1 of 21 structure features, canonical value spellings) x every set of 1-3 libxml2-validated instance documents with <= 2 non-minimal answers in "
              "total (thorough: four passes (features, samples, answers) = (2,2,2), (2,3,1), (1,4,2), (1,3,3)); the schema is discarded and classes are generated from the samples alone. JSON: every hidden key->kind model (<= 2 levels, <= 2 keys per object, 9 kinds) "
              "x every set of 1-3 distinct documents (keys present / absent / null, arrays of 0-2 items). Every sample must parse strictly into the generated root class and re-serialize to the same infoset / JSON value."),
        note="stand-ins for jinja2/toposort/click/ruff; JSON comparison modulo key order, explicit nulls and empty arrays; xs:all with varying child order is outside 'regular'; four open known findings (merged samples lose sequence groups; three around xsi:nil in samples)"),
    "C16": dict(
        category="exploration", engine="E1+G-dtd", design_ref="DESIGN.md 3/C16",
        technique="bounded-exhaustive enumeration of generated DTDs x generator option sets x DTD-valid instance documents, with libxml2 as DTD validator and expat+libxml2 as infoset oracle",
        text=("Every G-dtd DTD (base + <= 2 of 41 features: EMPTY / ANY / #PCDATA / mixed, sequences and choices with ? * + nesting, every attribute type and default mode, xmlns declarations) x 3 option "
              "sets (default, compound fields, unnest) x every libxml2-valid instance document with <= 2 (thorough 3) non-minimal answers: generation succeeds, the package imports and binds, the document parses "
              "strictly, the output has the same elements / attributes / values with DTD defaults and #FIXED values materialised; where repetition is confined to single names (or choices of single names with "
              "compound fields) order is compared too and the output is re-validated against the DTD."),
        note="stand-ins for jinja2/toposort/click/ruff; documents carry no DOCTYPE (the parser never reads the DTD); four open known findings (ANY content, compound field for a choice with a sequence branch, xmlns declarations x2)"),
    "C17": dict(
        category="exploration", engine="E1+G-wsdl", design_ref="DESIGN.md 3/C17",
        technique="bounded-exhaustive enumeration of generated WSDL definitions x operations x request / response / fault payloads through a recording transport, judged against an independent reading of the WSDL AST",
        text=("Every G-wsdl definition (base + <= 2 (thorough 3) deviations: 1-2 (thorough 1-4) operations, document / rpc, style placement, part shapes by element or type, headers, faults, inline / imported "
              "schemas, namespaces, soapAction and endpoint forms, naming, extra SOAP 1.2 port) x every operation x {service description, request, response, fault} x every payload with <= 2 non-default "
              "answers: the service class carries style / location / transport / SOAPAction / input / output, the request envelope equals the prescribed infoset, the client posts exactly that payload with the "
              "required headers and parses the prescribed response or fault."),
        note="requests is a names-only stand-in: DefaultTransport is not exercised; one-way operations are outside the property; five open known findings"),
})

NOT_YET = "check not built yet in this session (see DESIGN.md section 8 for the build order)"


def main():
    checks = []
    for pid in ALL:
        c = CHECKS.get(pid)
        if not c:
            continue
        checks.append({
            "property_id": pid,
            "quick_cmd": f"./check {pid} --tier quick",
            "thorough_cmd": f"./check {pid} --tier thorough",
            "evidence_file": f"/verif/evidence/{pid}.json",
            "replay_cmd_template": f"./check {pid} --replay {{path}}",
            "engine": c["engine"],
            "level_claimed": {"category": c["category"], "text": c["text"], "design_ref": c["design_ref"]},
            "level_note": c["note"],
            "technique": c["technique"],
        })
    m = {
        "version": 1,
        "setup_cmd": "./setup.sh",
        "hooks": {
            "guard": "XSDATA_VERIF",
            "enable": "no source hooks: instrumentation is external (sys.monitoring, import-time AST transform, monkey-patching from the harness); ./check exports XSDATA_VERIF=1 for uniformity",
            "baseline_off_cmd": "cd /repo && env -u XSDATA_VERIF /venv/bin/python -m pytest -ra -q -p no:cacheprovider --timeout=900 --continue-on-collection-errors",
            "source_commits": [],
            "add_only": True,
        },
        "engines": [
            {"name": "E1", "path": "vmc/engine.py", "serves_properties": sorted(CHECKS), "kind_free_text": "stateless deviation-bounded explorer over harness choice points (hand-written, Python)"},
            {"name": "E2", "path": "vmc/props/c14.py + vmc/canon.py", "serves_properties": ["C14"], "kind_free_text": "explicit-state BFS over replayed operation histories with generic canonical state hashing"},
            {"name": "E3", "path": "vmc/sched.py + vmc/procstate.py", "serves_properties": ["C19"], "kind_free_text": "controlled thread scheduler: sys.monitoring LINE events at shared-state lines, per-thread semaphore baton, dynamic write profile + AST scan; process-wide state discovered by a walk and restored before every execution"},
            {"name": "E4", "path": "vmc/setorder.py", "serves_properties": ["C04", "C12"], "kind_free_text": "import-time AST transform owning set iteration order (incl. results of set algebra) and id() as explorer choice points"},
            {"name": "E5", "path": "vmc/gmodel.py", "serves_properties": ["C01", "C03", "C04", "C08", "C09", "C10", "C15", "C18"], "kind_free_text": "grammar-walk generator of binding models as real dataclasses in synthetic modules"},
            {"name": "G-tree", "path": "vmc/gtree.py", "serves_properties": ["C07", "C08", "C11"], "kind_free_text": "generator of generic XML trees (explicit-prefix writer, self-checked with expat + libxml2)"},
            {"name": "G-xsd", "path": "vmc/gxsd.py", "serves_properties": ["C02", "C13"], "kind_free_text": "schema AST + renderer + instance enumerator; every schema and instance validated by libxml2"},
            {"name": "G-dtd", "path": "vmc/gdtd.py", "serves_properties": ["C16"], "kind_free_text": "DTD AST + renderer + instance enumerator; every DTD and instance validated by libxml2"},
            {"name": "G-wsdl", "path": "vmc/gwsdl.py", "serves_properties": ["C17"], "kind_free_text": "WSDL 1.1 AST + renderer + payload enumerator + independent reading of the prescribed envelopes"},
        ],
        "checks": checks,
        "not_applicable": [{"property_id": p, "reason": NOT_YET} for p in ALL if p not in CHECKS],
        "notes": "All checks run /venv/bin/python against VERIF_REPO (default /repo) working tree. Exit 2 = machinery broken (never a verdict).",
    }
    with open("MANIFEST.json", "w") as f:
        json.dump(m, f, indent=1)
    print("claimed:", sorted(CHECKS))


main()
