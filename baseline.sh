#!/bin/bash
# Runs the repository's pinned baseline (guard OFF) and prints pass/fail counts.
unset XSDATA_VERIF
cd "${VERIF_REPO:-/repo}" && /venv/bin/python -m pytest -ra -q -p no:cacheprovider --timeout=900 --continue-on-collection-errors "$@" 2>&1 | tail -5
