"""Self-tests of the explorer: planted bugs must be found, enumeration counts must be exact,
replay must be deterministic."""
from __future__ import annotations

import sys

from .engine import Chooser, Collector, HarnessError, explore


def _count(bound, arities, free=()):
    seen = []

    def run(ch):
        v = tuple(ch.choose(a, f"p{i}", free=i in free) for i, a in enumerate(arities))
        return {"ok": v != (1, 2, 0), "case": v, "nontrivial": repr(v), "bucket": "planted"}

    col = Collector("self", {})
    n = explore(run, bound, lambda ch, out: (seen.append(tuple(ch.choices)), col(ch, out)))
    return n, seen, col.stats


def main() -> int:
    # full product
    n, seen, st = _count(None, [2, 3, 2])
    assert n == 12 and len(set(seen)) == 12, (n, seen)
    assert len(st.violations) == 1 and st.violations[0]["choices"] == [1, 2, 0]
    # deviation bound 1: default + (1 + 2 + 1)
    n, seen, st = _count(1, [2, 3, 2])
    assert n == 5 and len(set(seen)) == 5, n
    assert not st.violations
    # bound 2 finds the planted 2-deviation bug
    n, seen, st = _count(2, [2, 3, 2])
    assert n == 1 + 4 + (1 * 2 + 1 * 1 + 2 * 1) and len(st.violations) == 1, n
    # free points are always fully enumerated
    n, seen, st = _count(0, [2, 3, 2], free={0, 1})
    assert n == 6, n
    # out-of-range replay is a hard error
    try:
        ch = Chooser([5])
        ch.choose(2, "x")
    except HarnessError:
        pass
    else:
        raise AssertionError("replay divergence not detected")
    print("selftest: explorer ok")
    return 0


if __name__ == "__main__":
    sys.exit(main())
