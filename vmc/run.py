"""Entry point: python -m vmc.run <ID> [--tier quick|thorough] [--replay FILE]."""
from __future__ import annotations

import argparse
import importlib
import os
import sys
import time
import traceback

from . import engine


# modules of the tree under test that are loaded through the set-order / id() owning transform
# (vmc.setorder, DESIGN.md 2.4) for a given property; must be installed before xsdata is imported
CODEGEN_PREFIXES = ["xsdata.codegen", "xsdata.utils.graphs", "xsdata.utils.collections", "xsdata.models.xsd", "xsdata.models.wsdl", "xsdata.models.dtd", "xsdata.models.mixins",
                    "xsdata.formats.dataclass.generator", "xsdata.formats.dataclass.filters", "xsdata.formats.converter", "xsdata.formats.mixins"]
SETORDER = {
    "C12": {"prefixes": CODEGEN_PREFIXES + ["toposort"], "own_ids": True},
    "C04": {"prefixes": ["xsdata.formats.dataclass.parsers.dict", "xsdata.formats.dataclass.context", "xsdata.formats.dataclass.serializers.dict"]},
}


def main(argv=None) -> int:
    ap = argparse.ArgumentParser()
    ap.add_argument("prop")
    ap.add_argument("--tier", default=os.environ.get("VERIF_TIER", "quick"), choices=["quick", "thorough"])
    ap.add_argument("--replay")
    a = ap.parse_args(argv)
    prop = a.prop.upper()
    seed = int(os.environ.get("VERIF_SEED", "0") or 0)
    try:
        pre = SETORDER.get(prop)
        if pre:
            from . import setorder
            setorder.install(pre["prefixes"], pre.get("own_ids", False))
        mod = importlib.import_module(f"vmc.props.{prop.lower()}")
        import logging
        lg = logging.getLogger("xsdata")  # the library's warnings ("Unassigned parsed object ...") are not part of a check's output
        if not lg.handlers:
            lg.addHandler(logging.NullHandler())
        lg.propagate = False
        if a.replay:
            if hasattr(mod, "replay"):
                return mod.replay(a.replay)
            return engine.replay_file(a.replay)
        return mod.run(a.tier, seed)
    except engine.HarnessError as e:
        print(f"HARNESS-ERROR property={prop}: {e}", file=sys.stderr)
        return 2
    except Exception:
        print(f"HARNESS-ERROR property={prop}: unexpected exception in the machinery", file=sys.stderr)
        traceback.print_exc()
        return 2


if __name__ == "__main__":
    import shutil
    import tempfile
    # every scratch file of this run (parent and forked workers) lives under one directory that is removed at the end
    _root = tempfile.mkdtemp(prefix="vmc_run_")
    tempfile.tempdir = _root
    os.environ["TMPDIR"] = _root
    try:
        rc = main()
    finally:
        shutil.rmtree(_root, ignore_errors=True)
    sys.stdout.flush()
    sys.stderr.flush()
    # skip interpreter teardown: half-consumed parsers of a broken tree under test can crash there
    os._exit(rc)
