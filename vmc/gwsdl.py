"""G-wsdl: WSDL 1.1 definitions with one SOAP 1.1 binding, rendered from a small AST the harness owns.

From the same AST come
  (a) the expected service description per operation (style, location, transport, soapAction),
  (b) the payload enumerators for requests, responses and SOAP faults, and
  (c) an independent construction of the SOAP envelope document a payload denotes
      (explicit prefixes, vmc.infoset.El; never xsdata's writers).

What the WSDL prescribes (WSDL 1.1 section 3.5, SOAP 1.1 sections 4 and 7.1, WS-I BP 1.1 R2729/R2735):
  * Envelope / Header / Body / Fault live in http://schemas.xmlsoap.org/soap/envelope/ ; Header (when the
    binding declares a soap:header for the message) is the first child of Envelope, Body follows.
  * document style: the element a body part references appears directly under Body, in its own namespace.
    A body part given by *type* makes that type the type of Body itself (its content sits directly under Body).
  * rpc style: Body holds ONE wrapper element named after the operation (response: operation name +
    "Response") in the namespace of soap:body/@namespace; every body part appears under it as an accessor
    named after the part, WITHOUT namespace (this is also what upstream's own fixture tests/fixtures/hello
    shows: <ns1:getHelloAsString><arg0>..</arg0>); a part given by type gives the accessor that type, a part
    given by element puts that element under the accessor.
  * only the parts listed in soap:body/@parts (all parts when the attribute is absent) belong to the body; a
    part bound by soap:header goes under Header as the element it references.
  * children declared inside a complex type are qualified exactly when the declaring schema says
    elementFormDefault="qualified".
  * a fault comes back as Body/Fault with unqualified faultcode, faultstring, optional faultactor and an
    optional detail holding the element of one of the declared fault messages.

The two pairings WS-I BP forbids (R2203/R2204: document+type, rpc+element) are still WSDL 1.1; they are
generated as single deviations and can be switched off with CROSS_PAIRINGS.
"""
from __future__ import annotations

from dataclasses import dataclass, field
from typing import Any

from . import infoset as I
from .engine import Chooser, HarnessError, Prune

WSDL_NS = "http://schemas.xmlsoap.org/wsdl/"
SOAP_NS = "http://schemas.xmlsoap.org/wsdl/soap/"
ENV_NS = "http://schemas.xmlsoap.org/soap/envelope/"
HTTP_TRANSPORT = "http://schemas.xmlsoap.org/soap/http"
XS = I.XS

CROSS_PAIRINGS = True

ALPHABET = {"string": ["a", "b \u00e9", "x&<y"], "int": ["1", "-5"], "boolean": ["true", "false"]}


# ---------------------------------------------------------------------------------------
# AST


@dataclass
class Field:
    name: str
    type: str          # builtin local name
    min: int = 1


@dataclass
class XSchema:
    tns: str
    prefix: str
    form: str = "qualified"
    file: str | None = None           # None: inline in wsdl:types
    elements: list = field(default_factory=list)
    types: list = field(default_factory=list)
    imports: list = field(default_factory=list)   # other XSchema objects (by namespace only)


@dataclass
class CType:
    name: str | None
    fields: list
    schema: XSchema = None


@dataclass
class SType:
    name: str
    kind: str          # enum | restriction
    values: list
    schema: XSchema = None


@dataclass
class GElem:
    name: str
    type: Any          # CType (anonymous or named) | SType | builtin name
    schema: XSchema = None


@dataclass
class Part:
    name: str
    element: GElem | None = None
    type: Any = None   # CType (named) | SType | builtin name


@dataclass
class Message:
    name: str
    parts: list


@dataclass
class HeaderBind:
    message: Message
    part: str

    def the_part(self) -> Part:
        return next(p for p in self.message.parts if p.name == self.part)


@dataclass
class Side:
    """One direction of an operation as the binding describes it."""
    message: Message
    headers: list = field(default_factory=list)       # [HeaderBind]
    body_parts: list | None = None                    # soap:body/@parts (None: attribute absent)
    header_first: bool = True                         # order of soap:header / soap:body in the binding

    def parts_in_body(self) -> list:
        if self.body_parts is None:
            return list(self.message.parts)
        return [p for p in self.message.parts if p.name in self.body_parts]


@dataclass
class Operation:
    name: str
    style: str
    input: Side
    output: Side
    faults: list = field(default_factory=list)        # [(fault name, Message)]
    soap_action: str | None = ""                      # None: attribute absent
    shape: str = ""


@dataclass
class Wsdl:
    tns: str = "urn:svc"
    schemas: list = field(default_factory=list)
    messages: list = field(default_factory=list)
    ops: list = field(default_factory=list)
    style: str = "document"
    style_on: str = "binding"          # binding | operation | both | absent
    rpc_ns: str = "urn:rpc"
    location: str = "http://example.test/svc"
    port_type: str = "Port"
    binding: str = "Bind"
    service: str = "Service"
    port: str = "P"
    placement: str = "inline"          # inline | xs-import | wsdl-import-xsd | wsdl-import-wsdl | two-inline
    default_ns: bool = False           # WSDL namespace as default namespace instead of the wsdl: prefix
    soap12_port: bool = False          # a second binding (SOAP 1.2) of the same port type with its own port / endpoint, after the SOAP 1.1 one
    features: list = field(default_factory=list)


# ---------------------------------------------------------------------------------------
# generation: the base definition + deviations (every non-default answer costs 1)

OPS = [1, 2, 3, 4]
STYLE_ON = {"document": ["binding", "operation", "both", "absent"], "rpc": ["binding", "operation", "both"]}
SHAPES = {
    "document": ["element", "element-simple", "element-named-type", "no-parts"] + (["type-complex"] if CROSS_PAIRINGS else []),
    "rpc": ["string", "two-parts", "complex", "enum", "restricted", "no-parts"] + (["element"] if CROSS_PAIRINGS else []),
}
HEADERS = ["none", "own-message", "same-message", "own-message-after-body", "in-and-out", "two-headers", "one-of-two-parts"]
FAULTS = ["none", "one", "two"]
PLACEMENTS = ["inline", "xs-import", "wsdl-import-xsd", "wsdl-import-wsdl", "two-inline", "wsdl-import-wsdl-split"]
NS_MODES = ["distinct", "same"]
FORMS = ["qualified", "unqualified"]
ACTIONS = ["per-op", "empty", "absent", "url", "first-only"]
LOCATIONS = ["http://example.test/svc", "https://example.test:8443/svc?wsdl=1&v=2"]
OPNAMES = ["Op", "getItem", "get_item"]
MSGNAMES = ["convention", "soap-in-out"]


def gen_wsdl(ch: Chooser, max_features: int, max_ops: int = 4) -> Wsdl:
    feats = []

    def pick(seq, label):
        v = ch.pick(seq, label)
        if v != seq[0]:
            feats.append(f"{label}={v}")
        return v

    n_ops = pick([n for n in OPS if n <= max_ops], "ops")
    # style and part shape of the first operation are ONE choice, so that every rpc shape is a single deviation
    # away from the base; further operations follow the binding's style
    kinds = [(st, sh) for st in ("document", "rpc") for sh in SHAPES[st]]
    k = ch.choose(len(kinds), "op0")
    style, shape0 = kinds[k]
    if k:
        feats.append(f"op0={style}/{shape0}")
    style_on = pick(STYLE_ON[style], "style-on")
    shapes = [shape0] + [pick(SHAPES[style], f"shape{i}") for i in range(1, n_ops)]
    header = pick(HEADERS, "header")
    fault = pick(FAULTS, "fault")
    placement = pick(PLACEMENTS, "placement")
    ns_mode = pick(NS_MODES, "namespaces")
    form = pick(FORMS, "form")
    action = pick(ACTIONS, "action")
    location = pick(LOCATIONS, "location")
    opnames = pick(OPNAMES, "opnames")
    msgnames = pick(MSGNAMES, "msgnames")
    default_ns = ch.flag("wsdl-default-ns")
    if default_ns:
        feats.append("wsdl-default-ns")
    soap12 = ch.flag("soap12-port")
    if soap12:
        feats.append("soap12-port")
    shared_out = n_ops > 1 and ch.flag("shared-output-message")
    if shared_out:
        feats.append("shared-output-message")
    if ch.cost > max_features:
        raise Prune("more deviations than the bound")
    w = build(n_ops=n_ops, style=style, style_on=style_on, shapes=shapes, header=header, fault=fault, placement=placement, ns_mode=ns_mode,
              form=form, action=action, location=location, opnames=opnames, msgnames=msgnames, default_ns=default_ns, soap12_port=soap12, shared_output=shared_out)
    w.features = feats
    return w


def build(*, n_ops=1, style="document", style_on="binding", shapes=None, header="none", fault="none", placement="inline", ns_mode="distinct",
          form="qualified", action="per-op", location=LOCATIONS[0], opnames="Op", msgnames="convention", default_ns=False, soap12_port=False,
          shared_output=False) -> Wsdl:
    shapes = shapes or [SHAPES[style][0]] * n_ops
    w = Wsdl(style=style, style_on=style_on, location=location, placement=placement, default_ns=default_ns, soap12_port=soap12_port)
    data_ns = "urn:data" if ns_mode == "distinct" else w.tns
    if ns_mode == "same":
        w.rpc_ns = w.tns
    data = XSchema(data_ns, "d", form, file="data.xsd" if placement in ("xs-import", "wsdl-import-xsd") else None)
    w.schemas.append(data)
    aux = None
    if placement in ("two-inline", "wsdl-import-wsdl-split"):
        aux = XSchema("urn:aux", "x", form)
        w.schemas.append(aux)

    def elem(name, typ, schema=data):
        e = GElem(name, typ, schema)
        if isinstance(typ, CType) and typ.name is None:
            typ.schema = schema
        elif not isinstance(typ, str) and typ.schema is not schema and typ.schema not in schema.imports:
            schema.imports.append(typ.schema)   # xs:import by namespace only: both schemas are inline
        schema.elements.append(e)
        return e

    named = {}

    def rec():
        if "Rec" not in named:
            named["Rec"] = CType("Rec", [Field("x", "string"), Field("y", "int", 0)], data)
            data.types.append(named["Rec"])
        return named["Rec"]

    def stype(name):
        if name not in named:
            named[name] = SType("Color", "enum", ["red", "green"], data) if name == "Color" else SType("Short", "restriction", ["a", "b c"], data)
            data.types.append(named[name])
        return named[name]

    def in_fields():
        return CType(None, [Field("a", "string"), Field("b", "int", 0)])

    def out_fields():
        return CType(None, [Field("r", "string"), Field("n", "int", 0)])

    def msg(name, parts):
        m = Message(name, parts)
        w.messages.append(m)
        return m

    resp_schema = aux or data
    for i in range(n_ops):
        n = {"Op": f"Op{i + 1}", "getItem": f"getItem{i + 1}", "get_item": f"get_item{i + 1}"}[opnames]
        shape = shapes[i]
        if style == "document":
            if shape == "element":
                pin = [Part("parameters", element=elem(n, in_fields()))]
                pout = [Part("parameters", element=elem(n + "Response", out_fields(), resp_schema))]
            elif shape == "element-simple":
                pin = [Part("parameters", element=elem(n, "string"))]
                pout = [Part("parameters", element=elem(n + "Response", "int", resp_schema))]
            elif shape == "element-named-type":
                pin = [Part("parameters", element=elem(n, rec()))]
                pout = [Part("parameters", element=elem(n + "Response", rec(), resp_schema))]
            elif shape == "no-parts":
                pin = []
                pout = [Part("parameters", element=elem(n + "Response", out_fields(), resp_schema))]
            elif shape == "type-complex":
                pin = [Part("parameters", type=rec())]
                pout = [Part("parameters", type=rec())]
            else:
                raise HarnessError(shape)
        else:
            if shape == "string":
                pin, pout = [Part("arg0", type="string")], [Part("return", type="int")]
            elif shape == "two-parts":
                pin, pout = [Part("arg0", type="string"), Part("arg1", type="int")], [Part("return", type="int"), Part("extra", type="string")]
            elif shape == "complex":
                pin, pout = [Part("arg0", type=rec())], [Part("return", type=rec())]
            elif shape == "enum":
                pin, pout = [Part("arg0", type=stype("Color"))], [Part("return", type=stype("Color"))]
            elif shape == "restricted":
                pin, pout = [Part("arg0", type=stype("Short"))], [Part("return", type=stype("Short"))]
            elif shape == "no-parts":
                pin, pout = [], [Part("return", type="int")]
            elif shape == "element":
                pin = [Part("arg0", element=elem(n + "Arg", in_fields()))]
                pout = [Part("return", element=elem(n + "Result", out_fields(), resp_schema))]
            else:
                raise HarnessError(shape)
        if shared_output and i:
            # every further operation answers with the first operation's output message
            pout = None
        if msgnames == "convention":
            # as in upstream's hello fixture: input message named after the operation, output + "Response"
            mi, mo = msg(n, pin), (msg(n + "Response", pout) if pout is not None else w.ops[0].output.message)
        else:
            mi, mo = msg(n + "SoapIn", pin), (msg(n + "SoapOut", pout) if pout is not None else w.ops[0].output.message)
        op = Operation(n, style, Side(mi), Side(mo), shape=shape)
        # "first-only": only the first operation announces an action (what an earlier operation says must not reach a later one)
        op.soap_action = {"per-op": f"urn:svc/{n}", "empty": "", "absent": None, "url": f"http://example.test/a?x=1&y=2#{n}",
                          "first-only": f"urn:svc/{n}" if not w.ops else None}[action]
        w.ops.append(op)

    op0 = w.ops[0]
    if header != "none":
        hdr = elem("Hdr", CType(None, [Field("token", "string"), Field("ttl", "int", 0)]))
        if header == "same-message":
            body_names = [p.name for p in op0.input.message.parts]
            op0.input.message.parts.append(Part("hdr", element=hdr))
            op0.input.body_parts = body_names
            op0.input.headers.append(HeaderBind(op0.input.message, "hdr"))
        elif header in ("two-headers", "one-of-two-parts"):
            # a header message with two parts, the name of one being the beginning of the other's: both bound by two soap:header
            # elements, or only the longer-named one bound
            hdr2 = elem("HdrId", CType(None, [Field("sid", "string")]))
            hm = msg("HdrMsg", [Part("hdr", element=hdr), Part("hdrId", element=hdr2)])
            if header == "two-headers":
                op0.input.headers.append(HeaderBind(hm, "hdr"))
            op0.input.headers.append(HeaderBind(hm, "hdrId"))
        else:
            hm = msg("HdrMsg", [Part("hdr", element=hdr)])
            op0.input.headers.append(HeaderBind(hm, "hdr"))
            if header == "own-message-after-body":
                op0.input.header_first = False
            if header == "in-and-out":
                op0.output.headers.append(HeaderBind(hm, "hdr"))
    if fault != "none":
        e1 = elem("Err", CType(None, [Field("code", "int"), Field("msg", "string", 0)]))
        op0.faults.append(("F1", msg("F1Msg", [Part("fault", element=e1)])))
        if fault == "two":
            e2 = elem("Err2", CType(None, [Field("why", "string")]))
            op0.faults.append(("F2", msg("F2Msg", [Part("fault", element=e2)])))
    return w


# ---------------------------------------------------------------------------------------
# rendering


def _qref(x) -> str:
    """QName by which the WSDL / schema text refers to a type or element."""
    if isinstance(x, str):
        return f"xs:{x}"
    return f"{x.schema.prefix}:{x.name}"


def _render_ctype(t: CType, name_attr: str = "") -> str:
    kids = "".join(f'<xs:element name="{f.name}" type="xs:{f.type}"' + (' minOccurs="0"' if f.min == 0 else "") + "/>" for f in t.fields)
    return f"<xs:complexType{name_attr}><xs:sequence>{kids}</xs:sequence></xs:complexType>"


def _render_stype(t: SType) -> str:
    if t.kind == "enum":
        inner = "".join(f'<xs:enumeration value="{v}"/>' for v in t.values)
    else:
        inner = '<xs:maxLength value="10"/>'
    return f'<xs:simpleType name="{t.name}"><xs:restriction base="xs:string">{inner}</xs:restriction></xs:simpleType>'


def render_schema(s: XSchema, standalone: bool) -> str:
    head = "<xs:schema"
    if standalone:
        head = '<?xml version="1.0" encoding="UTF-8"?>\n<xs:schema xmlns:xs="http://www.w3.org/2001/XMLSchema"'
    head += f' targetNamespace="{s.tns}" xmlns:{s.prefix}="{s.tns}"'
    for o in s.imports:
        head += f' xmlns:{o.prefix}="{o.tns}"'
    if s.form == "qualified":
        head += ' elementFormDefault="qualified"'
    body = [f'<xs:import namespace="{o.tns}"/>' for o in s.imports]
    for e in s.elements:
        if isinstance(e.type, CType) and e.type.name is None:
            body.append(f'<xs:element name="{e.name}">{_render_ctype(e.type)}</xs:element>')
        else:
            body.append(f'<xs:element name="{e.name}" type="{_qref(e.type)}"/>')
    for t in s.types:
        body.append(_render_ctype(t, f' name="{t.name}"') if isinstance(t, CType) else _render_stype(t))
    return head + ">" + "".join(body) + "</xs:schema>"


def render(w: Wsdl) -> dict[str, str]:
    """-> {"svc.wsdl": text, other file name: text}."""
    P = "" if w.default_ns else "wsdl:"
    files = {}
    nsdecl = (f'xmlns="{WSDL_NS}"' if w.default_ns else f'xmlns:wsdl="{WSDL_NS}"') + f' xmlns:soap="{SOAP_NS}" xmlns:xs="{XS}" xmlns:tns="{w.tns}"'
    for s in w.schemas:
        nsdecl += f' xmlns:{s.prefix}="{s.tns}"'
    head = f'<?xml version="1.0" encoding="UTF-8"?>\n<{P}definitions {nsdecl} targetNamespace="{w.tns}" name="Svc">'

    # types
    types = ""
    imports = ""
    if w.placement in ("inline", "two-inline", "wsdl-import-wsdl", "wsdl-import-wsdl-split"):
        types = f"<{P}types>" + "".join(render_schema(s, False) for s in w.schemas) + f"</{P}types>"
    elif w.placement == "xs-import":
        s = w.schemas[0]
        types = f'<{P}types><xs:schema><xs:import namespace="{s.tns}" schemaLocation="{s.file}"/></xs:schema></{P}types>'
        files[s.file] = render_schema(s, True)
    elif w.placement == "wsdl-import-xsd":
        s = w.schemas[0]
        imports = f'<{P}import namespace="{s.tns}" location="{s.file}"/>'
        files[s.file] = render_schema(s, True)
    else:
        raise HarnessError(w.placement)

    msgs = []
    for m in w.messages:
        parts = "".join(f'<{P}part name="{p.name}" ' + (f'element="{_qref(p.element)}"' if p.element is not None else f'type="{_qref(p.type)}"') + "/>" for p in m.parts)
        msgs.append(f'<{P}message name="{m.name}">{parts}</{P}message>')
    pt = [f'<{P}portType name="{w.port_type}">']
    for op in w.ops:
        pt.append(f'<{P}operation name="{op.name}"><{P}input message="tns:{op.input.message.name}"/><{P}output message="tns:{op.output.message.name}"/>'
                  + "".join(f'<{P}fault name="{fn}" message="tns:{fm.name}"/>' for fn, fm in op.faults) + f"</{P}operation>")
    pt.append(f"</{P}portType>")

    def side(tag: str, sd: Side, op: Operation) -> str:
        body = '<soap:body use="literal"'
        if op.style == "rpc":
            body += f' namespace="{w.rpc_ns}"'
        if sd.body_parts is not None:
            body += f' parts="{" ".join(sd.body_parts)}"'
        body += "/>"
        hdrs = "".join(f'<soap:header message="tns:{hb.message.name}" part="{hb.part}" use="literal"/>' for hb in sd.headers)
        return f"<{P}{tag}>" + (hdrs + body if sd.header_first else body + hdrs) + f"</{P}{tag}>"

    bstyle = f' style="{w.style}"' if w.style_on in ("binding", "both") else ""
    bd = [f'<{P}binding name="{w.binding}" type="tns:{w.port_type}"><soap:binding transport="{HTTP_TRANSPORT}"{bstyle}/>']
    for op in w.ops:
        so = "<soap:operation"
        if op.soap_action is not None:
            so += f' soapAction="{I.esc_attr(op.soap_action)}"'
        if w.style_on in ("operation", "both"):
            so += f' style="{op.style}"'
        so += "/>"
        bd.append(f'<{P}operation name="{op.name}">{so}{side("input", op.input, op)}{side("output", op.output, op)}'
                  + "".join(f'<{P}fault name="{fn}"><soap:fault name="{fn}" use="literal"/></{P}fault>' for fn, _ in op.faults) + f"</{P}operation>")
    bd.append(f"</{P}binding>")
    ports = f'<{P}port name="{w.port}" binding="tns:{w.binding}"><soap:address location="{I.esc_attr(w.location)}"/></{P}port>'
    if w.soap12_port:
        # what .NET / WCF services publish: the same port type bound a second time with SOAP 1.2, at its own endpoint
        nsdecl12 = ' xmlns:soap12="http://schemas.xmlsoap.org/wsdl/soap12/"'
        head = head.replace(f' xmlns:soap="{SOAP_NS}"', f' xmlns:soap="{SOAP_NS}"' + nsdecl12)
        bd += [x.replace("<soap:", "<soap12:").replace(f'name="{w.binding}"', f'name="{w.binding}12"') for x in bd]
        ports += f'<{P}port name="{w.port}12" binding="tns:{w.binding}12"><soap12:address location="{I.esc_attr(soap12_location(w))}"/></{P}port>'
    svc = f'<{P}service name="{w.service}">{ports}</{P}service>'

    if w.placement == "wsdl-import-wsdl-split":
        # both documents carry an inline schema: the request elements with the abstract part, the response elements with the main one
        t_abs = f"<{P}types>" + render_schema(w.schemas[0], False) + f"</{P}types>"
        t_main = f"<{P}types>" + "".join(render_schema(s, False) for s in w.schemas[1:]) + f"</{P}types>"
        files["abstract.wsdl"] = head.replace('name="Svc"', 'name="SvcAbstract"') + t_abs + "".join(msgs) + "".join(pt) + f"</{P}definitions>"
        files["svc.wsdl"] = head + f'<{P}import namespace="{w.tns}" location="abstract.wsdl"/>' + t_main + "".join(bd) + svc + f"</{P}definitions>"
    elif w.placement == "wsdl-import-wsdl":
        # abstract part (types, messages, portType) in a second WSDL of the same namespace; binding + service in the main one
        files["abstract.wsdl"] = head.replace('name="Svc"', 'name="SvcAbstract"') + types + "".join(msgs) + "".join(pt) + f"</{P}definitions>"
        files["svc.wsdl"] = head + f'<{P}import namespace="{w.tns}" location="abstract.wsdl"/>' + "".join(bd) + svc + f"</{P}definitions>"
    else:
        files["svc.wsdl"] = head + imports + types + "".join(msgs) + "".join(pt) + "".join(bd) + svc + f"</{P}definitions>"
    return files


def soap12_location(w: Wsdl) -> str:
    return w.location.replace("/svc", "/svc12")


# ---------------------------------------------------------------------------------------
# (a) the expected service description


def expected_description(w: Wsdl, op: Operation) -> dict:
    return {"style": op.style, "location": w.location, "transport": HTTP_TRANSPORT, "soap_action": op.soap_action or ""}


# ---------------------------------------------------------------------------------------
# (b) payload enumerators.  A payload is plain data:
#     {"headers": [(part name, content)], "body": [(part name, content)]}
#     content of a complex type = [(field name, text)] (present fields, declaration order); of a simple type = text
#     a fault = {"faultcode", "faultstring", "faultactor": str|None, "detail": None | (fault index, content)}


class PayloadGen:
    def __init__(self, ch: Chooser, free: bool = False):
        self.ch = ch
        self.free = free
        self.n = 0

    def pick(self, seq, label):
        self.n += 1
        return seq[self.ch.choose(len(seq), f"{label}#{self.n}", free=self.free)]

    def content(self, t, label: str):
        if isinstance(t, CType):
            out = []
            for f in t.fields:
                if f.min == 0 and not self.pick([False, True], f"present:{label}.{f.name}"):
                    continue
                out.append((f.name, self.pick(ALPHABET[f.type], f"val:{label}.{f.name}")))
            return out
        if isinstance(t, SType):
            return self.pick(t.values, f"val:{label}")
        return self.pick(ALPHABET[t], f"val:{label}")

    def part(self, p: Part):
        return (p.name, self.content(p.element.type if p.element is not None else p.type, p.name))

    def message(self, sd: Side) -> dict:
        return {"headers": [self.part(hb.the_part()) for hb in sd.headers], "body": [self.part(p) for p in sd.parts_in_body()]}

    def fault(self, op: Operation) -> dict:
        code = self.pick(["s:Server", "Client"], "faultcode")
        text = self.pick(["boom", "x&<y"], "faultstring")
        actor = self.pick([None, "urn:actor"], "faultactor")
        detail = None
        if op.faults:
            # default: the first declared fault; deviations: no detail at all, the other declared faults
            k = self.pick(list(range(len(op.faults))) + [None], "detail")
            if k is not None:
                detail = (k, self.part(op.faults[k][1].parts[0])[1])
        return {"faultcode": code, "faultstring": text, "faultactor": actor, "detail": detail}


# ---------------------------------------------------------------------------------------
# (c) the envelope document a payload denotes


def _prefixes(w: Wsdl) -> dict:
    ns = {"s": ENV_NS, "r": w.rpc_ns}
    for s in w.schemas:
        ns[s.prefix] = s.tns
    return ns


def _typed_kids(t, content) -> list:
    """Children / text of an element of type t carrying `content`."""
    if isinstance(t, CType):
        q = t.schema.prefix + ":" if t.schema.form == "qualified" else ""
        return [I.El(q + fname, kids=[v]) for fname, v in content]
    return [content]


def _element(e: GElem, content) -> I.El:
    return I.El(f"{e.schema.prefix}:{e.name}", kids=_typed_kids(e.type, content))


def envelope(w: Wsdl, op: Operation, direction: str, payload: dict) -> I.El:
    sd = op.input if direction == "input" else op.output
    env = I.El("s:Envelope", nsdecls=_prefixes(w))
    if sd.headers:
        hdr = I.El("s:Header")
        for hb, (pname, content) in zip(sd.headers, payload["headers"]):
            hdr.kids.append(_element(hb.the_part().element, content))
        env.kids.append(hdr)
    body = I.El("s:Body")
    env.kids.append(body)
    parts = sd.parts_in_body()
    if len(parts) != len(payload["body"]):
        raise HarnessError("payload does not fit the message")
    if op.style == "document":
        for p, (pname, content) in zip(parts, payload["body"]):
            if p.element is not None:
                body.kids.append(_element(p.element, content))
            else:
                body.kids += _typed_kids(p.type, content)   # the part's type is the type of Body
    else:
        wrapper = I.El("r:" + (op.name if direction == "input" else op.name + "Response"))
        for p, (pname, content) in zip(parts, payload["body"]):
            if p.element is not None:
                wrapper.kids.append(I.El(p.name, kids=[_element(p.element, content)]))
            else:
                wrapper.kids.append(I.El(p.name, kids=_typed_kids(p.type, content)))
        body.kids.append(wrapper)
    return env


def fault_envelope(w: Wsdl, op: Operation, f: dict) -> I.El:
    env = I.El("s:Envelope", nsdecls=_prefixes(w))
    body = I.El("s:Body")
    env.kids.append(body)
    fl = I.El("s:Fault", kids=[I.El("faultcode", kids=[f["faultcode"]]), I.El("faultstring", kids=[f["faultstring"]])])
    if f["faultactor"] is not None:
        fl.kids.append(I.El("faultactor", kids=[f["faultactor"]]))
    if f["detail"] is not None:
        k, content = f["detail"]
        fl.kids.append(I.El("detail", kids=[_element(op.faults[k][1].parts[0].element, content)]))
    body.kids.append(fl)
    return env


def document(el: I.El) -> str:
    return '<?xml version="1.0" encoding="UTF-8"?>\n' + el.write()
