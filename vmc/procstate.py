"""Process-wide mutable state of the tree under test (used by C19, E3).

A memo that lives in a module global, in a class attribute or on a module-level library instance is shared by every
thread of the process whether or not the callers share a context.  The harness runs every operation once before the
threads start (lazy imports must be over before schedules are compared), which would fill such a memo and hide every race
on it.  ``ProcessState`` therefore

* imports up front every module of the tree under test that the harness' operations load lazily (learnt in a pristine child process),
* records every mutable container reachable from a module global, from a class attribute of a class defined there, or from
  an attribute of a module-level library instance, together with its contents at that moment (the state of a process that
  has imported the library and used nothing), plus the attribute set of the harness' model classes,
* puts all of them among the canonical roots of the dynamic write profile (so that lines storing into them become
  scheduling points through the alias rule), and
* restores the recorded contents in place before every execution (``reset``) and empties every ``functools.lru_cache``.

Nothing is hard-coded: a container added by an edit of the tree is found by the walk.
"""
from __future__ import annotations

import enum
import functools
import importlib
import os
import pkgutil
import sys
import types
from collections import defaultdict, deque

CONTAINERS = (dict, list, set, deque)


def _snap(x, depth=0):
    """Copy of the builtin-container skeleton; everything else by reference."""
    if depth > 6:
        return ("ref", x)
    if isinstance(x, defaultdict):
        return ("defaultdict", x.default_factory, {k: _snap(v, depth + 1) for k, v in x.items()})
    if isinstance(x, dict):
        return ("dict", type(x), {k: _snap(v, depth + 1) for k, v in x.items()})
    if isinstance(x, (list, deque)):
        return ("seq", type(x), [_snap(v, depth + 1) for v in x])
    if isinstance(x, set):
        return ("set", set(x))
    return ("ref", x)


def _fresh(s):
    kind = s[0]
    if kind == "ref":
        return s[1]
    if kind == "defaultdict":
        d = defaultdict(s[1])
        d.update({k: _fresh(v) for k, v in s[2].items()})
        return d
    if kind == "dict":
        try:
            d = s[1]()
        except Exception:
            d = {}
        d.update({k: _fresh(v) for k, v in s[2].items()})
        return d
    if kind == "seq":
        return s[1](_fresh(v) for v in s[2])
    return set(s[1])


def _restore(obj, s):
    kind = s[0]
    if kind in ("dict", "defaultdict"):
        obj.clear()
        obj.update({k: _fresh(v) for k, v in s[2].items()})
    elif kind == "seq":
        obj.clear()
        obj.extend(_fresh(v) for v in s[2])
    elif kind == "set":
        obj.clear()
        obj.update(s[1])


class ProcessState:
    def __init__(self, repo: str, packages=("xsdata",), model_classes=(), modules=None):
        """modules: import exactly these (the set a pristine process has loaded after running the harness' operations once);
        else every module of the given packages."""
        self.repo = os.path.realpath(repo)
        self.import_errors: list[str] = []
        if modules is not None:
            for m in modules:
                try:
                    importlib.import_module(m)
                except Exception as e:  # noqa
                    self.import_errors.append(f"{m}: {type(e).__name__}")
        else:
            for p in packages:
                self._import_all(p)
        self.containers: dict[str, object] = {}     # name -> live container
        self.instances: dict[str, object] = {}      # name -> module-level library instance
        self.caches: dict[str, object] = {}         # name -> lru_cache wrapper
        self.models = list(model_classes)
        for mname, mod in sorted(sys.modules.items()):
            if mod is None or not any(mname == p or mname.startswith(p + ".") for p in packages):
                continue
            f = getattr(mod, "__file__", None)
            if not f or not os.path.realpath(f).startswith(self.repo + os.sep):
                continue
            self._scan_module(mname, mod)
        self.snap = {n: _snap(c) for n, c in self.containers.items()}
        self.inst_snap = {n: {a: _snap(v) for a, v in self._inst_attrs(o).items()} for n, o in self.instances.items()}
        self.model_keys = {c: set(c.__dict__) for c in self.models}
        self.modules_after_import = {m for m in sys.modules if m == "xsdata" or m.startswith("xsdata.")}

    # ------------------------------------------------------------------ discovery
    def _import_all(self, pkgname: str):
        try:
            pkg = importlib.import_module(pkgname)
        except Exception as e:  # noqa
            self.import_errors.append(f"{pkgname}: {type(e).__name__}")
            return
        if not hasattr(pkg, "__path__"):
            return
        for info in pkgutil.walk_packages(pkg.__path__, pkgname + "."):
            try:
                importlib.import_module(info.name)
            except Exception as e:  # noqa  (a module that needs an absent third-party package)
                self.import_errors.append(f"{info.name}: {type(e).__name__}")

    @staticmethod
    def _inst_attrs(o) -> dict:
        out = {}
        d = getattr(o, "__dict__", None)
        if isinstance(d, dict):
            out.update(d)
        for klass in type(o).__mro__:
            sl = klass.__dict__.get("__slots__", ())
            for s in ((sl,) if isinstance(sl, str) else sl):
                if s not in ("__dict__", "__weakref__") and hasattr(o, s):
                    out[s] = getattr(o, s)
        return out

    def _scan_module(self, mname, mod):
        for k, v in list(vars(mod).items()):
            if k.startswith("__") and k.endswith("__"):
                continue
            name = f"{mname}.{k}"
            if isinstance(v, functools._lru_cache_wrapper):
                self.caches[name] = v
            elif isinstance(v, CONTAINERS):
                self.containers[name] = v
            elif isinstance(v, type):
                if v.__module__ != mname or issubclass(v, enum.Enum):
                    continue
                for ak, av in list(vars(v).items()):
                    if (ak.startswith("__") and ak.endswith("__")) or ak in ("_field_defaults", "_fields", "_class_cleanups"):
                        continue
                    f = getattr(av, "__func__", av)
                    if isinstance(av, functools._lru_cache_wrapper) or isinstance(f, functools._lru_cache_wrapper):
                        self.caches[f"{name}.{ak}"] = f if isinstance(f, functools._lru_cache_wrapper) else av
                    elif isinstance(av, CONTAINERS):
                        self.containers[f"{name}.{ak}"] = av
            elif isinstance(v, (types.ModuleType, types.FunctionType, types.BuiltinFunctionType, enum.Enum)):
                continue
            elif (type(v).__module__ or "").startswith("xsdata") and not isinstance(v, (str, int, float, tuple, frozenset)):
                # one entry per object (an instance re-exported by several modules is the same state)
                if not any(o is v for o in self.instances.values()):
                    self.instances[name] = v

    # ------------------------------------------------------------------ use
    def roots(self) -> dict:
        """Canonical roots for the write profile."""
        r = {}
        for n, c in self.containers.items():
            r[f"proc:{n}"] = c
        for n, o in self.instances.items():
            r[f"proc:{n}"] = o
        for c in self.models:
            r[f"model:{c.__qualname__}"] = {k: v for k, v in c.__dict__.items() if k not in self.model_keys[c]}
        return r

    def fingerprint(self) -> dict:
        """Cheap change detector (computed after every line of the write profile): per container its length, the identities of its
        values and the lengths of the containers directly inside it; per module-level instance the same for each attribute; per model
        class the set of attributes added since import."""
        def fp(c, depth=0):
            if isinstance(c, dict):
                return (len(c), tuple((id(k), id(v), fp(v, depth + 1) if depth < 2 and isinstance(v, CONTAINERS) else 0) for k, v in c.items()))
            if isinstance(c, (list, deque)):
                return (len(c), tuple((id(v), fp(v, depth + 1) if depth < 2 and isinstance(v, CONTAINERS) else 0) for v in c))
            if isinstance(c, set):
                return (len(c), hash(frozenset(map(id, c))))
            return id(c)
        out = {}
        for n, c in self.containers.items():
            out[n] = fp(c)
        for n, o in self.instances.items():
            for a, v in self._inst_attrs(o).items():
                out[f"{n}.{a}"] = fp(v) if isinstance(v, CONTAINERS) else id(v)
        for c in self.models:
            out[f"{c.__module__}.{c.__qualname__}.__dict__"] = tuple(sorted(k for k in c.__dict__ if k not in self.model_keys[c]))
        return out

    def reset(self):
        for n, c in self.containers.items():
            _restore(c, self.snap[n])
        for n, o in self.instances.items():
            snap = self.inst_snap[n]
            cur = self._inst_attrs(o)
            for a in list(cur):
                if a not in snap:
                    try:
                        delattr(o, a)
                    except Exception:
                        pass
            for a, s in snap.items():
                v = cur.get(a)
                if s[0] != "ref" and v is not None and type(v) in (dict, defaultdict, list, set, deque):
                    _restore(v, s)
                else:
                    try:
                        if v is not s[1] if s[0] == "ref" else True:
                            setattr(o, a, _fresh(s))
                    except Exception:
                        pass
        for c in self.models:
            for k in list(c.__dict__):
                if k not in self.model_keys[c]:
                    try:
                        delattr(c, k)
                    except Exception:
                        pass
        for w in self.caches.values():
            w.cache_clear()

    def new_library_modules(self) -> list[str]:
        return sorted(m for m in sys.modules if (m == "xsdata" or m.startswith("xsdata.")) and m not in self.modules_after_import)

    def summary(self) -> dict:
        return {"containers": sorted(self.containers), "instances": sorted(self.instances), "lru_caches": sorted(self.caches),
                "model_classes": [c.__qualname__ for c in self.models], "modules_not_importable": self.import_errors}
