"""G-xsd: XML Schemas rendered from a small AST the harness owns, so that the *instance enumerator*
can be derived from the same AST (DESIGN.md 2.5).  A schema is the base schema plus <= D feature
deviations.  Every generated instance document is validated with libxml2 (lxml.etree.XMLSchema)
before use; an instance libxml2 rejects is a generator bug and is counted, never alarmed.
"""
from __future__ import annotations

import itertools
from dataclasses import dataclass, field
from typing import Any

from lxml import etree

from . import infoset as I
from .engine import Chooser, HarnessError, Prune

XS = I.XS
TNS = "urn:t"

# ---------------------------------------------------------------------------------------
# simple types: name -> (xsd type expression, value alphabet, canonical-izer)

SIMPLE = {
    "string": dict(vals=["a", "b c", "x&<y"]),
    "int": dict(vals=["1", "-5", "0"]),
    "boolean": dict(vals=["true", "false", "1"], norm=lambda v: "true" if v in ("true", "1") else "false"),
    "decimal": dict(vals=["1.5", "-0.25", "10"], norm=lambda v: str(__import__("decimal").Decimal(v)) if True else v),
    "float": dict(vals=["1.5", "-2.0", "1E5"], norm=lambda v: repr(float(v))),
    "date": dict(vals=["2020-01-02", "1999-12-31Z"]),
    "dateTime": dict(vals=["2020-01-02T03:04:05", "1999-12-31T23:59:59.5Z"], norm=lambda v: _norm_frac(v)),
    "time": dict(vals=["01:02:03", "23:59:59Z"], norm=lambda v: _norm_frac(v)),
    "duration": dict(vals=["P1D", "PT1H30M"]),
    "gYear": dict(vals=["2001", "1999Z"]),
    "QName": dict(vals=["xs:string", "t:thing"], qname=True),
    "hexBinary": dict(vals=["0AFF", "00"], norm=lambda v: v.upper()),
    "base64Binary": dict(vals=["aGk=", "AAEC"]),
    "anyURI": dict(vals=["urn:x", "http://a/b"]),
    "token": dict(vals=["tok", "a"]),
    "NMTOKENS": dict(vals=["a b", "c"], norm=lambda v: " ".join(v.split())),
}


def _norm_frac(v: str) -> str:
    """Canonical fractional seconds: trailing zeros (and an all-zero fraction) removed."""
    import re
    return re.sub(r"(:\d\d)\.(\d*?)0*(?=(Z|[+-]\d\d:\d\d)?$)", lambda m: m.group(1) + ("." + m.group(2) if m.group(2) else ""), v)


@dataclass
class SimpleT:
    """A (possibly derived) simple type."""
    kind: str = "builtin"       # builtin | enum | list | union | restriction
    base: str = "string"        # builtin name
    name: str | None = None     # named (global) simple type, else inline
    enum: list = field(default_factory=list)
    members: list = field(default_factory=list)  # union member builtin names

    def values(self) -> list[str]:
        if self.kind == "enum":
            return list(self.enum)
        if self.kind == "list":
            v = SIMPLE[self.base]["vals"]
            return [v[0], f"{v[0]} {v[1]}", ""]
        if self.kind == "union":
            out = []
            for m in self.members:
                out.append(SIMPLE[m]["vals"][0])
            return out
        return SIMPLE[self.base]["vals"]

    def ref(self) -> str:
        return f"t:{self.name}" if self.name else f"xs:{self.base}"

    def norm(self, v: str) -> str:
        if self.kind == "list":
            return " ".join(v.split())
        if self.kind in ("enum", "union"):
            return v
        f = SIMPLE[self.base].get("norm")
        return f(v) if f else v

    def is_qname(self):
        return self.kind == "builtin" and SIMPLE[self.base].get("qname")


@dataclass
class Attr:
    name: str
    type: SimpleT
    use: str = "optional"       # optional | required
    default: str | None = None
    fixed: str | None = None
    qualified: bool = False
    form: str | None = None     # explicit form attribute ("qualified" | "unqualified"), overrides the schema default


@dataclass
class Elem:
    name: str
    type: Any                   # SimpleT | Complex | ("ref", global name)
    min: int = 1
    max: int | None = 1         # None = unbounded
    nillable: bool = False
    ref: bool = False           # reference to a global element of that name
    default: str | None = None
    subst: list = field(default_factory=list)  # substitution group member names (global elements)
    form: str | None = None     # explicit form attribute on a local element


@dataclass
class Group:
    kind: str                   # sequence | choice | all
    items: list
    min: int = 1
    max: int | None = 1
    named: str | None = None    # rendered as a xs:group ref
    present_first: bool = False  # instance enumeration: the default answer is "present" (leaving it out is the deviation)


@dataclass
class AnyP:
    ns: str = "##other"
    process: str = "lax"
    min: int = 0
    max: int | None = 1


@dataclass
class Complex:
    particle: Group | None = None
    attrs: list = field(default_factory=list)
    name: str | None = None     # named complex type
    mixed: bool = False
    base: "Complex | None" = None        # extension base
    simple_content: SimpleT | None = None
    any_attr: bool = False
    attr_group: str | None = None
    abstract: bool = False
    restricts: "Complex | None" = None   # complexContent restriction of that base: the particle re-declares what is kept
    mixed_via_content: bool = False      # spelled <complexContent mixed="true"><restriction base="xs:anyType">


@dataclass
class Schema:
    tns: str | None = TNS
    elem_form: str = "qualified"
    attr_form: str = "unqualified"
    root: Elem = None
    globals: list = field(default_factory=list)   # extra global elements
    types: list = field(default_factory=list)     # named types (Complex / SimpleT) rendered globally
    include: "Schema | None" = None                # second file (same tns) holding some of the types
    import_: "Schema | None" = None
    features: list = field(default_factory=list)
    derived: dict = field(default_factory=dict)   # base type name -> [derived Complex] for xsi:type instances
    ordered: bool = True                           # output must preserve element order & be schema-valid again


# ---------------------------------------------------------------------------------------
# rendering


def _occ(mn, mx):
    s = ""
    if mn != 1:
        s += f' minOccurs="{mn}"'
    if mx != 1:
        s += f' maxOccurs="{"unbounded" if mx is None else mx}"'
    return s


def render_simple_def(t: SimpleT, name_attr: str = "") -> str:
    if t.kind == "enum":
        inner = "".join(f'<xs:enumeration value="{I.esc_attr(v)}"/>' for v in t.enum)
        return f'<xs:simpleType{name_attr}><xs:restriction base="xs:{t.base}">{inner}</xs:restriction></xs:simpleType>'
    if t.kind == "list":
        return f'<xs:simpleType{name_attr}><xs:list itemType="xs:{t.base}"/></xs:simpleType>'
    if t.kind == "union":
        return f'<xs:simpleType{name_attr}><xs:union memberTypes="{" ".join("xs:" + m for m in t.members)}"/></xs:simpleType>'
    if t.kind == "restriction":
        return f'<xs:simpleType{name_attr}><xs:restriction base="xs:{t.base}"><xs:maxLength value="50"/></xs:restriction></xs:simpleType>'
    raise HarnessError(t.kind)


def render_attr(a) -> str:
    if isinstance(a, tuple):  # ("import-attr", "o:flag")
        return f'<xs:attribute ref="{a[1]}"/>'
    s = f'<xs:attribute name="{a.name}"'
    inline = ""
    if a.type.kind == "builtin" or a.type.name:
        s += f' type="{a.type.ref()}"'
    else:
        inline = render_simple_def(a.type)
    if a.use != "optional":
        s += f' use="{a.use}"'
    if a.default is not None:
        s += f' default="{I.esc_attr(a.default)}"'
    if a.fixed is not None:
        s += f' fixed="{I.esc_attr(a.fixed)}"'
    if a.qualified:
        s += ' form="qualified"'
    elif a.form:
        s += f' form="{a.form}"'
    return s + (f">{inline}</xs:attribute>" if inline else "/>")


def render_particle(p) -> str:
    if isinstance(p, Elem):
        if p.ref:
            return f'<xs:element ref="t:{p.name}"{_occ(p.min, p.max)}/>'
        s = f'<xs:element name="{p.name}"{_occ(p.min, p.max)}'
        if p.nillable:
            s += ' nillable="true"'
        if p.default is not None:
            s += f' default="{I.esc_attr(p.default)}"'
        if p.form:
            s += f' form="{p.form}"'
        t = p.type
        if isinstance(t, SimpleT):
            if t.kind == "builtin" or t.name:
                return s + f' type="{t.ref()}"/>'
            return s + ">" + render_simple_def(t) + "</xs:element>"
        if isinstance(t, Complex):
            if t.name:
                return s + f' type="t:{t.name}"/>'
            return s + ">" + render_complex(t) + "</xs:element>"
        raise HarnessError(repr(t))
    if isinstance(p, tuple) and p[0] == "import-ref":
        return f'<xs:element ref="{p[1]}" minOccurs="0"/>'
    if isinstance(p, tuple) and p[0] == "import-subst":
        return f'<xs:element ref="{p[1]}" minOccurs="0" maxOccurs="2"/>'
    if isinstance(p, tuple) and p[0] == "import-typed":
        return f'<xs:element name="{p[1]}" type="{p[2]}" minOccurs="0"/>'
    if isinstance(p, tuple) and p[0] == "import-box":
        return f'<xs:element ref="{p[1]}" minOccurs="0"/>'
    if isinstance(p, AnyP):
        return f'<xs:any namespace="{p.ns}" processContents="{p.process}"{_occ(p.min, p.max)}/>'
    if isinstance(p, Group):
        if p.named:
            return f'<xs:group ref="t:{p.named}"{_occ(p.min, p.max)}/>'
        return f"<xs:{p.kind}{_occ(p.min, p.max)}>" + "".join(render_particle(i) for i in p.items) + f"</xs:{p.kind}>"
    raise HarnessError(repr(p))


def render_complex(c: Complex, name_attr: str = "") -> str:
    attrs = "".join(render_attr(a) for a in c.attrs)
    if c.attr_group:
        attrs += f'<xs:attributeGroup ref="t:{c.attr_group}"/>'
    if c.any_attr:
        attrs += '<xs:anyAttribute namespace="##other" processContents="lax"/>'
    extra = ' mixed="true"' if c.mixed else ""
    if c.abstract:
        extra += ' abstract="true"'
    if c.simple_content is not None:
        return (f"<xs:complexType{name_attr}{extra}><xs:simpleContent><xs:extension base=\"{c.simple_content.ref()}\">{attrs}"
                "</xs:extension></xs:simpleContent></xs:complexType>")
    body = render_particle(c.particle) if c.particle else ""
    if c.mixed_via_content:
        extra0 = extra.replace(' mixed="true"', "")
        return (f"<xs:complexType{name_attr}{extra0}><xs:complexContent mixed=\"true\"><xs:restriction base=\"xs:anyType\">{body}{attrs}"
                "</xs:restriction></xs:complexContent></xs:complexType>")
    if c.restricts is not None:
        return (f"<xs:complexType{name_attr}{extra}><xs:complexContent><xs:restriction base=\"t:{c.restricts.name}\">{body}{attrs}"
                "</xs:restriction></xs:complexContent></xs:complexType>")
    if c.base is not None:
        return (f"<xs:complexType{name_attr}{extra}><xs:complexContent><xs:extension base=\"t:{c.base.name}\">{body}{attrs}"
                "</xs:extension></xs:complexContent></xs:complexType>")
    return f"<xs:complexType{name_attr}{extra}>{body}{attrs}</xs:complexType>"


def render_global_elem(e: Elem, extra: str = "") -> str:
    s = f'<xs:element name="{e.name}"{extra}'
    if e.nillable:
        s += ' nillable="true"'
    t = e.type
    if isinstance(t, SimpleT):
        if t.kind == "builtin" or t.name:
            return s + f' type="{t.ref()}"/>'
        return s + ">" + render_simple_def(t) + "</xs:element>"
    if t.name:
        return s + f' type="t:{t.name}"/>'
    return s + ">" + render_complex(t) + "</xs:element>"


def render(s: Schema, which: str = "main") -> dict[str, str]:
    """-> {filename: text}."""
    files = {}
    head = '<?xml version="1.0" encoding="UTF-8"?>\n<xs:schema xmlns:xs="http://www.w3.org/2001/XMLSchema"'
    if s.tns:
        head += f' targetNamespace="{s.tns}" xmlns:t="{s.tns}"'
    else:
        head += ""
    if s.elem_form != "unqualified":
        head += f' elementFormDefault="{s.elem_form}"'
    if s.attr_form != "unqualified":
        head += f' attributeFormDefault="{s.attr_form}"'
    head += ' xmlns:o="urn:other">'
    body = []
    moved = []
    if s.include is not None:
        body.append('<xs:include schemaLocation="part.xsd"/>')
    if s.import_ is not None:
        body.append('<xs:import namespace="urn:other" schemaLocation="other.xsd"/>')
    body.append(render_global_elem(s.root))
    for g in s.globals:
        extra = (f' substitutionGroup="{g[1]}"' if ":" in g[1] else f' substitutionGroup="t:{g[1]}"') if isinstance(g, tuple) else ""
        ge = g[0] if isinstance(g, tuple) else g
        body.append(render_global_elem(ge, extra))
    for t in s.types:
        if isinstance(t, tuple) and t[0] == "group":
            body.append(f'<xs:group name="{t[1]}">{render_particle(t[2])}</xs:group>')
        elif isinstance(t, tuple) and t[0] == "attrgroup":
            body.append(f'<xs:attributeGroup name="{t[1]}">{"".join(render_attr(a) for a in t[2])}</xs:attributeGroup>')
        elif isinstance(t, Complex):
            (moved if (s.include is not None and t.name in getattr(s.include, "moved", ())) else body).append(render_complex(t, f' name="{t.name}"'))
        else:
            (moved if (s.include is not None and t.name in getattr(s.include, "moved", ())) else body).append(render_simple_def(t, f' name="{t.name}"'))
    text = head + "".join(body) + "</xs:schema>"
    def strip_t(x: str) -> str:
        if s.tns:
            return x
        return (x.replace('type="t:', 'type="').replace('ref="t:', 'ref="').replace('base="t:', 'base="')
                .replace('substitutionGroup="t:', 'substitutionGroup="').replace('itemType="t:', 'itemType="'))

    files["main.xsd"] = strip_t(text)
    if s.include is not None:
        files["part.xsd"] = strip_t(head.replace(' xmlns:o="urn:other">', ">") + "".join(moved) + "</xs:schema>")
    if s.import_ is not None:
        files["other.xsd"] = ('<?xml version="1.0" encoding="UTF-8"?>\n<xs:schema xmlns:xs="http://www.w3.org/2001/XMLSchema" targetNamespace="urn:other" '
                              'xmlns:o="urn:other" elementFormDefault="qualified"><xs:element name="ext" type="xs:string"/>'
                              '<xs:element name="ohead" type="xs:string"/>'
                              '<xs:element name="box"><xs:complexType><xs:sequence><xs:element name="note" type="xs:string" form="unqualified"/>'
                              '<xs:element name="qn" type="xs:int" minOccurs="0"/></xs:sequence></xs:complexType></xs:element>'
                              '<xs:complexType name="Item"><xs:sequence><xs:element name="code" type="xs:int"/></xs:sequence></xs:complexType>'
                              '<xs:attribute name="flag" type="xs:boolean"/></xs:schema>')
    return files


# ---------------------------------------------------------------------------------------
# the base schema and the feature deviations


def base_schema() -> Schema:
    root_t = Complex(particle=Group("sequence", [Elem("a", SimpleT(base="string")), Elem("b", SimpleT(base="int"), min=0)]),
                     attrs=[Attr("id", SimpleT(base="string"))])
    return Schema(root=Elem("root", root_t))


FEATURES = [
    "none", "no-namespace", "unqualified-elements", "qualified-attributes", "named-type", "occurs-0-unbounded", "occurs-1-unbounded", "occurs-2-3",
    "choice", "choice-repeating", "choice-of-sequences", "all", "group-ref", "element-ref", "substitution-group", "enum-string", "enum-int", "list-type",
    "union-type", "named-simple-type", "attr-required", "attr-default", "attr-fixed", "attr-group", "any-other", "any-attribute", "extension-xsi-type",
    "nillable", "mixed", "recursion", "include", "import", "simple-content", "typed-values", "nested-anonymous", "sequence-repeating", "element-default",
    "qname-value", "binary-values", "abstract-base", "attr-form-override", "element-form-override", "substitution-head-imported", "simple-content-attr-value",
    "restriction", "nested-same-name", "same-type-name-imported", "optional-run", "foreign-child-local-grandchild", "foreign-child-local-grandchild-no-namespace",
    "choice-single-of-sequence", "mixed-complex-content-restriction", "substitution-member-own-named-type", "child-named-like-root",
]


def apply_feature(s: Schema, feat: str) -> None:
    rt: Complex = s.root.type
    seq: Group = rt.particle
    s.features.append(feat)
    if feat == "none":
        return
    if feat == "no-namespace":
        s.tns = None
    elif feat == "unqualified-elements":
        s.elem_form = "unqualified"
    elif feat == "qualified-attributes":
        s.attr_form = "qualified"
    elif feat == "named-type":
        rt.name = "RootType"
        s.types.append(rt)
    elif feat == "occurs-0-unbounded":
        seq.items[1].max = None
    elif feat == "occurs-1-unbounded":
        seq.items[1].min, seq.items[1].max = 1, None
    elif feat == "occurs-2-3":
        seq.items[1].min, seq.items[1].max = 2, 3
    elif feat == "choice":
        seq.items.append(Group("choice", [Elem("x", SimpleT(base="string")), Elem("y", SimpleT(base="int"))]))
    elif feat == "choice-repeating":
        seq.items.append(Group("choice", [Elem("x", SimpleT(base="string")), Elem("y", SimpleT(base="int"))], min=0, max=None))
        s.ordered = False   # order is only demanded with compound fields enabled (decided by the check)
    elif feat == "choice-of-sequences":
        seq.items.append(Group("choice", [Group("sequence", [Elem("p", SimpleT(base="string")), Elem("q", SimpleT(base="int"))]), Elem("r", SimpleT(base="boolean"))], min=0, max=2))
        s.ordered = False
    elif feat == "all":
        rt.particle = Group("all", [Elem("a", SimpleT(base="string")), Elem("b", SimpleT(base="int"), min=0), Elem("c", SimpleT(base="boolean"), min=0)])
        s.ordered = False
    elif feat == "group-ref":
        g = Group("sequence", [Elem("g1", SimpleT(base="string")), Elem("g2", SimpleT(base="int"), min=0)])
        s.types.append(("group", "Grp", g))
        seq.items.append(Group("sequence", g.items, named="Grp"))
    elif feat == "element-ref":
        s.globals.append(Elem("glob", SimpleT(base="string")))
        seq.items.append(Elem("glob", SimpleT(base="string"), min=0, max=2, ref=True))
    elif feat == "substitution-group":
        s.globals.append(Elem("head", SimpleT(base="string")))
        s.globals.append((Elem("member", SimpleT(base="string")), "head"))
        seq.items.append(Elem("head", SimpleT(base="string"), min=0, max=2, ref=True, subst=["member"]))
        s.ordered = False
    elif feat == "enum-string":
        seq.items.append(Elem("e", SimpleT(kind="enum", base="string", enum=["red", "green tea", "1"])))
    elif feat == "enum-int":
        seq.items.append(Elem("e", SimpleT(kind="enum", base="int", enum=["1", "-2"])))
    elif feat == "list-type":
        seq.items.append(Elem("l", SimpleT(kind="list", base="int")))
    elif feat == "union-type":
        seq.items.append(Elem("u", SimpleT(kind="union", members=["int", "boolean", "string"])))
    elif feat == "named-simple-type":
        st = SimpleT(kind="enum", base="string", enum=["on", "off"], name="Switch")
        s.types.append(st)
        seq.items.append(Elem("sw", st, min=0))
        rt.attrs.append(Attr("mode", st))
    elif feat == "attr-required":
        rt.attrs.append(Attr("req", SimpleT(base="int"), use="required"))
    elif feat == "attr-default":
        rt.attrs.append(Attr("dflt", SimpleT(base="int"), default="7"))
    elif feat == "attr-fixed":
        rt.attrs.append(Attr("fx", SimpleT(base="string"), fixed="const"))
    elif feat == "attr-group":
        s.types.append(("attrgroup", "AG", [Attr("ga", SimpleT(base="string")), Attr("gb", SimpleT(base="boolean"))]))
        rt.attr_group = "AG"
    elif feat == "any-other":
        seq.items.append(AnyP("##other", "lax", 0, 2))
    elif feat == "any-attribute":
        rt.any_attr = True
    elif feat in ("extension-xsi-type", "abstract-base"):
        base = Complex(particle=Group("sequence", [Elem("bv", SimpleT(base="string"))]), attrs=[Attr("ba", SimpleT(base="int"))], name="BaseT",
                       abstract=feat == "abstract-base")
        der = Complex(particle=Group("sequence", [Elem("dv", SimpleT(base="int"), min=0)]), attrs=[Attr("da", SimpleT(base="string"))], name="DerivedT", base=base)
        s.types += [base, der]
        s.derived["BaseT"] = [der]
        seq.items.append(Elem("poly", base, min=0, max=2))
    elif feat == "nillable":
        seq.items.append(Elem("n", SimpleT(base="int"), nillable=True))
        seq.items.append(Elem("ns", SimpleT(base="string"), nillable=True, min=0))
    elif feat == "mixed":
        rt.mixed = True
        s.ordered = False
    elif feat == "mixed-complex-content-restriction":
        rt.mixed = True
        rt.mixed_via_content = True
        s.ordered = False
    elif feat == "choice-single-of-sequence":
        # one choice, taken once, one of whose branches is a sequence of two elements
        seq.items.append(Group("choice", [Group("sequence", [Elem("p", SimpleT(base="string")), Elem("q", SimpleT(base="int"))]), Elem("r", SimpleT(base="boolean"))]))
        s.ordered = False
    elif feat == "substitution-member-own-named-type":
        # the member element has a named complex type of its own name (element and type are merged into one class)
        ht = Complex(particle=Group("sequence", [Elem("hv", SimpleT(base="string"), min=0)]), name="headT")
        mt = Complex(particle=Group("sequence", [Elem("mv", SimpleT(base="int"), min=0)]), name="member2", base=ht)
        s.types += [ht, mt]
        s.globals.append(Elem("head2", ht))
        s.globals.append((Elem("member2", mt), "head2"))
        seq.items.append(Elem("head2", ht, min=0, max=2, ref=True, subst=["member2"]))
        s.ordered = False
    elif feat == "recursion":
        rt.name = "RootType"
        s.types.append(rt)
        seq.items.append(Elem("child", rt, min=0, max=2))
    elif feat == "include":
        st = SimpleT(kind="enum", base="string", enum=["p", "q"], name="PartEnum")
        ct = Complex(particle=Group("sequence", [Elem("pv", st)]), name="PartType")
        s.types += [st, ct]
        s.include = Schema()
        s.include.moved = {"PartEnum", "PartType"}
        seq.items.append(Elem("part", ct, min=0))
    elif feat == "import":
        s.import_ = Schema()
        seq.items.append(("import-ref", "o:ext"))
        rt.attrs.append(("import-attr", "o:flag"))
    elif feat == "simple-content":
        sc = Complex(simple_content=SimpleT(base="decimal"), attrs=[Attr("unit", SimpleT(base="string"), use="required")])
        seq.items.append(Elem("amount", sc, min=0, max=2))
    elif feat == "typed-values":
        for i, t in enumerate(["boolean", "decimal", "float", "date", "dateTime", "time", "duration", "gYear", "anyURI", "token", "NMTOKENS"]):
            seq.items.append(Elem(f"v{i}", SimpleT(base=t), min=0))
        rt.attrs.append(Attr("ad", SimpleT(base="date")))
        rt.attrs.append(Attr("ab", SimpleT(base="boolean")))
    elif feat == "nested-anonymous":
        inner = Complex(particle=Group("sequence", [Elem("in1", SimpleT(base="string")), Elem("in2", Complex(particle=Group("sequence", [Elem("deep", SimpleT(base="int"), max=2)])), min=0)]),
                        attrs=[Attr("ia", SimpleT(base="int"))])
        seq.items.append(Elem("nest", inner, min=0, max=2))
    elif feat == "sequence-repeating":
        seq.items.append(Group("sequence", [Elem("s1", SimpleT(base="string")), Elem("s2", SimpleT(base="int"))], min=0, max=None))
        s.ordered = False
    elif feat == "element-default":
        seq.items.append(Elem("dv", SimpleT(base="int"), min=0, default="42"))
    elif feat == "qname-value":
        seq.items.append(Elem("qn", SimpleT(base="QName"), min=0))
        rt.attrs.append(Attr("aq", SimpleT(base="QName")))
    elif feat == "attr-form-override":
        # the schema default says qualified, one local attribute says otherwise (and the other way round for the second)
        s.attr_form = "qualified"
        rt.attrs.append(Attr("fu", SimpleT(base="string"), form="unqualified"))
        rt.attrs.append(Attr("fq", SimpleT(base="int")))
    elif feat == "element-form-override":
        seq.items.append(Elem("lu", SimpleT(base="string"), min=0, form="unqualified"))
        seq.items.append(Elem("lq", SimpleT(base="int"), min=0, form="qualified"))
    elif feat == "substitution-head-imported":
        # the head of the substitution group lives in the imported namespace, the member in this one
        s.import_ = s.import_ or Schema()
        s.globals.append((Elem("omember", SimpleT(base="string")), "o:ohead"))
        seq.items.append(("import-subst", "o:ohead", "omember"))
        s.ordered = False
    elif feat == "simple-content-attr-value":
        sc = Complex(simple_content=SimpleT(base="string"), attrs=[Attr("value", SimpleT(base="string")), Attr("lang", SimpleT(base="string"))])
        seq.items.append(Elem("label", sc, min=0, max=2))
    elif feat == "restriction":
        # a type derived by restriction: it re-declares the particles it keeps (one optional particle of the base is left out)
        base = Complex(particle=Group("sequence", [Elem("rid", SimpleT(base="int")), Elem("rname", SimpleT(base="string"), min=0), Elem("rnote", SimpleT(base="string"), min=0)]), name="WideT")
        slim = Complex(particle=Group("sequence", [Elem("rid", SimpleT(base="int")), Elem("rname", SimpleT(base="string"), min=0)]), name="SlimT", restricts=base)
        s.types += [base, slim]
        seq.items.append(Elem("slim", slim, min=0, max=2))
        seq.items.append(Elem("wide", base, min=0))
    elif feat == "nested-same-name":
        # an anonymous type that contains an element of its own name with another anonymous type
        inner = Complex(particle=Group("sequence", [Elem("title", SimpleT(base="string"))]), attrs=[Attr("lvl", SimpleT(base="int"))])
        outer = Complex(particle=Group("sequence", [Elem("head", SimpleT(base="string"), min=0), Elem("section", inner, min=0, max=2)]))
        seq.items.append(Elem("section", outer, min=0, max=2))
    elif feat == "child-named-like-root":
        # a child whose name differs from the root's only in case, with a structure of its own: two classes want the name Root,
        # one of them is renamed -- its element name must stay what it was
        inner = Complex(particle=Group("sequence", [Elem("cv", SimpleT(base="string"), min=0)]), attrs=[Attr("cx", SimpleT(base="int"))])
        seq.items.append(Elem("Root", inner, min=0, max=2))
    elif feat == "same-type-name-imported":
        # one type name in this namespace and in the imported one, both in use
        s.import_ = s.import_ or Schema()
        own = Complex(particle=Group("sequence", [Elem("label", SimpleT(base="string"))]), name="Item")
        s.types.append(own)
        seq.items.append(Elem("mine", own, min=0))
        seq.items.append(("import-typed", "theirs", "o:Item"))
    elif feat == "optional-run":
        # two optional elements next to each other in front of a required one
        # ... and an optional tail behind it that documents have unless they say otherwise: a, b?, (o1, o2)?, z, (t1, t2)?
        seq.items.append(Group("sequence", [Elem("o1", SimpleT(base="string")), Elem("o2", SimpleT(base="int"))], min=0))
        seq.items.append(Elem("z", SimpleT(base="string")))
        seq.items.append(Group("sequence", [Elem("t1", SimpleT(base="string")), Elem("t2", SimpleT(base="int"))], min=0, present_first=True))
    elif feat == "foreign-child-local-grandchild-no-namespace":
        # the same under a root that is in no namespace itself (three levels: unqualified, qualified, unqualified)
        s.tns = None
        s.import_ = s.import_ or Schema()
        seq.items.append(("import-box", "o:box"))
    elif feat == "foreign-child-local-grandchild":
        # a child from the imported namespace whose own child is an unqualified local element
        s.import_ = s.import_ or Schema()
        seq.items.append(("import-box", "o:box"))
    elif feat == "binary-values":
        seq.items.append(Elem("hx", SimpleT(base="hexBinary"), min=0))
        seq.items.append(Elem("b64", SimpleT(base="base64Binary"), min=0))
    else:
        raise HarnessError(feat)


def gen_schema(ch: Chooser, max_features: int) -> Schema:
    s = base_schema()
    used = []
    for i in range(max_features):
        f = ch.pick(FEATURES, f"feature{i}")
        if f == "none":
            break
        if f in used:
            raise Prune("same feature twice")
        if i and FEATURES.index(f) < FEATURES.index(used[-1]):
            raise Prune("features are applied in canonical order (each unordered pair once)")
        conflicts = [{"named-type", "recursion"}, {"all", "choice"}, {"all", "mixed"}, {"all", "mixed-complex-content-restriction"}, {"mixed", "mixed-complex-content-restriction"}, {"choice-of-sequences", "choice-single-of-sequence"}, {"substitution-group", "substitution-member-own-named-type"}, {"extension-xsi-type", "abstract-base"}, {"enum-string", "enum-int"}, {"element-default", "extension-xsi-type"}]
        if any(f in c and u in c for c in conflicts for u in used):
            raise Prune("conflicting features")
        if "all" in used or (f == "all" and used and any(u not in ("no-namespace", "unqualified-elements", "qualified-attributes", "named-type", "attr-required", "attr-default", "attr-fixed", "attr-group", "any-attribute") for u in used)):
            raise Prune("xs:all replaces the base sequence; other particle features do not combine with it")
        used.append(f)
        apply_feature(s, f)
    return s


# ---------------------------------------------------------------------------------------
# instance enumeration


def occ_counts(mn: int, mx: int | None) -> list[int]:
    out = {mn, mn + 1, 2 if mx is None else min(mx, 2)}
    return sorted(c for c in out if c >= mn and (mx is None or c <= mx))


class InstanceGen:
    """Enumerates instance documents of a schema through a chooser (each occurrence count, choice branch,
    optional attribute and value is a choice point; the default is the minimal document)."""

    def __init__(self, s: Schema, ch: Chooser, free: bool = False):
        self.s = s
        self.ch = ch
        self.free = free
        self.n = 0
        self.depth = 0

    def q(self, name: str, top: bool = False) -> str:
        if self.s.tns and (top or self.s.elem_form == "qualified"):
            return f"t:{name}"
        return name

    def pick(self, seq, label):
        self.n += 1
        return seq[self.ch.choose(len(seq), f"{label}#{self.n}", free=self.free)]

    def document(self) -> I.El:
        root = self.element(self.s.root, top=True)[0]
        root.nsdecls.setdefault("xsi", I.XSI)
        if self.s.tns:
            root.nsdecls["t"] = self.s.tns
        root.nsdecls["xs"] = XS
        root.nsdecls["o"] = "urn:other"
        root.nsdecls["w"] = "urn:wild"
        return root

    def attr_name(self, a: Attr) -> str:
        form = "qualified" if a.qualified else (a.form or self.s.attr_form)
        if self.s.tns and form == "qualified":
            return f"t:{a.name}"
        return a.name

    def attrs_of(self, c: Complex) -> list:
        out = []
        chain = []
        x = c
        while x is not None:
            chain.insert(0, x)
            x = x.base
        for x in chain:
            al = list(x.attrs)
            if x.attr_group:
                grp = next(t for t in self.s.types if isinstance(t, tuple) and t[0] == "attrgroup" and t[1] == x.attr_group)
                al += grp[2]
            for a in al:
                if isinstance(a, tuple):
                    if self.pick([False, True], "import-attr"):
                        out.append((a[1], "true"))
                    continue
                present = a.use == "required" or self.pick([False, True], f"attr:{a.name}")
                if not present:
                    continue
                if a.fixed is not None:
                    v = a.fixed
                else:
                    v = self.pick(a.type.values(), f"attrval:{a.name}")
                out.append((self.attr_name(a), v))
            if x.any_attr and self.pick([False, True], "anyattr"):
                out.append(("w:extra", "v"))
        return out

    def element(self, e: Elem, top: bool = False) -> list[I.El]:
        """One occurrence of the element declaration."""
        names = [e.name] + list(e.subst)
        name = names[0] if len(names) == 1 else self.pick(names, f"subst:{e.name}")
        if e.form and not (top or e.ref):
            el = I.El(f"t:{name}" if (self.s.tns and e.form == "qualified") else name)
        else:
            el = I.El(self.q(name, top or e.ref))
        t = e.type
        if e.nillable and self.pick([False, True], f"nil:{e.name}"):
            el.attrs.append(("xsi:nil", "true"))
            return [el]
        if isinstance(t, SimpleT):
            v = self.pick(t.values(), f"val:{e.name}")
            if v != "":
                el.kids.append(v)
            return [el]
        c: Complex = t
        derived = self.s.derived.get(c.name or "", [])
        if c.abstract or (derived and self.pick([False, True], f"xsi:{e.name}")):
            c = derived[0]
            el.attrs.append(("xsi:type", f"t:{c.name}" if self.s.tns else c.name))
        el.attrs += self.attrs_of(c)
        if c.simple_content is not None:
            el.kids.append(self.pick(c.simple_content.values(), f"sc:{e.name}"))
            return [el]
        self.depth += 1
        try:
            chain = []
            x = c
            while x is not None:
                chain.insert(0, x)
                x = x.base
            for x in chain:
                if x.particle is not None:
                    el.kids += self.particle(x.particle)
        finally:
            self.depth -= 1
        if c.mixed and el.kids and self.pick([False, True], "mixedtext"):
            el.kids.insert(0, "lead ")
            el.kids.append(" trail")
        return [el]

    def particle(self, p) -> list:
        if isinstance(p, tuple) and p[0] == "import-ref":
            return [I.El(p[1], kids=["ext"])] if self.pick([False, True], "import-el") else []
        if isinstance(p, tuple) and p[0] == "import-box":
            if not self.pick([False, True], "import-box"):
                return []
            kids = [I.El("note", kids=["n"])]
            if self.pick([False, True], "import-box-qn"):
                kids.append(I.El("o:qn", kids=["4"]))
            return [I.El(p[1], kids=kids)]
        if isinstance(p, tuple) and p[0] == "import-typed":
            if not self.pick([False, True], "import-typed"):
                return []
            # the local element is in this schema's namespace (when qualified), its content in the imported one
            return [I.El(self.q(p[1]), kids=[I.El("o:code", kids=[self.pick(["5", "-1"], "val:code")])])]
        if isinstance(p, tuple) and p[0] == "import-subst":
            n = self.pick([0, 1, 2], "occ:import-subst")
            out = []
            for _ in range(n):
                which = self.pick(["head", "member"], "subst:ohead")
                out.append(I.El(p[1] if which == "head" else (f"t:{p[2]}" if self.s.tns else p[2]), kids=[self.pick(["h", "m 2"], "val:ohead")]))
            return out
        if isinstance(p, Elem):
            if isinstance(p.type, Complex) and p.type.name == (self.s.root.type.name or "?") and self.depth > 2:
                counts = [0]
            else:
                counts = occ_counts(p.min, p.max)
            n = counts[0] if len(counts) == 1 else self.pick(counts, f"occ:{p.name}")
            out = []
            for _ in range(n):
                out += self.element(p)
            return out
        if isinstance(p, AnyP):
            n = self.pick(occ_counts(p.min, p.max), "occ:any")
            return [I.El("w:wild", attrs=[("k", "v")], kids=["w"]) for _ in range(n)]
        g: Group = p
        counts = occ_counts(g.min, g.max)
        if g.present_first:
            counts = sorted(counts, key=lambda c: (c == 0, c))
        n = self.pick(counts, f"occ:{g.kind}") if (g.min, g.max) != (1, 1) else 1
        out = []
        for _ in range(n):
            if g.kind == "choice":
                out += self.particle(self.pick(g.items, "branch"))
            elif g.kind == "all":
                items = [x for x in g.items]
                order = self.pick([0, 1], "all-order")
                parts = [self.particle(i) for i in items]
                if order:
                    parts.reverse()
                for x in parts:
                    out += x
            else:
                for i in g.items:
                    out += self.particle(i)
        return out


_XSD_CACHE: dict = {}
_XSD_ERRORS: dict = {}


def validator(files: dict[str, str], workdir: str):
    key = tuple(sorted(files.items()))
    if key not in _XSD_CACHE:
        import os
        for fn, text in files.items():
            with open(os.path.join(workdir, fn), "w", encoding="utf-8") as fh:
                fh.write(text)
        try:
            _XSD_CACHE[key] = etree.XMLSchema(etree.parse(os.path.join(workdir, "main.xsd")))
        except etree.XMLSchemaParseError as e:
            _XSD_CACHE[key] = None
            _XSD_ERRORS[key] = str(e)
        if len(_XSD_CACHE) > 64:
            _XSD_CACHE.pop(next(iter(_XSD_CACHE)))
    if _XSD_CACHE[key] is None:
        raise InvalidSchema(_XSD_ERRORS.get(key, "invalid schema"))
    return _XSD_CACHE[key]


class InvalidSchema(Exception):
    """libxml2 refuses the combination of features (e.g. a non-deterministic content model)."""
