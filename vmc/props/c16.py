"""C16 -- generated classes are faithful to the DTD they came from.

G-dtd DTDs (base + <= D features) x generator option sets x all instance documents up to the unrolling bound.
Judges: libxml2 (lxml.etree.DTD) for the generated instances and for re-validation of the output,
expat + libxml2 for infosets.
"""
from __future__ import annotations

import collections
import contextlib
import logging
import re
import time
import warnings

from .. import codegen as CG
from .. import gdtd as GD
from .. import infoset as I
from ..engine import (Chooser, HarnessError, Prune, call, confirm_violations, explore, explore_task, finish, h, harness, parallel)

from xsdata.formats.dataclass.context import XmlContext
from xsdata.formats.dataclass.parsers import XmlParser
from xsdata.formats.dataclass.serializers import XmlSerializer
from xsdata.formats.dataclass.serializers.config import SerializerConfig

PROP = "C16"

OPTION_SETS = [
    ("default", {}),
    ("compound", {"compound_fields.enabled": True}),
    ("unnest", {"unnest_classes": True}),
]


def enumerate_dtds(max_features: int) -> list[list[int]]:
    out = []

    def run(ch):
        try:
            GD.gen_dtd(ch, max_features)
            return True
        except Prune:
            return False

    explore(run, max_features, lambda ch, ok: out.append(ch.choices) if ok else None)
    return out


def dtd_from_vector(vec, max_features) -> GD.Dtd:
    return GD.gen_dtd(Chooser(vec), max_features)


# generated code cache per worker: (dtd text, option name) -> dict(gen=Generated, root=class, problem)
_GEN: "collections.OrderedDict" = collections.OrderedDict()


def find_root(g, d: GD.Dtd):
    """The generator names classes after elements: the class of the generated package whose Meta.name (or class name) is the
    root element's local name."""
    cands = []
    for c in g.classes():
        meta = getattr(c, "Meta", None)
        name = getattr(meta, "name", None) or c.__name__
        if name == d.root:
            cands.append(c)
    if len(cands) == 1:
        return cands[0]
    ns = d.namespace
    for c in cands:
        meta = getattr(c, "Meta", None)
        if (getattr(meta, "namespace", None) or getattr(meta, "target_namespace", None)) == ns:
            return c
    return cands[0] if cands else None


def get_generated(text: str, oname: str, opts: dict, d: GD.Dtd):
    key = (text, oname)
    ent = _GEN.get(key)
    if ent is not None:
        _GEN.move_to_end(key)
        return ent
    g = CG.generate({"main.dtd": text}, ["main.dtd"], options=dict(opts))
    ent = {"gen": g, "root": None, "problem": None}
    if g.error is not None:
        ent["problem"] = ("generation-fails", f"{type(g.error).__name__}: {g.error}")
    elif not g.files:
        ent["problem"] = ("nothing-generated", g.log[-500:])
    else:
        try:
            g.import_all()
            root = find_root(g, d)
            if root is None:
                ent["problem"] = ("generated-package-unusable", f"no class for the root element in {sorted(g.files)}")
            else:
                XmlContext().build_recursive(root)
                ent["root"] = root
        except Exception as e:  # noqa
            ent["problem"] = ("generated-package-unusable", f"{type(e).__name__}: {e}; files {sorted(g.files)}")
    _GEN[key] = ent
    while len(_GEN) > 6:
        _k, old = _GEN.popitem(last=False)
        old["gen"].cleanup()
    return ent


# ---------------------------------------------------------------------------------------
# the oracle: expected infoset = input + attribute defaults / #FIXED values of the DTD


def local(q: str) -> str:
    return q.split("}")[-1]


EXTRA_NS = {"x": "urn:x", "y": "urn:y", "z": "urn:z"}


def attr_key(a: GD.AttDef) -> str:
    p, _, l = a.name.rpartition(":")
    if p == "xml":
        return f"{{{I.XMLNS}}}{l}"
    if p in EXTRA_NS:
        return f"{{{EXTRA_NS[p]}}}{l}"
    if p:
        raise HarnessError(f"attribute prefix {p!r} is not part of G-dtd")
    return l


def norm_value(a: GD.AttDef | None, v: str) -> str:
    if a is not None and a.type in ("NMTOKENS", "IDREFS"):
        return " ".join(v.split())
    return v


def normalise(tree, d: GD.Dtd, ordered: bool, defaults: bool):
    """canonical tree -> comparable tree: list-typed attribute values whitespace-normalised; with defaults=True the DTD's attribute
    defaults and #FIXED values added on every element that declares them; children sorted per parent unless ordered."""
    q, attrs, kids = tree
    decl = d.elems.get(local(q))
    by_key = {attr_key(a): a for a in decl.attrs} if decl is not None else {}
    a = {k: norm_value(by_key.get(k), v) for k, v in attrs}
    if defaults:
        for k, ad in by_key.items():
            if ad.mode in ("FIXED", "DEFAULT"):
                a.setdefault(k, norm_value(ad, ad.value))
    out = [k if isinstance(k, str) else normalise(k, d, ordered, defaults) for k in kids]
    if not ordered:
        out = sorted(out, key=repr)
    return (q, tuple(sorted(a.items())), tuple(out))


class _ListHandler(logging.Handler):
    def __init__(self, sink: list):
        super().__init__()
        self.sink = sink

    def emit(self, record):
        self.sink.append(record.getMessage())


@contextlib.contextmanager
def captured_log():
    """what the tree under test logs while parsing (e.g. 'Unassigned parsed object q2') is kept for the violation detail, not printed"""
    from xsdata.logger import logger
    sink: list = []
    old = (logger.handlers, logger.propagate)
    logger.handlers, logger.propagate = [_ListHandler(sink)], False
    try:
        yield sink
    finally:
        logger.handlers, logger.propagate = old


def ns_map_of(d: GD.Dtd):
    """The prefixes the DTD spells out: DTD validity is about literal names, so the output is asked for with the same prefix."""
    m = dict(d.extra_ns)
    if d.ns is not None:
        m.update({None: GD.NS_DEFAULT} if d.ns[0] == "default" else {GD.PFX: GD.NS_PREFIX})
    return m or None


@harness("c16.faithful")
def h_faithful(ch: Chooser, vec: list, maxfeat: int, oname: str, free_instances: bool):
    d = dtd_from_vector(vec, maxfeat)
    text = GD.render(d)
    opts = dict(OPTION_SETS)[oname]
    feats = "+".join(d.features)
    case = {"dtd": text, "features": d.features, "options": oname}
    try:
        GD.validator(text)
    except GD.InvalidDtd as e:
        if len([f for f in d.features if f != "none"]) <= 1:
            raise HarnessError(f"single-feature DTD rejected by libxml2: {e}\n{text}")
        return {"skip": True, "reason": "dtd_rejected"}
    ent = get_generated(text, oname, opts, d)
    if ent["problem"]:
        kind, detail = ent["problem"]
        kf = known_problem(kind, str(detail), d, oname)
        return dict(ok=False, case=case, bucket=kf or f"{kind}/{feats}/{oname}", detail=str(detail)[:800] + "\n" + text)
    root_cls = ent["root"]
    # the instance
    doc_el = GD.InstanceGen(d, ch, free=free_instances).document()
    doc = doc_el.write()
    case["document"] = doc
    try:
        valid, why = GD.dtd_valid(text, doc)
    except Exception as e:  # noqa
        raise HarnessError(f"instance generator wrote a broken document: {e}\n{doc}")
    if not valid:
        if ch.cost == 0 and len([f for f in d.features if f != "none"]) <= 1:
            raise HarnessError(f"the minimal document of a single-feature DTD is rejected by libxml2: {why}\n{text}\n{doc}")
        return {"skip": True, "reason": "generator_rejected"}
    ctx = XmlContext()
    with warnings.catch_warnings(), captured_log() as logged:
        warnings.simplefilter("error")
        p = call(XmlParser(context=ctx, config=CG.strict_parser_config()).from_string, doc, root_cls)
    if p[0] == "exc":
        kf = known_reject(p[1], d, doc_el, oname)
        return dict(ok=False, case=case, bucket=kf or f"valid-document-rejected/{feats}/{oname}/{type(p[1]).__name__}", detail=f"{p[1]!r}\n{text}\n{doc}")
    r = call(XmlSerializer(context=ctx, config=SerializerConfig(xml_declaration=False)).render, p[1], ns_map_of(d))
    if r[0] == "exc":
        return dict(ok=False, case=case, bucket=f"render-fails/{feats}/{oname}", detail=f"{r[1]!r}\nparsed {p[1]!r}")
    out = r[1]
    case["output"] = out
    compound = bool(opts.get("compound_fields.enabled"))
    oc = GD.order_class(d)
    ordered = oc == "single" or (oc == "choice" and compound)
    try:
        exp = normalise(I.canonical(doc), d, ordered, True)
    except I.NotWellFormed as e:
        raise HarnessError(f"instance generator wrote a broken document: {e}\n{doc}")
    try:
        act = normalise(I.canonical(out), d, ordered, False)
    except I.NotWellFormed as e:
        return dict(ok=False, case=case, bucket=f"output-not-well-formed/{feats}/{oname}", detail=f"{e}\n{out}")
    if exp != act:
        kf = known_diff(exp, act, d, doc_el, oname, ordered)
        return dict(ok=False, case=case, bucket=kf or f"infoset-differs/{feats}/{oname}/" + delta(exp, act),
                    detail=f"{text}input  {doc}\noutput {out}\nparsed {p[1]!r}" + (f"\nparser log: {logged}" if logged else ""))
    if ordered:
        try:
            valid, why = GD.dtd_valid(text, out)
        except Exception as e:  # noqa
            return dict(ok=False, case=case, bucket=f"output-not-well-formed/{feats}/{oname}", detail=f"{e}\n{out}")
        if not valid:
            return dict(ok=False, case=case, bucket=f"output-not-dtd-valid/{feats}/{oname}", detail=f"{why}\n{text}input  {doc}\noutput {out}")
    return dict(ok=True, case=case, obs=oname, nontrivial=h((text, doc)), counters={"ordered" if ordered else "unordered": 1})


# ---------------------------------------------------------------------------------------
# analysed defects of the tree under test, recognised by predicates over the failing case and the wrong outcome


def particles(c) -> list:
    """(Name, [enclosing groups, outermost first]) for every name in a content model"""
    out: list = []

    def walk(p, chain):
        if isinstance(p, GD.Name):
            out.append((p, chain))
        else:
            for i in p.items:
                walk(i, chain + [p])

    if isinstance(c, GD.Grp):
        walk(c, [])
    return out


def _count_kids(doc_el: I.El, parent: str, kid: str) -> int:
    """the largest number of <kid> children under one <parent> element of the document"""
    best = 0
    for el in doc_el.iter():
        if el.local == parent:
            best = max(best, sum(1 for k in el.kids if isinstance(k, I.El) and k.local == kid))
    return best


def known_problem(kind: str, detail: str, d: GD.Dtd, oname: str) -> str | None:
    # <!ELEMENT t (#PCDATA)*> becomes a text field typed list[str], which the binding context refuses
    if kind == "generated-package-unusable" and "Xml Text does not support typing `list[str]`" in detail and any(
            isinstance(e.content, GD.Mixed) and not e.content.names for e in d.elems.values()):
        return "KF/pcdata-star-content-generates-list-typed-text-field"
    return None


def known_reject(exc: BaseException, d: GD.Dtd, doc_el: I.El, oname: str) -> str | None:
    msg = str(exc)
    name = type(exc).__name__
    if d.ns is not None and name == "ParserError":
        ns = re.escape(d.namespace)
        # the namespace of the xmlns / xmlns:p #FIXED declaration reaches the root class as Meta.target_namespace only: child elements stay unqualified
        if re.fullmatch(r"Unknown property (\{%s\})?%s:\{%s\}\w+" % (ns, d.root, ns), msg):
            return "KF/xmlns-namespace-not-applied-to-child-elements"
        # ... while unprefixed attributes are put into the default namespace
        m = re.fullmatch(r"Unknown attribute (?:\{%s\})?(\w+):(\w+)" % ns, msg)
        if m and d.ns[0] == "default" and m.group(1) in d.elems and any(a.name == m.group(2) for a in d.elems[m.group(1)].attrs) and any(
                el.local == m.group(1) and any(k == m.group(2) for k, _v in el.attrs) for el in doc_el.iter()):
            return "KF/xmlns-default-namespace-applied-to-unprefixed-attributes"
    if name == "ParserError":
        # the occurrence operator of a sequence group is ignored: its members stay required single fields
        m = re.search(r"missing \d+ required keyword-only arguments?: (.*)", msg)
        if m:
            missing = re.findall(r"'(\w+)'", m.group(1))
            optional = {n.name for e in d.elems.values() for n, chain in particles(e.content)
                        if not any(g.kind == "choice" for g in chain) and any(g.kind == "seq" and g.occ in ("?", "*") for g in chain)}
            if missing and set(missing) <= optional and all(_count_kids(doc_el, e.name, x) == 0 for e in d.elems.values() for x in missing):
                return "KF/sequence-group-occurrence-ignored"
        m = re.fullmatch(r"Unknown property (\w+):(\w+)", msg)
        if m and m.group(1) in d.elems and _count_kids(doc_el, m.group(1), m.group(2)) >= 2:
            for n, chain in particles(d.elems[m.group(1)].content):
                if n.name != m.group(2):
                    continue
                if not any(g.kind == "choice" for g in chain) and any(g.kind == "seq" and g.occ in ("*", "+") for g in chain):
                    return "KF/sequence-group-occurrence-ignored"
                # inside a choice the occurrence of the choice group replaces the branch's own * / +
                if n.occ in ("*", "+") and chain and chain[-1].kind == "choice" and all(g.occ in ("", "?") for g in chain if g.kind == "choice"):
                    return "KF/choice-branch-occurrence-replaced-by-group-occurrence"
    # an ANY element becomes a class with one non-list, non-mixed wildcard field; text after a child element reaches the
    # wildcard lookup as a None qname
    if name == "TypeError" and "'NoneType' object is not subscriptable" in msg:
        for el in doc_el.iter():
            e = d.elems.get(el.local)
            if e is not None and e.content == GD.ANY:
                seen_el = False
                for k in el.kids:
                    if isinstance(k, I.El):
                        seen_el = True
                    elif seen_el and isinstance(k, str) and k:
                        return "KF/any-content-text-after-child-element-raises-TypeError"
    return None


def _map_tree(tree, fn):
    q, attrs, kids = fn(tree)
    return (q, attrs, tuple(k if isinstance(k, str) else _map_tree(k, fn) for k in kids))


def _repairs(d: GD.Dtd, oname: str, doc_el=None) -> list:
    """(bucket, function applied to both trees that erases exactly the analysed defect's effect, extra condition on (exp, act))"""
    out = []
    amp = {(e.name, attr_key(a)) for e in d.elems.values() for a in e.attrs if a.mode in ("FIXED", "DEFAULT") and "&" in (a.value or "")}
    if amp:
        # libxml2 hands the default literal out with '&' spelled '&#38;' and the generator copies it verbatim
        def fix_amp(t):
            q, attrs, kids = t
            return (q, tuple((k, v.replace("&#38;", "&") if (local(q), k) in amp else v) for k, v in attrs), kids)
        out.append(("KF/attribute-default-with-ampersand-keeps-char-reference", lambda t: _map_tree(t, fix_amp), lambda e, a: "&#38;" in repr(a)))
    if d.ns is not None:
        # the generated classes carry Meta.target_namespace / no namespace at all: elements that were read (root, wildcard children)
        # are written unqualified
        rq = f"{{{d.namespace}}}{d.root}"
        pre = f"{{{d.namespace}}}"

        def unqualify(t):
            q, attrs, kids = t
            return (q[len(pre):] if q.startswith(pre) else q, attrs, kids)
        out.append(("KF/xmlns-namespace-not-written-in-output", lambda t: _map_tree(t, unqualify), lambda e, a: e[0] == rq and a[0] == d.root))
    any_names = {e.name for e in d.elems.values() if e.content == GD.ANY}
    late = set()
    for el in (doc_el.iter() if doc_el is not None else ()):
        if el.local in any_names:
            seen_el = False
            for k in el.kids:
                if isinstance(k, I.El):
                    seen_el = True
                elif seen_el and k:
                    late.add(k)
    if late:
        # an ANY element becomes a class with one non-list, non-mixed wildcard field: text that follows a child element has no place in it
        # (the trees may be order-normalised, so the texts concerned are taken from the document itself)
        def drop_late_text(t):
            q, attrs, kids = t
            if local(q) not in any_names:
                return t
            return (q, attrs, tuple(k for k in kids if not (isinstance(k, str) and k in late)))

        def count_late(t):
            return (sum(1 for k in t[2] if isinstance(k, str) and k in late) if local(t[0]) in any_names else 0) + sum(count_late(k) for k in t[2] if not isinstance(k, str))
        out.append(("KF/any-content-text-after-child-element-is-lost", lambda t: _map_tree(t, drop_late_text), lambda e, a: count_late(a) < count_late(e)))
    if oname == "compound":
        # a non-repeating choice with a sequence branch becomes one non-list compound field: only one member of the branch survives
        lost = {}
        for e in d.elems.values():
            groups = {id(g): g for _n, chain in particles(e.content) for g in chain}
            for g in groups.values():
                if g.kind == "choice" and g.occ in ("", "?") and any(isinstance(i, GD.Grp) and i.kind == "seq" for i in g.items):
                    lost.setdefault(e.name, set()).update(n.name for n, chain in particles(e.content) if any(x is g for x in chain))
        if lost:
            def drop(t):
                q, attrs, kids = t
                names = lost.get(local(q), ())
                return (q, attrs, tuple(k for k in kids if isinstance(k, str) or local(k[0]) not in names))
            def members(t):
                return sum((1 if local(k[0]) in lost.get(local(t[0]), ()) else 0) + members(k) for k in t[2] if not isinstance(k, str))
            out.append(("KF/compound-field-for-choice-with-sequence-branch-keeps-one-element", lambda t: _map_tree(t, drop), lambda e, a: members(a) < members(e)))
    return out


def known_diff(exp, act, d: GD.Dtd, doc_el: I.El, oname: str, ordered: bool) -> str | None:
    reps = _repairs(d, oname, doc_el)
    for name, fn, cond in reps:
        if cond(exp, act) and fn(exp) == fn(act):
            return name
    # a case that shows two analysed defects at once is filed under the first of them
    for i, (name, fn, cond) in enumerate(reps):
        for _n2, fn2, cond2 in reps[i + 1:]:
            if cond(exp, act) and cond2(exp, act) and fn2(fn(exp)) == fn2(fn(act)):
                return name
    return None


def delta(a, b) -> str:
    if a[0] != b[0]:
        return "element-name"
    if a[1] != b[1]:
        ka, kb = dict(a[1]), dict(b[1])
        if set(ka) != set(kb):
            return "attribute-set"
        return "attribute-value"
    if len(a[2]) != len(b[2]):
        return "children-count"
    for x, y in zip(a[2], b[2]):
        if isinstance(x, str) or isinstance(y, str):
            if x != y:
                return "text-value" if isinstance(x, str) and isinstance(y, str) else "children-order"
        else:
            dd = delta(x, y)
            if dd:
                return dd
    return ""


def _task(t):
    """one task = one (DTD, option set): the generated package is dropped (sys.modules, sys.path, scratch dir) when its documents are done"""
    try:
        return explore_task(t)
    finally:
        while _GEN:
            _k, old = _GEN.popitem(last=False)
            old["gen"].cleanup()


def run(tier: str, seed: int) -> int:
    t0 = time.time()
    th = tier == "thorough"
    maxfeat = 2
    inst_bound = 3 if th else 2
    vecs = enumerate_dtds(maxfeat)
    onames = [o for o, _ in OPTION_SETS]
    tasks = []
    for v in vecs:
        nfeat = len([c for c in v if c])
        for on in onames:
            # quick: for pairs of features the unnest option set sees the minimal and the single-deviation documents only
            b = inst_bound if (th or nfeat <= 1 or on != "unnest") else 1
            tasks.append(("c16.faithful", dict(vec=v, maxfeat=maxfeat, oname=on, free_instances=False), b, ()))
    stats = parallel(tasks, _task, chunk=2)
    confirm_violations(stats)
    while _GEN:
        _GEN.popitem()[1]["gen"].cleanup()
    rejected = stats.counters.get("skip:generator_rejected", 0)
    return finish(
        PROP, tier, seed, "exploration", stats, t0,
        rule=(f"{len(vecs)} G-dtd DTDs (base DTD + <= {maxfeat} of {len(GD.FEATURES) - 1} features: EMPTY / ANY / #PCDATA / (#PCDATA)* / mixed children and root, "
              "? * + on names, optional / repeating / nested sequences and choices, choice of sequences, repeated names, recursion; CDATA / ID / IDREF(S) / NMTOKEN(S) / "
              "enumeration attributes with #REQUIRED / #IMPLIED / #FIXED / defaults (incl. values needing escaping) on root and child elements, xml:lang, "
              f"xmlns and xmlns:p #FIXED declarations on the root or on every element) x {len(onames)} generator option sets x every instance document with <= {inst_bound} "
              + ("" if th else "(unnest on two-feature DTDs: <= 1) ") +
              "non-minimal answers (occurrence counts {min, min+1, 2}, choice branches, optional attributes, value alphabets); every instance is first validated by libxml2's DTD validator."),
        assumptions=["stand-ins for jinja2 / toposort / ruff / click (shims/, conformance-checked)",
                     "libxml2's DTD validator judges instances and re-validates ordered outputs (the output is requested with the DTD's own prefix, DTD validity being about literal names)",
                     "documents carry no DOCTYPE and spell the namespace declaration out on the root element (the parser under test never reads the DTD)",
                     "attribute defaults / #FIXED values prescribed by the DTD are expected in the output on every element declaring them; NMTOKENS / IDREFS values are compared after whitespace normalisation",
                     "order and DTD-validity of the output are demanded only where * and + apply to single names (every option set) or to choices of single names, mixed content and ANY included (compound fields); "
                     "otherwise, and when one name occurs twice in a content model, children are compared as multisets per parent"],
        bound={"features_per_dtd": maxfeat, "instance_deviations": inst_bound, "dtds": len(vecs), "option_sets": onames},
        extra={"programs": len(vecs) * len(onames), "generator_rejected": rejected},
    )
