"""C15 -- bad input fails cleanly (fault enumeration).

For every (model, valid document) of the document set: truncation at every byte offset, every
single-byte deletion, a fixed set of byte substitutions at every offset, every structural fault
(delete / duplicate / retag / re-namespace / swap each element, corrupt each value and attribute,
bad xsi:type / xsi:nil, undeclared prefixes, wrong root, children inside simple-typed elements),
all byte strings of length <= 2 over an 8-byte alphabet, and the analogous faults for JSON / dict
input.  Both handlers.
"""
from __future__ import annotations

import itertools
import json
from typing import List
import signal
import time
import warnings

from lxml import etree

from .. import gmodel as G
from .. import infoset as I
from ..engine import Chooser, HarnessError, call, confirm_violations, explore_task, finish, h, harness, parallel
from .c01 import pick_instance
from .c09 import _write

from xsdata.exceptions import ConverterError, ParserError, XmlContextError, XmlHandlerError
from xsdata.formats.dataclass.context import XmlContext
from xsdata.formats.dataclass.models.generics import DerivedElement
from xsdata.formats.dataclass.parsers import DictDecoder, JsonParser, XmlParser
from xsdata.formats.dataclass.parsers.config import ParserConfig
from xsdata.formats.dataclass.parsers.handlers import LxmlEventHandler, XmlEventHandler
from xsdata.formats.dataclass.serializers import DictEncoder, XmlSerializer
from xsdata.formats.dataclass.serializers.config import SerializerConfig
from xsdata.formats.dataclass.serializers.writers import LxmlEventWriter

PROP = "C15"
HANDLERS = [("native", XmlEventHandler), ("lxml", LxmlEventHandler)]
DOCUMENTED = (ParserError, ConverterError, XmlContextError, XmlHandlerError)
SUBST = [b"<", b"&", b'"', b"\x00", b"\xff", b">"]
TRAILERS = [b"<x/>", b"stray text", b"</Root>", b"<", b"<Root/>", b"&amp;", b"<!-- ok -->x"]
TINY_ALPHABET = [b"<", b"a", b">", b"/", b"&", b"\x00", b" ", b"\xff"]
XSI = I.XSI
WATCHDOG_S = 20


class Timeout(BaseException):  # not an Exception: library code that swallows Exception must not swallow the watchdog
    pass


def _alarm(signum, frame):
    raise Timeout()


def guarded(fn, *a):
    """call() with a generous watchdog (bounded time)."""
    old = signal.signal(signal.SIGALRM, _alarm)
    signal.alarm(WATCHDOG_S)
    try:
        return call(fn, *a)
    except Timeout as e:
        return ("timeout", e)
    finally:
        signal.alarm(0)
        signal.signal(signal.SIGALRM, old)


def well_formed_judges(data: bytes):
    """(expat says well-formed, strict libxml2 says well-formed)."""
    try:
        I.parse_expat(data)
        a = True
    except I.NotWellFormed:
        a = False
    try:
        etree.fromstring(data, etree.XMLParser(recover=False, resolve_entities=False, no_network=True))
        b = True
    except etree.XMLSyntaxError:
        b = False
    except Exception:
        b = False
    return a, b


def acceptable_result(value, clazz) -> bool:
    if isinstance(value, clazz):
        return True
    return isinstance(value, DerivedElement) and isinstance(value.value, clazz)


def judge(data: bytes, clazz, ctx, case, label: str, lenient: bool = False):
    legs = [(hname, handler, "") for hname, handler in HANDLERS]
    if lenient:
        # unknown content is skipped instead of refused: other node types do the work
        legs += [(hname, handler, "lenient") for hname, handler in HANDLERS]
    for hname, handler, mode in legs:
        cfg = ParserConfig(fail_on_unknown_properties=False, fail_on_unknown_attributes=False) if mode else ParserConfig()
        with warnings.catch_warnings():
            warnings.simplefilter("ignore")
            r = guarded(XmlParser(context=ctx, config=cfg, handler=handler).from_bytes, data, clazz)
        c = {**case, "handler": hname, "config": mode or "default"}
        if mode:
            hname = f"{hname}-lenient"
        if r[0] == "timeout":
            return dict(ok=False, case=c, bucket=f"{label}/{hname}/hang", detail=f"no answer within {WATCHDOG_S}s")
        if r[0] == "exc":
            if not isinstance(r[1], DOCUMENTED):
                return dict(ok=False, case=c, bucket=f"{label}/{hname}/leaks-{type(r[1]).__name__}", detail=f"{type(r[1]).__name__}: {r[1]}")
        else:
            if not acceptable_result(r[1], clazz):
                return dict(ok=False, case=c, bucket=f"{label}/{hname}/returns-{type(r[1]).__name__}", detail=f"returned {r[1]!r}, not an instance of {clazz.__name__}")
            if hname.startswith("native"):
                a, b = well_formed_judges(data)
                if not a and not b:
                    return dict(ok=False, case=c, bucket=f"{label}/native/accepts-not-well-formed", detail=f"expat and libxml2 both reject the document; the native handler returned {r[1]!r}")
    return None


# what a typed value or attribute is replaced with: nonsense, and near misses of the lexical spaces (too many fraction digits, lone
# signs and designators, digits of other scripts, huge numbers, unbalanced escapes of the formats)
CORRUPT = ["not a value !", "12:00:00.12345678901", "2020-01-01T00:00:00.0000000000Z", "-", "P", "1e99999", "\u0661\u0662", "9" * 400, "{", "--02-30", "a:b:c", "%Y"]

# ---------------------------------------------------------------------------------------
# structural faults on the concrete document


def structural_faults(root: I.El, spec: G.ModelSpec) -> list[tuple]:
    out = []
    all_els = list(root.iter())
    for i, e in enumerate(all_els):
        if i > 0:
            out.append(("delete", i))
            out.append(("duplicate", i))
        out.append(("retag", i))
        out.append(("rens", i))
        out.append(("undeclared-prefix", i))
        out.append(("child-in-simple", i))
        for xt in ("unknown", "unprefixed-unknown", "undeclared-prefix", "xs:int", "empty", "xs:hexBinary", "xs:base64Binary", "xs:QName", "xs:date", "xs:duration", "xs:boolean", "xs:NOTATION"):
            out.append(("xsi-type", i, xt))
        for nv in ("maybe", "", "1", "true", "false"):
            out.append(("xsi-nil", i, nv))
        for j in range(len(e.attrs)):
            out.append(("attr-delete", i, j))
            out.append(("attr-corrupt", i, j))
            for ci in range(1, len(CORRUPT)):
                out.append(("attr-corrupt", i, j, ci))
        for j, k in enumerate(e.kids):
            if isinstance(k, str):
                out.append(("text-corrupt", i, j))
                for ci in range(1, len(CORRUPT)):
                    out.append(("text-corrupt", i, j, ci))
                out.append(("text-delete", i, j))
        els_idx = [j for j, k in enumerate(e.kids) if isinstance(k, I.El)]
        for a, b in zip(els_idx, els_idx[1:]):
            out.append(("swap", i, a, b))
        if not e.kids:
            out.append(("add-text", i))
    out.append(("wrong-root",))
    out.append(("wrap-root",))
    return out


def parent_of(root, target):
    for e in root.iter():
        for j, k in enumerate(e.kids):
            if k is target:
                return e, j
    return None, None


def apply_fault(root: I.El, f: tuple):
    r = root.copy()
    all_els = list(r.iter())
    kind = f[0]
    if kind == "wrong-root":
        r.prefix, r.local = "", "zz-wrong-root"
        return r
    if kind == "wrap-root":
        return I.El("zz-wrapper", kids=[r])
    e = all_els[f[1]]
    if kind == "delete":
        p, j = parent_of(r, e)
        del p.kids[j]
    elif kind == "duplicate":
        p, j = parent_of(r, e)
        p.kids.insert(j, e.copy())
    elif kind == "retag":
        e.local = e.local + "X"
    elif kind == "rens":
        e.nsdecls["zq"] = "urn:some-other-namespace"
        e.prefix = "zq"
    elif kind == "undeclared-prefix":
        e.prefix = "nodecl"
    elif kind == "child-in-simple":
        e.kids.append(I.El("zz-child", kids=["x"]))
    elif kind == "xsi-type":
        e.nsdecls.setdefault("xsi", XSI)
        val = {"unknown": "xsi:NoSuchType", "unprefixed-unknown": "NoSuchType", "undeclared-prefix": "nodecl:T", "empty": ""}.get(f[2], f[2])
        if f[2].startswith("xs:"):
            e.nsdecls.setdefault("xs", I.XS)
        e.attrs = [a for a in e.attrs if a[0] != "xsi:type"] + [("xsi:type", val)]
    elif kind == "xsi-nil":
        e.nsdecls.setdefault("xsi", XSI)
        e.attrs = [a for a in e.attrs if a[0] != "xsi:nil"] + [("xsi:nil", f[2])]
    elif kind == "attr-delete":
        del e.attrs[f[2]]
    elif kind == "attr-corrupt":
        k, v = e.attrs[f[2]]
        e.attrs[f[2]] = (k, CORRUPT[f[3]] if len(f) > 3 else CORRUPT[0])
    elif kind == "text-corrupt":
        e.kids[f[2]] = CORRUPT[f[3]] if len(f) > 3 else CORRUPT[0]
    elif kind == "text-delete":
        del e.kids[f[2]]
    elif kind == "swap":
        a, b = f[2], f[3]
        e.kids[a], e.kids[b] = e.kids[b], e.kids[a]
    elif kind == "add-text":
        e.kids.append("unexpected text")
    return r


@harness("c15.structural")
def h_structural(ch: Chooser, vec: list, maxf: int, seed: str | None = None):
    spec = G.model_from_vector(vec, maxf)
    model = G.Model(spec)
    try:
        exprs = pick_instance(ch, spec, False, seed)
        if seed and not any(seed in e for e in exprs):
            return {"skip": True, "reason": "seed construct not in this model"}
        obj = model.instance(exprs)
        ctx = XmlContext()
        r = call(XmlSerializer(context=ctx, config=SerializerConfig(xml_declaration=False), writer=LxmlEventWriter).render, obj)
        if r[0] == "exc":
            return {"skip": True, "reason": "not serializable (C01/C03 subject)"}
        root = I.from_text(r[1])
        faults = structural_faults(root, spec)
        k = ch.choose(len(faults) + 1, "fault")
        if k == 0:
            doc = r[1]
            fault = ("none",)
        else:
            fault = faults[k - 1]
            doc = _write(apply_fault(root, fault))
        case = {"model": model.source.split("XmlTime\n", 1)[-1].strip(), "instance": model.instance_source(exprs), "fault": repr(fault), "document": doc}
        bad = judge(doc.encode("utf-8"), model.root, ctx, case, f"structural/{fault[0]}" + (f"-{fault[2]}" if fault[0] == "xsi-type" else ""), lenient=True)
        if bad:
            return bad
        return dict(ok=True, case=case, obs=fault[0], nontrivial=h(doc) if k else None, counters={"fault:" + fault[0]: 1})
    finally:
        model.release()


@harness("c15.bytes")
def h_bytes(ch: Chooser, vec: list, maxf: int, lo: int, hi: int):
    """Byte-level faults at offsets [lo, hi) of the default instance's document."""
    spec = G.model_from_vector(vec, maxf)
    model = G.Model(spec)
    try:
        exprs = [G.field_values(spec, f)[0] for f in spec.fields]
        obj = model.instance(exprs)
        ctx = XmlContext()
        r = call(XmlSerializer(context=ctx, config=SerializerConfig(xml_declaration=True), writer=LxmlEventWriter).render, obj)
        if r[0] == "exc":
            return {"skip": True, "reason": "not serializable"}
        data = r[1].encode("utf-8")
        hi2 = min(hi, len(data))
        if lo >= len(data):
            return {"skip": True, "reason": "offset beyond document"}
        off = lo + ch.choose(hi2 - lo, "offset", free=True)
        op = ch.choose(2 + len(SUBST) + (len(TRAILERS) if lo == 0 else 0), "op", free=True)
        if op >= 2 + len(SUBST):
            if off != lo:
                return {"skip": True, "reason": "trailers are offset independent"}
            t = TRAILERS[op - 2 - len(SUBST)]
            bad_data, what = data + t, "trailing-garbage"
        elif op == 0:
            bad_data, what = data[:off], "truncate"
        elif op == 1:
            bad_data, what = data[:off] + data[off + 1:], "delete-byte"
        else:
            s = SUBST[op - 2]
            if data[off:off + 1] == s:
                return {"skip": True, "reason": "substitution is the identity"}
            bad_data, what = data[:off] + s + data[off + 1:], f"substitute"
        case = {"model": model.source.split("XmlTime\n", 1)[-1].strip(), "fault": f"{what}@{off}", "document": bad_data.decode("latin-1")}
        bad = judge(bad_data, model.root, ctx, case, f"bytes/{what}")
        if bad:
            return bad
        return dict(ok=True, case=case, obs=what, nontrivial=h(bad_data), counters={"fault:" + what: 1})
    finally:
        model.release()


# every codec name python knows that an XML declaration could carry, plus misspellings: the document itself stays ASCII
ENCODINGS = ["UTF-8", "utf-8", "TF-8", "", "utf_8", "UTF-16", "utf-16-le", "UTF-32", "ascii", "US-ASCII", "latin-1", "iso-8859-1", "ISO-8859-15", "cp1252", "windows-1252", "utf-7", "big5", "gbk",
             "shift_jis", "euc-jp", "idna", "punycode", "rot13", "hex", "base64", "zlib", "unicode_escape", "raw_unicode_escape", "undefined", "mbcs", "oem", "utf-8-sig", "cp037", "x-unknown", "none"]


@harness("c15.encodings")
def h_encodings(ch: Chooser):
    """A well-formed ASCII document under every declared encoding name: parsed, or refused with a documented error."""
    from ..models import shared as M
    enc = ENCODINGS[ch.choose(len(ENCODINGS), "encoding", free=True)]
    quote = ch.pick(['"', "'"], "quote", free=True)
    body = ch.pick([b"<Doc><item><n>1</n></item></Doc>", b"<Doc/>"], "body", free=True)
    data = b"<?xml version=" + quote.encode() + b"1.0" + quote.encode() + b" encoding=" + quote.encode() + enc.encode("ascii") + quote.encode() + b"?>" + body
    case = {"document": repr(data), "declared_encoding": enc}
    bad = judge(data, M.Doc, XmlContext(), case, f"declared-encoding/{enc or 'empty'}")
    if bad:
        return bad
    return dict(ok=True, case=case, obs="encoding", nontrivial=h(data), counters={"fault:declared-encoding": 1})


@harness("c15.tiny")
def h_tiny(ch: Chooser):
    from ..models import shared as M
    n = ch.choose(3, "length", free=True)
    data = b"".join(TINY_ALPHABET[ch.choose(len(TINY_ALPHABET), f"b{i}", free=True)] for i in range(n))
    case = {"document": repr(data)}
    bad = judge(data, M.Doc, XmlContext(), case, "tiny")
    if bad:
        return bad
    return dict(ok=True, case=case, obs="tiny", nontrivial=h(data))


@harness("c15.json")
def h_json(ch: Chooser, vec: list, maxf: int):
    spec = G.model_from_vector(vec, maxf)
    if sum(1 for f in spec.fields if "samename" in f.tags) > 1:
        return {"skip": True, "reason": "duplicate JSON keys"}
    model = G.Model(spec)
    try:
        exprs = pick_instance(ch, spec, False)
        obj = model.instance(exprs)
        ctx = XmlContext()
        e = call(DictEncoder(context=ctx).encode, obj)
        if e[0] == "exc":
            return {"skip": True, "reason": "not encodable"}
        data = e[1]
        keys = list(data)
        faults = [("none",), ("empty-dict",), ("list-instead",), ("scalar-instead",), ("null",), ("list-of-scalars",), ("list-of-lists",), ("list-of-nulls",), ("derived-shape",)]
        for k in keys:
            faults += [("unwrap-key", k), ("delete-key", k), ("null-value", k), ("dict-value", k), ("list-value", k), ("str-value", k), ("int-value", k), ("nested-list", k), ("empty-nested-list", k), ("rename-key", k)]
        fi = ch.choose(len(faults), "fault")
        f = faults[fi]
        d = dict(data)
        payload = d
        if f[0] == "empty-dict":
            payload = {}
        elif f[0] == "list-instead":
            payload = [d]
        elif f[0] == "scalar-instead":
            payload = 5
        elif f[0] == "null":
            payload = None
        elif f[0] == "list-of-scalars":
            payload = [1]
        elif f[0] == "list-of-lists":
            payload = [[]]
        elif f[0] == "list-of-nulls":
            payload = [None]
        elif f[0] == "derived-shape":
            payload = {"qname": "a", "type": None, "value": [1]}
        elif f[0] == "unwrap-key":
            inner = d.pop(f[1])
            if isinstance(inner, dict) and len(inner) == 1:
                k2, v2 = next(iter(inner.items()))
                d[k2] = v2
            else:
                d[f[1]] = inner
        elif f[0] == "delete-key":
            del d[f[1]]
        elif f[0] == "null-value":
            d[f[1]] = None
        elif f[0] == "dict-value":
            d[f[1]] = {"zz": 1}
        elif f[0] == "list-value":
            d[f[1]] = [1, "a", None]
        elif f[0] == "str-value":
            d[f[1]] = "not a value !"
        elif f[0] == "int-value":
            d[f[1]] = 12345
        elif f[0] == "empty-nested-list":
            d[f[1]] = [[]]
        elif f[0] == "nested-list":
            d[f[1]] = [[{"a": [1]}]]
        elif f[0] == "rename-key":
            d[f[1] + "X"] = d.pop(f[1])
        case = {"model": model.source.split("XmlTime\n", 1)[-1].strip(), "instance": model.instance_source(exprs), "fault": repr(f), "payload": repr(payload)[:500]}
        routes = ("dict", "json", "json-truncated", "dict-untyped") + (("dict-list-target", "json-list-target") if isinstance(payload, list) else ())
        for route in routes:
            with warnings.catch_warnings():
                warnings.simplefilter("ignore")
                if route == "dict-list-target":
                    r = guarded(DictDecoder(context=ctx).decode, payload, List[model.root])
                elif route == "json-list-target":
                    r = guarded(JsonParser(context=ctx).from_string, json.dumps(payload), List[model.root])
                elif route == "dict-untyped":
                    r = guarded(DictDecoder(context=ctx).decode, payload, None)
                elif route == "dict":
                    r = guarded(DictDecoder(context=ctx).decode, payload, model.root)
                elif route == "json":
                    r = guarded(JsonParser(context=ctx).from_string, json.dumps(payload), model.root)
                else:
                    text = json.dumps(payload)
                    r = guarded(JsonParser(context=ctx).from_string, text[: max(0, len(text) // 2)], model.root)
            c = {**case, "route": route}
            if r[0] == "timeout":
                return dict(ok=False, case=c, bucket=f"json/{f[0]}/{route}/hang", detail="watchdog")
            if r[0] == "exc":
                ok_types = DOCUMENTED + ((json.JSONDecodeError,) if not route.startswith("dict") else ())
                if not isinstance(r[1], ok_types):
                    return dict(ok=False, case=c, bucket=f"json/{f[0]}/{route}/leaks-{type(r[1]).__name__}", detail=f"{type(r[1]).__name__}: {r[1]}")
            elif route.endswith("-list-target"):
                if not (isinstance(r[1], list) and all(isinstance(x, model.root) for x in r[1])):
                    return dict(ok=False, case=c, bucket=f"json/{f[0]}/{route}/returns-{type(r[1]).__name__}", detail=f"returned {r[1]!r}")
            elif route != "dict-untyped" and not isinstance(r[1], model.root):
                return dict(ok=False, case=c, bucket=f"json/{f[0]}/{route}/returns-{type(r[1]).__name__}", detail=f"returned {r[1]!r}")
        return dict(ok=True, case=case, obs=f[0], nontrivial=h(repr(payload)) if fi else None, counters={"fault:json-" + f[0]: 1})
    finally:
        model.release()


def run(tier: str, seed: int) -> int:
    t0 = time.time()
    th = tier == "thorough"
    maxf = 2
    dm_struct, dm_bytes = (3, 2) if th else (2, 1)
    vecs = G.enumerate_models(dm_struct, maxf)
    tasks = []
    for v in vecs:
        tasks.append(("c15.structural", dict(vec=v, maxf=maxf), 1, ()))
        tasks.append(("c15.json", dict(vec=v, maxf=maxf), 1, ()))
        spec = G.model_from_vector(v, maxf)
        tags = set().union(*[f.tags for f in spec.fields])
        if "wildcard" in tags:
            tasks.append(("c15.structural", dict(vec=v, maxf=maxf, seed="Other("), 1, ()))
        if "xsi" in tags:
            tasks.append(("c15.structural", dict(vec=v, maxf=maxf, seed="Derived("), 1, ()))
    bvecs = G.enumerate_models(dm_bytes, maxf)
    for v in bvecs:
        for lo in range(0, 400, 50):
            tasks.append(("c15.bytes", dict(vec=v, maxf=maxf, lo=lo, hi=lo + 50), None, ()))
    tasks.append(("c15.tiny", {}, None, ()))
    tasks.append(("c15.encodings", {}, None, ()))
    stats = parallel(tasks, explore_task, chunk=4)
    confirm_violations(stats)
    return finish(
        PROP, tier, seed, "fault_enumeration", stats, t0,
        rule=(f"structural faults: {len(vecs)} G-model models x (default instance or one value deviation) x every single structural fault (delete / duplicate / retag / re-namespace / "
              "undeclared prefix / swap of every element, child inside every element, 12 foreign xsi:type values (unknown, undeclared, empty, 8 standard datatypes incl. the binary ones) and 5 xsi:nil values on every element, delete / corrupt (12 replacement values) every attribute and text, each also under a lenient parser configuration, "
              f"wrong root, wrapped root); byte faults: {len(bvecs)} documents x truncation at every offset, deletion of every byte, 6 substitutions at every offset; a well-formed ASCII document under {len(ENCODINGS)} declared encoding names; all byte strings of "
              "length <= 2 over an 8-byte alphabet; JSON/dict: 5 document-shape faults + 8 faults per key, through DictDecoder, JsonParser and a truncated JSON text. Both handlers. "
              "Distinct non-trivial = distinct faulty document."),
        assumptions=[f"bounded time is a {WATCHDOG_S}s watchdog per call, not a proof of termination",
                     "documented error types: ParserError, ConverterError, XmlContextError, XmlHandlerError (+ json.JSONDecodeError for JSON text)",
                     "a DerivedElement wrapping an instance of the requested class counts as an instance of it (documented xsi:type behaviour)",
                     "not-well-formed = rejected by both expat and strict libxml2; demanded of the native handler only (as the property states)"],
        bound={"structural_models": len(vecs), "byte_fault_documents": len(bvecs), "faults_per_document": 1},
        extra={"programs": len(vecs)},
    )
