"""C08 -- all backends agree with each other."""
from __future__ import annotations

import io
import os
import tempfile
import time
import warnings
import xml.etree.ElementTree as ET

from lxml import etree

from .. import gmodel as G
from .. import gtree
from .. import infoset as I
from ..engine import (Chooser, HarnessError, call, confirm_violations, explore_task_split, finish, h, harness, parallel, split_deep)
from ..eq import diff, same
from ..models import generic as M
from .c01 import pick_config, pick_instance, unrepresentable
from . import c03

from xsdata.formats.dataclass.context import XmlContext
from xsdata.formats.dataclass.parsers import TreeParser, XmlParser
from xsdata.formats.dataclass.parsers.config import ParserConfig
from xsdata.formats.dataclass.parsers.handlers import LxmlEventHandler, XmlEventHandler
from xsdata.formats.dataclass.serializers import TreeSerializer, XmlSerializer
from xsdata.formats.dataclass.serializers.config import SerializerConfig
from xsdata.formats.dataclass.serializers.writers import LxmlEventWriter, XmlEventWriter

PROP = "C08"


def infoset_of(text: str, indent):
    t = I.canonical(text)
    return I.strip_ws(t) if indent else t


# ---------------------------------------------------------------------------------------
# leg A: writers on models


@harness("c08.writers")
def h_writers(ch: Chooser, vec: list, maxf: int, free_values: bool):
    spec = G.model_from_vector(vec, maxf)
    model = G.Model(spec)
    try:
        exprs = pick_instance(ch, spec, free_values)
        cfg, ns_map = pick_config(ch, spec)
        why = unrepresentable(spec, exprs, cfg, ns_map)
        if why:
            return {"skip": True, "reason": why}
        if cfg["indent"] and any(f.cat == "wildcard" for f in spec.fields):
            return {"skip": True, "reason": "indentation with generic (possibly mixed) content: documented exception"}
        case = {"model": model.source.split("XmlTime\n", 1)[-1].strip(), "instance": model.instance_source(exprs), "config": cfg, "ns_map": repr(ns_map)}
        obj = model.instance(exprs)
        ctx = XmlContext()
        outs = {}
        for wname, writer in (("native", XmlEventWriter), ("lxml", LxmlEventWriter)):
            r = call(XmlSerializer(context=ctx, config=SerializerConfig(**cfg), writer=writer).render, obj, dict(ns_map) if ns_map else None)
            outs[wname] = r
        t = call(TreeSerializer(context=ctx, config=SerializerConfig(**cfg)).render, obj, dict(ns_map) if ns_map else None)
        if t[0] == "ok":
            t = ("ok", etree.tostring(t[1], encoding="unicode"))
        outs["tree"] = t
        kinds = {k: v[0] for k, v in outs.items()}
        case["outputs"] = {k: (v[1] if v[0] == "ok" else repr(v[1]))[:400] for k, v in outs.items()}
        if len(set(kinds.values())) > 1:
            return dict(ok=False, case=case, bucket="writers/one-rejects/" + "+".join(f"{k}:{kinds[k]}" for k in sorted(kinds)) + "/" + cats(spec),
                        detail=f"{ {k: (type(v[1]).__name__ if v[0] == 'exc' else 'ok') for k, v in outs.items()} }")
        if kinds["native"] == "exc":
            return dict(ok=True, case=case, obs="all-reject", nontrivial=None)
        trees = {}
        for k, v in outs.items():
            try:
                trees[k] = infoset_of(v[1], cfg["indent"])
            except I.NotWellFormed as e:
                return dict(ok=False, case=case, bucket=f"writers/{k}-not-well-formed/" + cats(spec), detail=str(e))
        for k in ("lxml", "tree"):
            if trees[k] != trees["native"]:
                return dict(ok=False, case=case, bucket=f"writers/native-vs-{k}/" + cats(spec),
                            detail=f"native: {outs['native'][1]}\n{k}: {outs[k][1]}")
        return dict(ok=True, case=case, obs="agree", nontrivial=(G.h(model.source), tuple(exprs), repr(cfg), repr(ns_map)))
    finally:
        model.release()


def cats(spec) -> str:
    tags = set()
    for f in spec.fields:
        tags.add(f.cat)
        tags |= {t for t in f.tags if t in ("nillable", "tokens", "wrapper", "sequence", "xsi", "anytype", "union")}
    return "+".join(sorted(tags))


# ---------------------------------------------------------------------------------------
# leg B: writers on event sequences (the C03 automaton alphabet)


@harness("c08.events")
def h_events(ch: Chooser, mi: int, max_elems: int):
    user_map = c03.USER_MAPS[mi]
    tree = c03.gen_tree(ch, max_elems, hostile=True)
    evs = list(c03.events(tree))
    case = {"user_map": repr(user_map), "events": [repr(e) for e in evs]}
    outs = {}
    states: set = set()
    trans = [0]
    for kind in ("native", "lxml", "tree"):
        outs[kind] = call(c03.run_writer, kind, evs, user_map, states, trans)
    kinds = {k: v[0] for k, v in outs.items()}
    sts = [h(s) for s in states]
    if len(set(kinds.values())) > 1:
        return dict(ok=False, case=case, bucket="events/one-rejects/" + "+".join(f"{k}:{kinds[k]}" for k in sorted(kinds)) + "/" + c03.map_kind(user_map),
                    detail=repr({k: (repr(v[1]) if v[0] == "exc" else v[1]) for k, v in outs.items()})[:800], states=sts, transitions=trans[0])
    if kinds["native"] == "exc":
        return dict(ok=True, case=case, obs="all-reject", states=sts, transitions=trans[0])
    trees = {}
    for k, v in outs.items():
        try:
            trees[k] = I.canonical(v[1])
        except I.NotWellFormed as e:
            return dict(ok=False, case=case, bucket=f"events/{k}-not-well-formed/" + c03.map_kind(user_map), detail=f"{e}\n{v[1]}", states=sts, transitions=trans[0])
    # QName-valued content may legitimately use different prefixes: compare with values resolved
    res = {k: resolve_all(I.parse_scoped(v[1])) for k, v in outs.items()}
    for k in ("lxml", "tree"):
        if res[k] != res["native"]:
            return dict(ok=False, case=case, bucket=f"events/native-vs-{k}/" + c03.map_kind(user_map),
                        detail=f"native: {outs['native'][1]}\n{k}: {outs[k][1]}", states=sts, transitions=trans[0])
    return dict(ok=True, case=case, obs="agree", nontrivial=h((mi, case["events"])) if len(evs) > 3 else None, states=sts, transitions=trans[0])


def resolve_all(node, scope=None):
    """Scoped tree -> canonical tree in which every text / attribute value that is a prefixed name
    with a declared prefix is replaced by its expanded form (so prefix choice does not matter)."""
    q, attrs, kids, decls = node
    scope = dict(scope or {})
    for p, u in decls:
        scope[p] = u

    def rv(v):
        parts = []
        for tok in v.split(" "):
            p, sep, l = tok.partition(":")
            if sep and p in scope and l and " " not in l:
                parts.append(f"{{{scope[p]}}}{l}")
            else:
                parts.append(tok)
        return " ".join(parts)

    a = tuple(sorted((k, rv(v)) for k, v in attrs.items()))
    out = []
    for c in kids:
        out.append(rv(c) if isinstance(c, str) else resolve_all(c, scope))
    return (q, a, tuple(out))


# ---------------------------------------------------------------------------------------
# leg C: handlers x source kinds

DECOR = ["none", "comment-between", "comment-in-text", "pi-between", "pi-in-text", "cdata", "charref", "declaration-latin1", "doctype-entity"]


def decorate(root: I.El, how: str):
    """Returns document bytes; the decorations never change the infoset."""
    el = root.copy()
    text_nodes = [(e, i) for e in el.iter() for i, k in enumerate(e.kids) if isinstance(k, str) and k.strip()]
    prolog = ""
    enc = "utf-8"
    if how == "comment-between":
        el.kids.insert(0, ("raw", "<!-- c -->"))
    elif how == "pi-between":
        el.kids.append(("raw", "<?pi data?>"))
    elif how in ("comment-in-text", "pi-in-text", "cdata", "charref"):
        if not text_nodes:
            return None
        e, i = text_nodes[0]
        s = e.kids[i]
        if how == "cdata":
            e.kids[i] = ("raw", "<![CDATA[" + s + "]]>") if "]]>" not in s else s
        elif how == "charref":
            e.kids[i] = ("raw", "".join(f"&#x{ord(c):x};" for c in s))
        else:
            mid = max(1, len(s) // 2)
            ins = "<!--c-->" if how == "comment-in-text" else "<?pi x?>"
            e.kids[i:i + 1] = [s[:mid], ("raw", ins), s[mid:]]
    elif how == "declaration-latin1":
        prolog = '<?xml version="1.0" encoding="ISO-8859-1"?>\n'
        enc = "iso-8859-1"
    elif how == "doctype-entity":
        if not text_nodes:
            return None
        e, i = text_nodes[0]
        prolog = '<!DOCTYPE r [<!ENTITY ent "' + I.esc_attr(e.kids[i]) + '">]>\n'
        e.kids[i] = ("raw", "&ent;")
    return (prolog + el.write()).encode(enc)


def prefixed_values(data: bytes) -> bool:
    """True if some attribute value or text is a prefixed name whose prefix is declared in scope."""
    try:
        node = I.parse_scoped(data)
    except I.NotWellFormed:
        return False

    def walk(n, scope):
        scope = dict(scope)
        for p, u in n[3]:
            scope[p] = u
        vals = list(n[1].values()) + [k for k in n[2] if isinstance(k, str)]
        for v in vals:
            for tok in v.split():
                p, sep, l = tok.partition(":")
                if sep and p in scope and l:
                    return True
        return any(walk(k, scope) for k in n[2] if not isinstance(k, str))

    return walk(node, {})


ENV = "urn:vmc-envelope"


def sub_element_documents(data: bytes) -> dict:
    """The document as the first child of an envelope element: once verbatim, once with the namespace declarations of its root
    moved to the envelope (so that names and prefixed values resolve through an ancestor outside the parsed element)."""
    try:
        text = data.decode("utf-8")
    except UnicodeDecodeError:
        return {}
    if text.startswith("<?xml") or text.startswith("<!DOCTYPE") or text.startswith("\ufeff"):
        return {}
    out = {"lxml-subelement": f'<env:wrapper xmlns:env="{ENV}">{text}tail text<env:after>x</env:after></env:wrapper>'}
    if not any(m in text for m in ("<!--", "<?", "<![CDATA[", "&#")):
        try:
            r = I.from_text(text)
        except I.NotWellFormed:
            return out
        if "env" not in r.nsdecls and r.nsdecls:
            decl = "".join(f' xmlns{":" + p if p else ""}="{I.esc_attr(u)}"' for p, u in r.nsdecls.items())
            r.nsdecls = {}
            out["lxml-subelement-hoisted"] = f'<env:wrapper xmlns:env="{ENV}"{decl}>{r.write()}tail text<env:after>x</env:after></env:wrapper>'
    return out


def parse_all_sources(data: bytes, make_parser, clazz, case):
    """native and lxml handlers over every source kind; returns (reference result, error-dict|None)."""
    results = {}
    tmp = tempfile.NamedTemporaryFile(prefix="vmc_c08_", suffix=".xml", delete=False)
    try:
        tmp.write(data)
        tmp.close()
        srcs = {
            "bytes": lambda p: p.from_bytes(data, clazz),
            "path": lambda p: p.parse(tmp.name, clazz),
            "fileobj": lambda p: p.parse(io.BytesIO(data), clazz),
        }
        try:
            text = data.decode("utf-8")
            if not text.startswith("<?xml"):
                srcs["str"] = lambda p: p.from_string(text, clazz)
        except UnicodeDecodeError:
            pass
        for hname, handler in (("native", XmlEventHandler), ("lxml", LxmlEventHandler)):
            for sname, fn in srcs.items():
                results[f"{hname}/{sname}"] = call(fn, make_parser(handler))
        # a fresh tree per parse: the handlers clear the elements they have consumed
        mk_lt = lambda: etree.fromstring(data, etree.XMLParser(remove_comments=False, resolve_entities=True)).getroottree()
        results["lxml/lxml-tree"] = call(lambda: make_parser(LxmlEventHandler).parse(mk_lt(), clazz))
        results["lxml/lxml-element"] = call(lambda: make_parser(LxmlEventHandler).parse(mk_lt().getroot(), clazz))
        # an element taken out of a larger lxml document (an envelope): its in-scope namespaces partly come from ancestors,
        # and it has a following sibling and tail text that are not part of it
        for sname, wtext in sub_element_documents(data).items():
            mk_sub = lambda wtext=wtext: etree.fromstring(wtext.encode("utf-8"), etree.XMLParser(remove_comments=False, resolve_entities=True))[0]
            results[f"lxml/{sname}"] = call(lambda: make_parser(LxmlEventHandler).parse(mk_sub(), clazz))
        if not prefixed_values(data):
            # ElementTree discards prefix declarations: documents whose *values* use prefixes (QName content,
            # xsi:type) are not representable as an ElementTree source (stated in the native handler)
            results["native/et-tree"] = call(lambda: make_parser(XmlEventHandler).parse(ET.ElementTree(ET.fromstring(data)), clazz))
            results["native/et-element"] = call(lambda: make_parser(XmlEventHandler).parse(ET.fromstring(data), clazz))
            sub = sub_element_documents(data).get("lxml-subelement")
            if sub is not None:
                results["native/et-subelement"] = call(lambda: make_parser(XmlEventHandler).parse(ET.fromstring(sub)[0], clazz))
    finally:
        os.unlink(tmp.name)
    return results


def compare_sources(results: dict, case, label: str, feat: str):
    ref_key = "native/bytes"
    ref = results[ref_key]
    for k, r in results.items():
        if r[0] != ref[0]:
            return dict(ok=False, case={**case, "source": k}, bucket=f"{label}/accept-vs-reject/{k.split('/')[0]}-{k.split('/')[1]}/" + feat,
                        detail=f"{ref_key}: {ref[1]!r}\n{k}: {r[1]!r}")
        if r[0] == "ok" and not same(r[1], ref[1]):
            return dict(ok=False, case={**case, "source": k}, bucket=f"{label}/objects-differ/{k.split('/')[0]}-{k.split('/')[1]}/" + feat,
                        detail=f"{diff(ref[1], r[1])}\n{ref_key}: {ref[1]!r}\n{k}: {r[1]!r}")
    return None


@harness("c08.handlers.generic")
def h_handlers_generic(ch: Chooser, max_elems: int, target: str):
    root = gtree.gen(ch, max_elems)
    gtree.document(root)
    how = ch.pick(DECOR, "decoration")
    data = decorate(root, how)
    if data is None:
        return {"skip": True, "reason": "decoration needs a text node"}
    # the decorated document must still denote the same tree (libxml2 with comments/PIs dropped, entities resolved)
    try:
        dec = I._from_lxml(etree.fromstring(data, etree.XMLParser(remove_comments=True, remove_pis=True, resolve_entities=True, strip_cdata=True)))
    except etree.XMLSyntaxError as e:
        raise HarnessError(f"decorated document not well-formed: {e}\n{data!r}")
    if dec != root.expected():
        raise HarnessError(f"decoration changed the infoset: {data!r}")
    case = {"document": data.decode("latin-1"), "decoration": how, "target": target}
    ctx = XmlContext()
    if target == "tree":
        mk = lambda handler: TreeParser(context=ctx, handler=handler)
        clazz = None
    else:
        mk = lambda handler: XmlParser(context=ctx, handler=handler)
        clazz = M.HMixed
        data = b"<holder>" + data.split(b"?>\n", 1)[-1] + b"</holder>" if how not in ("declaration-latin1", "doctype-entity") else None
        if data is None:
            return {"skip": True, "reason": "prolog decorations apply to whole documents"}
        case["document"] = data.decode("latin-1")
    results = parse_all_sources(data, mk, clazz, case)
    bad = compare_sources(results, case, f"handlers/{target}", how)
    if bad:
        return bad
    return dict(ok=True, case=case, obs=how, nontrivial=h(data))


@harness("c08.handlers.typed")
def h_handlers_typed(ch: Chooser, vec: list, maxf: int):
    spec = G.model_from_vector(vec, maxf)
    model = G.Model(spec)
    try:
        exprs = pick_instance(ch, spec, False)
        obj = model.instance(exprs)
        ctx = XmlContext()
        r = call(XmlSerializer(context=ctx, config=SerializerConfig(xml_declaration=False), writer=LxmlEventWriter).render, obj)
        if r[0] == "exc":
            return {"skip": True, "reason": "not serializable (C01/C03 subject)"}
        data = r[1].encode("utf-8")
        case = {"model": model.source.split("XmlTime\n", 1)[-1].strip(), "instance": model.instance_source(exprs), "document": r[1]}
        mk = lambda handler: XmlParser(context=ctx, handler=handler)
        with warnings.catch_warnings():
            warnings.simplefilter("ignore")
            results = parse_all_sources(data, mk, model.root, case)
        bad = compare_sources(results, case, "handlers/typed", cats(spec))
        if bad:
            return bad
        return dict(ok=True, case=case, obs="typed", nontrivial=(G.h(model.source), tuple(exprs)))
    finally:
        model.release()


def run(tier: str, seed: int) -> int:
    t0 = time.time()
    th = tier == "thorough"
    maxf, dm, dv = (3, 3, 2) if th else (2, 3, 1)
    vecs = G.enumerate_models(dm, maxf)
    tasks = []
    for v in vecs:
        tasks.append(("c08.writers", dict(vec=v, maxf=maxf, free_values=True), 0, ()))
        tasks.append(("c08.writers", dict(vec=v, maxf=maxf, free_values=False), dv, ()))
        tasks.append(("c08.handlers.typed", dict(vec=v, maxf=maxf), 1, ()))
    max_elems, bound = (4, 3) if th else (3, 2)
    for mi in range(len(c03.USER_MAPS)):
        tasks.extend(split_deep(("c08.events", dict(mi=mi, max_elems=max_elems), bound, ()), short=3, rounds=2))
    for target in ("tree", "holder"):
        tasks.extend(split_deep(("c08.handlers.generic", dict(max_elems=max_elems, target=target), bound, ()), short=3, rounds=2))
    stats = parallel(tasks, explore_task_split, chunk=4)
    confirm_violations(stats)
    return finish(
        PROP, tier, seed, "model_checking", stats, t0,
        rule=(f"writers: {len(vecs)} G-model models x full product of value alphabets x <= {dv} config deviations -> XmlEventWriter vs LxmlEventWriter vs TreeSerializer infosets; "
              f"and every writer event sequence of the C03 automaton alphabet (<= {max_elems} elements, <= {bound} labels, 12 user prefix maps) -> three writers compared (states = "
              "canonical EventHandler states). handlers: every model's serialized default/one-deviation instance and every G-tree document x 9 infoset-preserving decorations "
              "(comments / PIs between children and inside text, CDATA, character references, Latin-1 declaration, internal entity) x {native, lxml} x {bytes, str, path, file object, "
              "lxml tree/element, ElementTree tree/element}: parsed objects must be equal."),
        assumptions=["indentation compared after dropping whitespace-only text next to elements; mixed/generic content with indentation excluded (documented exception)",
                     "ElementTree sources are given to the native handler only, lxml sources to the lxml handler only (as documented)",
                     "sub-element sources: the document as first child of an envelope element (followed by tail text and a sibling), verbatim and with its root's namespace declarations moved to the envelope"],
        bound={"models": len(vecs), "max_elements": max_elems, "label_deviations": bound},
        extra={"traces_validated_against_impl": stats.executions},
    )
