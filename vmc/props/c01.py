"""C01 -- XML round-trip: parse(render(obj)) == obj for every model x instance x backend x config."""
from __future__ import annotations

import time
import warnings

from .. import gmodel as G
from ..engine import (Chooser, HarnessError, Prune, Stats, call, confirm_violations, explore_task, finish, harness, parallel)
from ..eq import diff, same

from xsdata.exceptions import XmlContextError
from xsdata.formats.dataclass.context import XmlContext
from xsdata.formats.dataclass.parsers import XmlParser
from xsdata.formats.dataclass.parsers.config import ParserConfig
from xsdata.formats.dataclass.parsers.handlers import LxmlEventHandler, XmlEventHandler
from xsdata.formats.dataclass.serializers import XmlSerializer
from xsdata.formats.dataclass.serializers.config import SerializerConfig
from xsdata.formats.dataclass.serializers.writers import LxmlEventWriter, XmlEventWriter

PROP = "C01"
WRITERS = [("native", XmlEventWriter), ("lxml", LxmlEventWriter)]
HANDLERS = [("native", XmlEventHandler), ("lxml", LxmlEventHandler)]


def model_ns(spec: G.ModelSpec):
    return spec.meta_ns or None


CORE_VALUES = 6


def pick_instance(ch: Chooser, spec: G.ModelSpec, free: bool, seed: str | None = None):
    """free=True: full product over the first CORE_VALUES values of every field (the rest of each alphabet is
    reached by the deviation-bounded pass, free=False, which offers every value).
    seed: if given, the first value containing that substring becomes each field's default value (so that
    documents with that construct are the starting point of the deviation-bounded exploration)."""
    exprs = []
    for f in spec.fields:
        vals = G.field_values(spec, f)
        if seed:
            hit = next((v for v in vals if seed in v), None)
            if hit is not None:
                vals = [hit] + [v for v in vals if v != hit]
        if free and len(spec.fields) > 1:
            vals = vals[:CORE_VALUES]
        exprs.append(vals[ch.choose(len(vals), f"{f.name}.value", free)])
    return exprs


def pick_config(ch: Chooser, spec: G.ModelSpec, full: bool = True):
    indent = ch.pick([None, "  "], "cfg.indent")
    decl = ch.pick([True, False], "cfg.declaration") if full else True
    ida = ch.flag("cfg.ignore_default_attributes")
    mns = model_ns(spec) or "urn:m"
    if not full:
        ns_map = ch.pick([None, {None: mns}, {"p": mns}], "cfg.ns_map")
        return dict(indent=indent, xml_declaration=decl, ignore_default_attributes=ida), ns_map
    ns_map = ch.pick([None, {None: mns}, {"p": mns}, {"u": "urn:unused"}, {"xsi": "http://www.w3.org/2001/XMLSchema-instance", "q": "urn:q"},
                      {"": mns}, {None: mns, "x": mns}, {"p": "", "o": "urn:o"},
                      # prefixes of the shape the writer generates itself, bound to something else
                      {"ns1": "urn:unused"}, {"ns0": "urn:unused", "ns2": "urn:other-unused"}], "cfg.ns_map")
    return dict(indent=indent, xml_declaration=decl, ignore_default_attributes=ida), ns_map


def classify(spec: G.ModelSpec, exprs, detail: str, stage: str) -> str:
    """Root-cause bucket: stage + categories/tags of the fields that differ."""
    cats = sorted({f.cat for f in spec.fields})
    return f"{stage}/" + "+".join(cats)


@harness("c01.rt")
def h_rt(ch: Chooser, vec: list, maxf: int, cats=None, free_values: bool = True, mode: str = ""):
    spec = G.model_from_vector(vec, maxf, cats)
    model = G.Model(spec)
    try:
        return _rt(ch, spec, model, free_values, mode)
    finally:
        model.release()


def _rt(ch, spec, model, free_values, mode=""):
    if mode == "config-only":
        exprs = [G.field_values(spec, f)[0] for f in spec.fields]
    else:
        exprs = pick_instance(ch, spec, free_values)
    if not free_values and sum(1 for p in ch.points if p[0].endswith(".value") and p[3]) >= 2:
        # pairs of non-default values are the business of the full-product pass
        return {"skip": True, "reason": "value pair (covered by the product pass)"}
    cfg, ns_map = pick_config(ch, spec, full=(mode != "values-x-config"))
    case = {"model": model.source.split("XmlTime\n", 1)[-1].strip(), "instance": model.instance_source(exprs), "config": cfg, "ns_map": repr(ns_map)}
    b = call(lambda: XmlContext().build_recursive(model.root))
    if b[0] == "exc":
        return dict(ok=False, case=case, bucket="model-rejected/" + "+".join(sorted({f.cat for f in spec.fields})),
                    detail=f"XmlContext.build raised {b[1]!r} on a documented model")
    why = unrepresentable(spec, exprs, cfg, ns_map)
    if why:
        return {"skip": True, "reason": why}
    obj = model.instance(exprs)
    counters = {}
    outs = {}
    # one fresh context per execution, shared by the serializers and parsers of this case (the
    # documented way to use the library); independence from *earlier* use is C14's subject
    ctx = XmlContext()
    for wname, writer in WRITERS:
        ser = XmlSerializer(context=ctx, config=SerializerConfig(**cfg), writer=writer)
        r = call(ser.render, obj, dict(ns_map) if ns_map else None)
        if r[0] == "exc":
            return dict(ok=False, case={**case, "writer": wname}, bucket=f"render-raises/{wname}/" + sig(spec, exprs, r[1]),
                        detail=f"render raised {r[1]!r}")
        outs[wname] = r[1]
        for hname, handler in HANDLERS:
            parser = XmlParser(context=ctx, config=ParserConfig(fail_on_converter_warnings=True, fail_on_unknown_attributes=True), handler=handler)
            with warnings.catch_warnings():
                warnings.simplefilter("error")
                p = call(parser.from_string, r[1], model.root)
            c = {**case, "writer": wname, "handler": hname, "xml": r[1]}
            if p[0] == "exc":
                return dict(ok=False, case=c, bucket=f"parse-raises/{wname}-{hname}/" + sig(spec, exprs, p[1]),
                            detail=f"parsing the serializer's own output raised {p[1]!r}\n{r[1]}")
            if not same(p[1], obj):
                d = diff(obj, p[1])
                return dict(ok=False, case=c, bucket=f"roundtrip/{wname}-{hname}/" + sig(spec, exprs, None, d),
                            detail=f"{d}\n{r[1]}")
            if any("union" in f.tags for f in spec.fields):
                # the default (lenient) configuration must pick the same candidate for a valid document: unions are tried strictly inside
                with warnings.catch_warnings():
                    warnings.simplefilter("ignore")
                    p2 = call(XmlParser(context=ctx, handler=handler).from_string, r[1], model.root)
                if p2[0] == "exc" or not same(p2[1], obj):
                    d = repr(p2[1]) if p2[0] == "exc" else diff(obj, p2[1])
                    return dict(ok=False, case={**c, "parser_config": "default"}, bucket=f"roundtrip-default-config/{wname}-{hname}/" + sig(spec, exprs, None, d if p2[0] != "exc" else None),
                                detail=f"{d}\n{r[1]}")
    nontrivial = (tuple(spec_key(spec)), tuple(exprs))
    return dict(ok=True, case=case, obs=str(len(outs["native"])), nontrivial=nontrivial, counters=counters)


NO_NS_QNAMES = ("QName('a')", "QName('b')", "QEnum.B", "QName('_")


def unrepresentable(spec: G.ModelSpec, exprs, cfg, ns_map) -> str | None:
    """Instances/configurations outside 'values representable in XML 1.0' (each with its reason)."""
    joined = " ".join(exprs)
    if ns_map and (None in ns_map or "" in ns_map):
        if any(q in joined for q in NO_NS_QNAMES):
            return "a no-namespace QName value cannot be written while a user default namespace is in scope"
        if ("Derived(" in joined or "Derived2(" in joined) and spec.module_ns is None:
            return "xsi:type naming a no-namespace type cannot be written while a user default namespace is in scope"
    if cfg["indent"] and any("w:mixed" in f.tags for f in spec.fields):
        return "indentation with mixed content (documented exception)"
    return None


def spec_key(spec: G.ModelSpec):
    return [spec.source_key] if hasattr(spec, "source_key") else [G.h(spec.source())]


ESSENTIAL = {"nillable", "tokens", "tokenlist", "wrapper", "sequence", "xsi", "qname", "enum", "union", "clazz-union", "anytype",
             "text", "attributes", "wildcard", "elements", "model"}


def named_bucket(spec: G.ModelSpec, f, d: str, exc) -> str | None:
    """Predicates over failing case AND wrong outcome for root causes that have been analysed
    (DESIGN.md 2.9); anything that does not match exactly falls through to the generic signature."""
    body = d.split(":", 1)[1].strip() if ":" in d else ""
    if f is not None and f.cat == "element" and "nillable" in f.tags and not ({"tokens"} & f.tags):
        if body.startswith("str '' != NoneType None") or body.startswith("bytes b'' != NoneType None"):
            return "KF/nillable-element-empty-value-becomes-None"
    if f is not None and f.cat == "anytype" and "nillable" in f.tags and body.startswith("NoneType None != AnyElement") and "XMLSchema-instance}nil" in body:
        return "KF/nillable-anytype-None-becomes-AnyElement"
    if f is not None and f.cat == "text" and "tokens" in f.tags and spec.meta_nillable and body.replace("tuple ()", "list []").startswith("list [] != NoneType None"):
        return "KF/nillable-class-empty-token-text-becomes-None"
    if f is not None and f.cat == "model" and "nillable" in f.tags and body.endswith("!= NoneType None") and "=None" in body and ("q=<QName" in body or "a=" in body or "lang='" in body):
        return "KF/nillable-model-with-attributes-only-becomes-None"
    if f is not None and f.cat == "attributes" and "keys" in body and "XMLSchema-instance}nil" in body and spec.meta_nillable:
        return "KF/attribute-map-absorbs-xsi-nil-of-nillable-class"
    seq_arr = [x for x in spec.fields if "sequence" in x.tags and (x.cat == "elements" or "tokens" in x.tags)]
    if seq_arr and (f in seq_arr or (exc is not None and all(x in seq_arr for x in spec.fields))):
        if exc is None or type(exc).__name__ in ("SerializerError", "ParserError"):
            return "KF/sequence-group-with-token-list-or-compound-items"
    return None


def sig(spec: G.ModelSpec, exprs, exc, d: str | None = None, use_named: bool = True) -> str:
    """Root-cause signature: the field (category + essential tags) that differs and the kind of
    difference (leaf types), or the exception type and the categories involved."""
    parts = []
    if d:
        p = d.split(":", 1)[0].strip().lstrip(".")
        fname = p.split(".")[0].split("[")[0]
        f = next((x for x in spec.fields if x.name == fname), None)
        named = named_bucket(spec, f, d, exc) if use_named else None
        if named:
            return named
        if f is not None:
            tg = sorted(t for t in f.tags if t in ESSENTIAL or t.startswith("w:"))
            parts.append(f.cat + "[" + ",".join(tg) + "]")
        else:
            parts.append(p or "root")
        body = d.split(":", 1)[1] if ":" in d else ""
        words = body.split()
        kind = "differs"
        if "length" in words[:1]:
            kind = "length"
        elif "keys" in words[:1]:
            kind = "keys"
        elif "!=" in words:
            i = words.index("!=")
            left, right = words[0], (words[i + 1] if i + 1 < len(words) else "?")
            kind = f"{left}->{right}"
        parts.append(kind)
    if exc is not None:
        named = named_bucket(spec, None, "", exc) if use_named else None
        if named:
            return named
        parts.append(type(exc).__name__)
        parts.append("+".join(sorted({f.cat + ("[" + ",".join(sorted(t for t in f.tags if t in ESSENTIAL)) + "]") for f in spec.fields})))
    return "/".join(parts)


def model_tasks(tier: str, seed: int, maxf: int, dm: int, cats=None, harness_name="c01.rt", extra=None):
    vecs = G.enumerate_models(dm, maxf, cats)
    tasks = []
    for v in vecs:
        params = dict(vec=v, maxf=maxf, cats=cats)
        if extra:
            params.update(extra)
        tasks.append((harness_name, params, None, ()))
    return tasks, len(vecs)


def run(tier: str, seed: int) -> int:
    t0 = time.time()
    th = tier == "thorough"
    maxf, dm, dv = (3, 3, 2) if th else (2, 3, 2)
    vecs = G.enumerate_models(dm, maxf, twins=True)
    tasks = []
    for v in vecs:
        # pass A: full product of the value alphabets under the default configuration
        tasks.append(("c01.rt", dict(vec=v, maxf=maxf, free_values=True), 0, ()))
        if v[-1] == G.TWIN and not th:
            continue  # pairs of equal fields: pass A only in the quick tier
        if th:
            # pass B: <= dv non-default answers among values and the full configuration alphabet together
            tasks.append(("c01.rt", dict(vec=v, maxf=maxf, free_values=False), dv, ()))
        else:
            # pass B (quick): one non-default value x one answer of the reduced configuration alphabet
            tasks.append(("c01.rt", dict(vec=v, maxf=maxf, free_values=False, mode="values-x-config"), dv, ()))
            # pass C (quick): default instance x <= dv answers of the full configuration alphabet
            tasks.append(("c01.rt", dict(vec=v, maxf=maxf, free_values=False, mode="config-only"), dv, ()))
    stats = parallel(tasks, explore_task, chunk=8)
    confirm_violations(stats)
    return finish(
        PROP, tier, seed, "exploration", stats, t0,
        rule=(f"binding models from the G-model grammar with <= {maxf} fields and <= {dm} non-default grammar answers (field category, type, arity, "
              "nillable, namespace, rename, tokens, wrapper, sequence, class Meta options, inheritance, frozen/tuples, name generators); for each model "
              f"the full product of the per-field value alphabets x <= {dv} non-default serializer-config answers (indent, declaration, "
              "ignore_default_attributes, 9 user prefix maps) x {native,lxml} writer x {native,lxml} handler. Distinct non-trivial = distinct (model source, instance)."),
        assumptions=["equality is structural with exact leaf types (True != 1), NaN-aware",
                     "models the documentation calls ambiguous (two wildcards, two Text fields, mixed wildcard with sibling elements) are excluded by construction",
                     "Text fields never hold '' (indistinguishable from no text in the infoset); token items are whitespace-free",
                     "parser runs with fail_on_converter_warnings and warnings-as-errors"],
        bound={"max_fields": maxf, "model_deviations": dm, "config_deviations": dv, "models": len(vecs)},
        extra={"programs": len(vecs)},
    )
