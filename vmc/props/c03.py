"""C03 -- serialized XML is well-formed and says exactly what the metadata says.

Leg 1 (writer automaton): every well-nested event sequence within the bound is fed through the
real XmlEventWriter, LxmlEventWriter and LxmlTreeBuilder under every user prefix map of the
alphabet; the output must be a library error or a namespace-well-formed document whose infoset
is the tree the events denote.  Distinct canonical EventHandler states are counted.

Leg 2 (metadata reading): for G-model models x instances x prefix maps x both writers the output's
infoset must equal the tree produced by an independent reading of the documented metadata
(vmc/refser.py), which never touches XmlMeta / XmlVar / EventGenerator.
"""
from __future__ import annotations

import io
import time
from xml.etree.ElementTree import QName

from lxml import etree

from .. import gmodel as G
from .. import infoset as I
from ..engine import (Chooser, HarnessError, Prune, call, confirm_violations, explore_task, finish, h, harness, parallel)

from xsdata.exceptions import ConverterError, SerializerError, XmlWriterError
from xsdata.formats.dataclass.serializers.config import SerializerConfig
from xsdata.formats.dataclass.serializers.writers import LxmlEventWriter, XmlEventWriter
from xsdata.formats.dataclass.serializers.writers.lxml import LxmlTreeBuilder
from xsdata.utils import namespaces

PROP = "C03"
XSI = I.XSI
XMLNS = I.XMLNS
A, B = "urn:a", "urn:b"

ELEM_NS = [None, A, B, XSI]
ATTRS = [
    None,
    ("k", "v"),
    (f"{{{A}}}k", "v"),
    (f"{{{B}}}k", "v&<\"'"),
    (f"{{{XSI}}}nil", "true"),
    (f"{{{XSI}}}type", f"{{{A}}}T"),        # string starting with "{" on xsi:type -> QName
    ("q", QName(f"{{{A}}}v")),               # QName value, namespace possibly not yet in scope
    ("q", QName(f"{{{B}}}v")),
    ("t", [1, 2]),                           # token list
    (f"{{{XMLNS}}}lang", "en"),
    ("q", QName("plain")),
]
DATA = [None, "", "t", QName(f"{{{A}}}q"), [1, 2], "a&<>\"'b]]>", "x\ry", " \n ", QName(f"{{{B}}}q"), "\rx\r\ry\r"]
HOSTILE_DATA = ["\x01", "a\x0bb", "￾"]  # not XML 1.0 Char: an error is an accepted outcome
TAILS = [None, "tail", " ", "t\r"]

USER_MAPS = [
    {},
    {None: A},
    {None: "urn:unused"},
    {"ns0": "urn:zzz"},                 # collides with the first generated prefix
    {"ns1": "urn:zzz"},                 # collides with the second generated prefix
    {"p": A, "q": A},                   # two prefixes for one URI
    {None: A, "p": A},                  # default + prefix for the same URI
    {"xml": A},                         # reserved prefix
    {"a b": A},                         # syntactically invalid prefix
    {"p": ""},                          # entry with empty URI
    {"xsi": A},                         # the prefix the library generates for a well-known namespace, bound by the user to a namespace in use
    {"xs": B, "xsi": "urn:not-xsi"},
    {None: B, "ns2": A},
    {"x": "http://www.w3.org/XML/1998/namespace"},   # the xml namespace under another prefix (must not be declared)
    {"x": "http://www.w3.org/2000/xmlns/", "p": A},  # the xmlns namespace cannot be declared at all
]


class Node:
    __slots__ = ("qname", "attrs", "data", "kids", "tail")

    def __init__(self):
        self.qname = "e"
        self.attrs = []
        self.data = None
        self.kids = []
        self.tail = None


def gen_tree(ch: Chooser, max_elems: int, hostile: bool):
    """Tree shapes are free choices (always fully enumerated); labels are deviations."""
    count = [1]
    names = iter("abcdefgh")

    def node(depth: int, is_root: bool) -> Node:
        n = Node()
        local = next(names)
        ns = ch.pick(ELEM_NS, f"{local}.ns")
        n.qname = f"{{{ns}}}{local}" if ns else local
        at = ch.pick(ATTRS, f"{local}.attr")
        if at:
            n.attrs.append(at)
            at2 = ch.pick(ATTRS, f"{local}.attr2")
            if at2 and at2[0] != at[0]:
                n.attrs.append(at2)
        data_alpha = DATA + (HOSTILE_DATA if hostile else [])
        n.data = ch.pick(data_alpha, f"{local}.data")
        if not is_root:
            n.tail = ch.pick(TAILS, f"{local}.tail")
        room = max_elems - count[0]
        if room > 0 and depth < 3:
            k = ch.choose(min(room, 2) + 1, f"{local}.kids", free=True)
            count[0] += k
            for _ in range(k):
                n.kids.append(node(depth + 1, False))
        return n

    return node(1, True)


def events(n: Node):
    yield ("start", n.qname)
    for k, v in n.attrs:
        yield ("attr", k, v)
    # the event generator emits a data event for every leaf (even None) and, for elements with
    # children, only when there is text (convert_dataclass emits none; Text fields emit theirs)
    if n.data is not None or not n.kids:
        yield ("data", n.data)
    for c in n.kids:
        yield from events(c)
    yield ("end", n.qname)
    if n.tail:
        yield ("data", n.tail)


def data_text(v):
    """The text a data/attribute value denotes: str as is; QName -> placeholder; list -> tokens."""
    if v is None:
        return None
    if isinstance(v, QName):
        ns, _, local = v.text[1:].partition("}") if v.text[0] == "{" else ("", "", v.text)
        return ("QNAME", ns or None, local)
    if isinstance(v, list):
        return " ".join(str(x) for x in v) if v else None
    return v


def expected(n: Node):
    """The tree the events denote (documented EventHandler contract): xsi:nil survives only on an
    element that ends without data and without children; a str starting with '{' on xsi:type is a QName."""
    attrs = {}
    for k, v in n.attrs:
        if k == f"{{{XSI}}}type" and isinstance(v, str) and v.startswith("{"):
            v = QName(v)
        attrs[k] = data_text(v)
    txt = data_text(n.data)
    has_content = bool(n.kids) or (n.data is not None and not (isinstance(n.data, list) and not n.data))
    # (a data event carrying None, or no data event before the end tag, keeps xsi:nil)
    if has_content:
        attrs.pop(f"{{{XSI}}}nil", None)
    kids = []
    if txt not in (None, ""):
        kids.append(txt)
    for c in n.kids:
        kids.append(expected(c))
        if c.tail:
            kids.append(c.tail)
    return (n.qname, attrs, kids)


def match(exp, act, scope: dict, path="/") -> str | None:
    """Compare expected tree with the scoped actual tree; None if equal else a description."""
    q, attrs, kids = exp
    aq, aattrs, akids, decls = act
    scope = dict(scope)
    for p, u in decls:
        scope[p] = u
    here = path + aq
    if q != aq:
        return f"{path}: element {aq} where {q} was expected"

    def val_eq(e, a):
        if isinstance(e, tuple) and e and e[0] == "OPT":
            return val_eq(e[1], a)
        if isinstance(e, tuple) and e and e[0] == "QNAME-ANYOF":
            return any(val_eq(("QNAME", e[1], n), a) for n in e[2])
        if isinstance(e, tuple) and e and e[0] == "QTOKENS":
            parts = a.split(" ")
            return len(parts) == len(e[1]) and all(val_eq(x, y) for x, y in zip(e[1], parts))
        if isinstance(e, tuple) and e and e[0] == "QNAME":
            _t, ns, local = e
            if ":" in a:
                p, l = a.split(":", 1)
                return l == local and scope.get(p) == ns and ns is not None
            # unprefixed QName value resolves against the default namespace
            return a == local and (scope.get(None) or None) == ns
        return e == a

    required = {k for k, v in attrs.items() if not (isinstance(v, tuple) and v and v[0] == "OPT")}
    if not (required <= set(aattrs) <= set(attrs)):
        return f"{here}: attributes {sorted(aattrs)} where {sorted(attrs)} were expected"
    for k in aattrs:
        if not val_eq(attrs[k], aattrs[k]):
            return f"{here}/@{k}: value {aattrs[k]!r} (scope {scope}) where {attrs[k]!r} was expected"
    # merge adjacent strings of expected
    ek = []
    for k in kids:
        if isinstance(k, str) and ek and isinstance(ek[-1], str):
            ek[-1] += k
        else:
            ek.append(k)
    if len(ek) != len(akids):
        return f"{here}: children {[c if isinstance(c, str) else c[0] for c in akids]} where {[c if isinstance(c, (str,)) else (c[0] if not (isinstance(c, tuple) and c[0] == 'QNAME') else c) for c in ek]} were expected"
    for e, a in zip(ek, akids):
        if isinstance(e, tuple) and e and e[0] in ("QNAME", "QTOKENS"):
            if not isinstance(a, str) or not val_eq(e, a):
                return f"{here}: text {a!r} (scope {scope}) where QName {e[1:]} was expected"
        elif isinstance(e, str):
            if e != a:
                return f"{here}: text {a!r} where {e!r} was expected"
        else:
            if isinstance(a, str):
                return f"{here}: text {a!r} where element {e[0]} was expected"
            r = match(e, a, scope, here + "/")
            if r:
                return r
    return None


def handler_state(w) -> tuple:
    """Canonical EventHandler state (all slots that belong to the state machine)."""
    return (bool(w.in_tail), w.tail is not None, tuple(sorted((str(k), str(v)) for k, v in w.attrs.items())) != (), len(w.ns_context),
            w.pending_tag is not None, tuple(sorted((str(p), u) for p, u in w.ns_map.items())), len(w.pending_prefixes))


LIB_ERRORS = (XmlWriterError, SerializerError, ConverterError)


def run_writer(kind: str, evs: list, user_map: dict, states: set, trans: list):
    cfg = SerializerConfig(xml_declaration=False)
    ns_map = namespaces.clean_prefixes(dict(user_map)) if user_map else {}
    if kind == "tree":
        w = LxmlTreeBuilder(config=cfg, ns_map=ns_map)
    else:
        out = io.StringIO()
        w = (XmlEventWriter if kind == "native" else LxmlEventWriter)(config=cfg, output=out, ns_map=ns_map)

    def traced():
        prev = handler_state(w)
        states.add(prev)
        for ev in evs:
            yield ev
            cur = handler_state(w)
            states.add(cur)
            trans[0] += 1
            prev = cur

    if kind == "tree":
        t = w.build(traced())
        return etree.tostring(t, encoding="unicode")
    w.write(traced())
    return out.getvalue()


@harness("c03.events")
def h_events(ch: Chooser, mi: int, max_elems: int, hostile: bool):
    user_map = USER_MAPS[mi]
    tree = gen_tree(ch, max_elems, hostile)
    evs = list(events(tree))
    if None in user_map and any("QName 'plain'" in repr(e) for e in evs):
        return {"skip": True, "reason": "a no-namespace QName value cannot be written while a user default namespace is in scope"}
    exp = expected(tree)
    case = {"user_map": repr(user_map), "events": [repr(e) for e in evs]}
    states: set = set()
    trans = [0]
    outs = {}
    for kind in ("native", "lxml", "tree"):
        r = call(run_writer, kind, evs, user_map, states, trans)
        c = {**case, "writer": kind}
        if r[0] == "exc":
            e = r[1]
            if isinstance(e, LIB_ERRORS) or (kind != "native" and isinstance(e, ValueError)):
                outs[kind] = ("error", type(e).__name__)
                continue
            return dict(ok=False, case=c, bucket=f"events/{kind}/raises-{type(e).__name__}/" + map_kind(user_map),
                        detail=f"{kind} writer raised {e!r} (not a serializer error) for user map {user_map}", states=[h(s) for s in states], transitions=trans[0])
        text = r[1]
        c["xml"] = text
        try:
            act = I.parse_scoped(text)
        except I.NotWellFormed as e:
            return dict(ok=False, case=c, bucket=f"events/{kind}/not-well-formed/" + nwf_kind(str(e), tree) + "/" + map_kind(user_map),
                        detail=f"{e}\n{text}", states=[h(s) for s in states], transitions=trans[0])
        m = match(exp, act, {})
        if m:
            return dict(ok=False, case=c, bucket=f"events/{kind}/wrong-infoset/" + diff_kind(m) + "/" + map_kind(user_map),
                        detail=f"{m}\n{text}", states=[h(s) for s in states], transitions=trans[0])
        outs[kind] = ("ok", I._freeze(act[:3]) if False else text)
    nontrivial = h((mi, [repr(e) for e in evs])) if len(evs) > 3 or user_map else None
    return dict(ok=True, case=case, obs=h(sorted((k, v[0]) for k, v in outs.items())), nontrivial=nontrivial,
                states=[h(s) for s in states], transitions=trans[0])


def map_kind(m: dict) -> str:
    if not m:
        return "no-map"
    ks = []
    for p, u in m.items():
        if p is None:
            ks.append("default")
        elif p.startswith("ns") and p[2:].isdigit():
            ks.append("nsN-collision")
        elif p in ("xml", "xsi"):
            ks.append(f"reserved-{p}")
        elif " " in p:
            ks.append("invalid-prefix")
        elif not u:
            ks.append("empty-uri")
        else:
            ks.append("prefix")
    return "+".join(sorted(set(ks)))


def nwf_kind(msg: str, tree) -> str:
    if "unbound prefix" in msg or "Namespace prefix" in msg:
        return "unbound-prefix"
    if "invalid token" in msg or "PCDATA invalid Char" in msg or "not well-formed" in msg:
        return "invalid-char-or-token"
    if "duplicate" in msg.lower() or "redefined" in msg.lower():
        return "duplicate-attribute"
    return "other"


def diff_kind(m: str) -> str:
    if "/@" in m:
        return "attribute-value"
    if "attributes" in m:
        return "attribute-set"
    if ": element " in m:
        return "element-name"
    if "children" in m:
        return "children"
    return "text"


def run(tier: str, seed: int) -> int:
    from . import c03meta
    t0 = time.time()
    th = tier == "thorough"
    max_elems, bound = (4, 3) if th else (3, 2)
    tasks = []
    for mi in range(len(USER_MAPS)):
        tasks.append(("c03.events", dict(mi=mi, max_elems=max_elems, hostile=True), bound, ()))
    from ..engine import split_deep, explore_task_split
    split = []
    for t in tasks:
        split.extend(split_deep(t, short=3, rounds=2))
    meta_tasks, nmodels = c03meta.tasks(th)
    stats = parallel(split + meta_tasks, explore_task_split, chunk=2)
    confirm_violations(stats)
    return finish(
        PROP, tier, seed, "model_checking", stats, t0,
        rule=(f"leg 1: every well-nested event sequence start attr* data children end [tail] over all tree shapes with <= {max_elems} elements (depth <= 3) and <= {bound} "
              f"non-default labels (element namespace of 4, 11 attribute kinds, 12 data kinds incl. hostile text, tails) x {len(USER_MAPS)} user prefix maps, through XmlEventWriter, "
              "LxmlEventWriter and LxmlTreeBuilder; states = distinct canonical EventHandler states (in_tail, tail, attrs, ns_context depth, pending_tag, ns_map, pending_prefixes), "
              f"transitions = events fed. leg 2: {nmodels} G-model models x instances x prefix maps x both writers against an independent reference serializer. "
              "Non-trivial = sequence with more than one element/label or a non-empty user map."),
        assumptions=["expat and strict libxml2 are the judges of well-formedness and of the infoset",
                     "vmc/refser.py is an independent reading of docs/models/*.md (names, namespace inheritance, order, sequence interleaving, wrappers, tokens, nil/type markers)",
                     "a library error (XmlWriterError / SerializerError / ConverterError, or ValueError raised by lxml itself) is an accepted outcome for user maps and hostile text"],
        bound={"max_elements": max_elems, "label_deviations": bound, "user_maps": len(USER_MAPS), "leg2_models": nmodels},
        extra={"traces_validated_against_impl": stats.executions},
    )
