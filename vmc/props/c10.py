"""C10 -- strictness options do what they say.

(model, document) x every child slot of every class-bound element x unknown-element shapes, every
class-bound element x unknown attributes, every typed leaf corrupted -- x all 8 combinations of the
three fail_on_* flags, both handlers; and the same for dictionary / JSON input.  Oracle: the decision
table of the property statement, evaluated against the un-injected parse.
"""
from __future__ import annotations

import itertools
import json
import time
import warnings

from .. import gmodel as G
from .. import infoset as I
from ..engine import Chooser, HarnessError, call, confirm_violations, explore_task, finish, h, harness, parallel
from ..eq import diff, same
from .c01 import pick_instance
from .c09 import _write

from xsdata.exceptions import ConverterWarning, ParserError
from xsdata.formats.dataclass.context import XmlContext
from xsdata.formats.dataclass.parsers import DictDecoder, JsonParser, XmlParser
from xsdata.formats.dataclass.parsers.config import ParserConfig
from xsdata.formats.dataclass.parsers.handlers import LxmlEventHandler, XmlEventHandler
from xsdata.formats.dataclass.serializers import DictEncoder, XmlSerializer
from xsdata.formats.dataclass.serializers.config import SerializerConfig
from xsdata.formats.dataclass.serializers.writers import LxmlEventWriter

PROP = "C10"
HANDLERS = [("native", XmlEventHandler), ("lxml", LxmlEventHandler)]
# models in which "unknown" is decidable from the field list alone: no generic content that admits arbitrary names
CATS = ["element", "attribute", "text", "model", "union", "elements"]
XSI = I.XSI
FLAGS = list(itertools.product([True, False], repeat=3))  # (unknown_properties, unknown_attributes, converter_warnings)

UNKNOWN_ELEMENTS = [
    ("empty", lambda known: I.El("zz-unknown")),
    ("text", lambda known: I.El("zz-unknown", kids=["some text"])),
    ("known-name-inside", lambda known: I.El("zz-unknown", kids=[I.El(known, kids=["1"])])),
    ("deep", lambda known: I.El("zz-unknown", kids=[I.El("a", kids=[I.El("b", attrs=[("k", "v")], kids=["t", I.El(known)]), "tail"])])),
    ("foreign-ns", lambda known: I.El("u:zz", {"u": "urn:unknown-ns"}, kids=[I.El("u:y", kids=["t"])])),
    ("xsi-typed", lambda known: I.El("zz-unknown", {"xsi": XSI, "xs": I.XS}, [("xsi:type", "xs:int")], ["5"])),
    # an element whose name is a field of the ROOT class, placed where it is not known (nested model, wrapper)
    ("root-field-name", lambda known: I.El(known, kids=["1"])),
]
UNKNOWN_ATTRS = [
    ("plain", None, ("zz-unknown", "v"), False),
    ("namespaced", {"u": "urn:unknown-ns"}, ("u:zz", "v"), False),
    ("xsi-schemaLocation", {"xsi": XSI}, ("xsi:schemaLocation", "urn:a a.xsd"), True),
    ("xsi-arbitrary", {"xsi": XSI}, ("xsi:zz-unknown", "v"), True),
]
CORRUPTIBLE = {"int", "bool", "float", "Decimal", "XmlDate", "XmlDateTime", "XmlTime", "XmlDuration", "XmlPeriod", "bytes16", "Num"}
MODEL_ELEMENT_ONLY = {"m:Child", "m:NsChild", "m:Inner"}


def field_names(f: G.FieldSpec):
    nm = f.meta.get("name")
    return {eval(nm)} if nm else {f.name}


def class_bound(root: I.El, spec: G.ModelSpec) -> list[I.El]:
    """Elements bound to a class with element-only content: the root and its direct children that belong
    to a model field whose class has no text content."""
    if any(f.cat == "text" for f in spec.fields):
        out = []
    else:
        out = [root]
    if spec.elem_gen:
        return out  # child element names are re-spelled by the generator; keep to the root
    for f in spec.fields:
        if f.cat == "model" and (f.tags & MODEL_ELEMENT_ONLY) and "wrapper" not in f.tags:
            for k in root.kids:
                if isinstance(k, I.El) and k.local in field_names(f) and not any(a[0] == "xsi:nil" for a in k.attrs):
                    out.append(k)
        elif f.cat == "union" and "clazz-union" in f.tags:
            # an element bound to one of several model classes (all with element-only content)
            for k in root.kids:
                if isinstance(k, I.El) and k.local in field_names(f) and any(isinstance(c, I.El) for c in k.kids):
                    out.append(k)
        if "wrapper" in f.tags:
            # the wrapper element: only its item element is known inside it
            for k in root.kids:
                if isinstance(k, I.El) and k.local.startswith("wrap"):
                    out.append(k)
    return out


def injections(root: I.El, spec: G.ModelSpec) -> list[tuple]:
    out = []
    cb = class_bound(root, spec)
    all_els = list(root.iter())
    plain = [f for f in spec.fields if f.cat in ("element", "model", "union") and "wrapper" not in f.tags]
    known = next(iter(field_names(plain[-1]))) if plain else "zz-none"
    for e in cb:
        i = all_els.index(e)
        if any(isinstance(k, str) and k.strip() for k in e.kids):
            continue
        for g in range(len(e.kids) + 1):
            for si in range(len(UNKNOWN_ELEMENTS)):
                if UNKNOWN_ELEMENTS[si][0] == "root-field-name" and (e is root or known == "zz-none"):
                    continue
                out.append(("element", i, g, si, known))
    for e in ([root] + [x for x in cb if x is not root and not x.local.startswith("wrap")]):
        i = all_els.index(e)
        for ai in range(len(UNKNOWN_ATTRS)):
            out.append(("attribute", i, ai))
    if not spec.elem_gen and not spec.attr_gen:
        for f in spec.fields:
            tkey = next((t[2:] for t in f.tags if t.startswith("t:")), None)
            if tkey in CORRUPTIBLE and "tokens" not in f.tags and f.cat in ("element", "attribute") and "samename" not in f.tags:
                out.append(("corrupt", f.name))
                if not tkey.startswith("bytes"):
                    out.append(("corrupt", f.name, " "))   # a blank is not a value of these types either (it is the empty binary value)
    return out


def inject(root: I.El, inj: tuple, spec: G.ModelSpec):
    r = root.copy()
    all_els = list(r.iter())
    if inj[0] == "element":
        _, i, g, si, known = inj
        e = all_els[i]
        new = UNKNOWN_ELEMENTS[si][1](known)
        # "no namespace" unknown element under a default namespace would become namespaced-but-still-unknown: fine either way
        e.kids.insert(g, new)
        return r, {"kind": "element", "shape": UNKNOWN_ELEMENTS[si][0]}
    if inj[0] == "attribute":
        _, i, ai = inj
        name, decl, attr, is_xsi = UNKNOWN_ATTRS[ai]
        e = all_els[i]
        for p, u in (decl or {}).items():
            if e.nsdecls.get(p, u) != u or any(x.nsdecls.get(p, u) != u for x in all_els):
                return None, None
            e.nsdecls[p] = u
        if any(a[0] == attr[0] for a in e.attrs):
            return None, None
        e.attrs.append(attr)
        return r, {"kind": "attribute", "shape": name, "xsi": is_xsi}
    fname = inj[1]
    raw = inj[2] if len(inj) > 2 else "not-a-value!"
    f = next(x for x in spec.fields if x.name == fname)
    names = field_names(f)
    done = 0
    if f.cat == "attribute":
        for j, (k, v) in enumerate(r.attrs):
            if k.split(":")[-1] in names and not k.startswith("xsi:"):
                r.attrs[j] = (k, raw)
                done += 1
    else:
        for c in r.kids:
            if isinstance(c, I.El) and c.local in names and len(c.kids) == 1 and isinstance(c.kids[0], str):
                c.kids[0] = raw
                done += 1
                break
    if done != 1:
        return None, None
    return r, {"kind": "corrupt", "field": fname, "raw": raw}


def replace_leaf(obj, fname, raw):
    """Expected object when a corrupted value is 'kept as given'."""
    import copy
    import dataclasses
    v = getattr(obj, fname)
    if isinstance(v, (list, tuple)) and not hasattr(v, "_fields"):
        nv = type(v)([raw] + list(v[1:]))
    else:
        nv = raw
    return dataclasses.replace(obj, **{fname: nv})


@harness("c10.xml")
def h_xml(ch: Chooser, vec: list, maxf: int):
    spec = G.model_from_vector(vec, maxf, CATS)
    if any("wildcard" in f.tags for f in spec.fields):
        return {"skip": True, "reason": "a wildcard choice admits arbitrary names: 'unknown' is not decidable from the field list"}
    model = G.Model(spec)
    try:
        exprs = pick_instance(ch, spec, False)
        obj = model.instance(exprs)
        ctx = XmlContext()
        r = call(XmlSerializer(context=ctx, config=SerializerConfig(xml_declaration=False), writer=LxmlEventWriter).render, obj)
        if r[0] == "exc":
            return {"skip": True, "reason": "not serializable (C01/C03 subject)"}
        original = r[1]
        root = I.from_text(original)
        injs = injections(root, spec)
        k = ch.choose(len(injs) + 1, "injection")
        fi = ch.choose(len(FLAGS), "flags", free=True)
        fup, fua, fcw = FLAGS[fi]
        cfg = ParserConfig(fail_on_unknown_properties=fup, fail_on_unknown_attributes=fua, fail_on_converter_warnings=fcw)
        case = {"model": model.source.split("XmlTime\n", 1)[-1].strip(), "instance": model.instance_source(exprs), "original": original,
                "flags": {"fail_on_unknown_properties": fup, "fail_on_unknown_attributes": fua, "fail_on_converter_warnings": fcw}}
        if k == 0:
            doc, info = original, {"kind": "none"}
        else:
            newroot, info = inject(root, injs[k - 1], spec)
            if newroot is None:
                return {"skip": True, "reason": "injection not applicable"}
            doc = _write(newroot)
            try:
                I.canonical(doc)
            except I.NotWellFormed as e:
                raise HarnessError(f"injected document not well-formed: {e}\n{doc}")
        case["document"] = doc
        case["injection"] = info
        for hname, handler in HANDLERS:
            with warnings.catch_warnings():
                warnings.simplefilter("error")
                base = call(XmlParser(context=ctx, config=ParserConfig(fail_on_converter_warnings=True), handler=handler).from_string, original, model.root)
            if base[0] == "exc":
                return {"skip": True, "reason": "original does not parse strictly (C01 subject)"}
            with warnings.catch_warnings(record=True) as wlist:
                warnings.simplefilter("always")
                got = call(XmlParser(context=ctx, config=cfg, handler=handler).from_string, doc, model.root)
            warned = [w for w in wlist if issubclass(w.category, ConverterWarning)]
            c = {**case, "handler": hname}
            kind = info["kind"]
            flagstr = f"up={int(fup)},ua={int(fua)},cw={int(fcw)}"

            def bad(what, detail):
                return dict(ok=False, case=c, bucket=f"xml/{kind}/{info.get('shape', info.get('field', ''))if kind != 'corrupt' else 'leaf'}/{what}/{hname}",
                            detail=f"[{flagstr}] {detail}\n{doc}")

            if kind in ("none",):
                if got[0] == "exc" or not same(got[1], base[1]) or warned:
                    return bad("valid-document-affected-by-flags", f"{got[1]!r} vs {base[1]!r} warnings={len(warned)}")
            elif kind == "element":
                if fup:
                    if not (got[0] == "exc" and isinstance(got[1], ParserError)):
                        return bad("strict-did-not-raise-ParserError", f"got {got[1]!r}")
                else:
                    if got[0] == "exc":
                        return bad("lenient-raised", f"{got[1]!r}")
                    if not same(got[1], base[1]):
                        return bad("lenient-object-changed", f"{diff(base[1], got[1])}")
            elif kind == "attribute":
                must_raise = fua and not info["xsi"]
                if must_raise:
                    if not (got[0] == "exc" and isinstance(got[1], ParserError)):
                        return bad("strict-attrs-did-not-raise-ParserError", f"got {got[1]!r}")
                else:
                    if got[0] == "exc":
                        return bad("tolerated-attribute-raised", f"{got[1]!r}")
                    if not same(got[1], base[1]):
                        return bad("tolerated-attribute-changed-object", f"{diff(base[1], got[1])}")
            else:
                if fcw:
                    if not (got[0] == "exc" and isinstance(got[1], ParserError)):
                        return bad("strict-conversion-did-not-raise-ParserError", f"got {got[1]!r}")
                else:
                    if got[0] == "exc":
                        return bad("lenient-conversion-raised", f"{got[1]!r}")
                    if not warned:
                        return bad("no-ConverterWarning", f"got {got[1]!r}")
                    # the same document again (same process, fresh parser): it must warn every time
                    with warnings.catch_warnings(record=True) as wl2:
                        warnings.simplefilter("always")
                        again = call(XmlParser(context=ctx, config=cfg, handler=handler).from_string, doc, model.root)
                    if again[0] == "exc" or not [w for w in wl2 if issubclass(w.category, ConverterWarning)]:
                        return bad("no-ConverterWarning", f"second parse of the same document in this process: got {again[1]!r} without a warning")
                    exp = replace_leaf(base[1], info["field"], info.get("raw", "not-a-value!"))
                    if not same(got[1], exp):
                        return bad("value-not-kept-as-given", f"{diff(exp, got[1])}")
        return dict(ok=True, case=case, obs=f"{info['kind']}", nontrivial=h((doc, fi)) if k else None, counters={"inj:" + info["kind"]: 1})
    finally:
        model.release()


@harness("c10.dict")
def h_dict(ch: Chooser, vec: list, maxf: int):
    spec = G.model_from_vector(vec, maxf, CATS)
    if sum(1 for f in spec.fields if "samename" in f.tags) > 1:
        return {"skip": True, "reason": "duplicate JSON keys"}
    model = G.Model(spec)
    try:
        exprs = pick_instance(ch, spec, False)
        obj = model.instance(exprs)
        ctx = XmlContext()
        e = call(DictEncoder(context=ctx).encode, obj)
        if e[0] == "exc":
            return {"skip": True, "reason": "not encodable (C04 subject)"}
        data = e[1]
        b = call(DictDecoder(context=ctx, config=ParserConfig(fail_on_converter_warnings=True)).decode, data, model.root)
        if b[0] == "exc" or not same(b[1], obj):
            return {"skip": True, "reason": "does not round-trip (C04 subject)"}
        kinds = ["none", "unknown-key", "unknown-key-dict", "unknown-key-list", "unknown-key-null", "unknown-key-nested"]
        corrupt = [f for f in spec.fields if next((t[2:] for t in f.tags if t.startswith("t:")), None) in ("int", "bool", "float", "Decimal", "XmlDate", "Num")
                   and "tokens" not in f.tags and "list" not in f.tags and f.cat in ("element", "attribute") and not spec.elem_gen and not spec.attr_gen
                   and not f.meta.get("name") and "wrapper" not in f.tags]
        kinds += [f"corrupt:{f.name}" for f in corrupt] + [f"corrupt:{f.name}:blank" for f in corrupt]
        # a JSON value of another JSON type: `true` where a number or date is declared (bool is a subclass of int in Python)
        kinds += [f"corrupt:{f.name}:json-bool" for f in corrupt if next((t[2:] for t in f.tags if t.startswith("t:")), None) != "bool"]
        kind = ch.pick(kinds, "injection")
        fi = ch.choose(len(FLAGS), "flags", free=True)
        fup, fua, fcw = FLAGS[fi]
        cfg = ParserConfig(fail_on_unknown_properties=fup, fail_on_unknown_attributes=fua, fail_on_converter_warnings=fcw)
        d2 = dict(data)
        if kind == "unknown-key":
            d2["zz_unknown"] = "v"
        elif kind == "unknown-key-dict":
            d2["zz_unknown"] = {"a": 1, next(iter(data), "x"): [1, 2]}
        elif kind == "unknown-key-list":
            d2["zz_unknown"] = [{"a": 1}, 2]
        elif kind == "unknown-key-null":
            d2["zz_unknown"] = None
        elif kind == "unknown-key-nested":
            tgt = next((k for k, v in d2.items() if isinstance(v, dict) and "qname" not in v), None)
            if tgt is None:
                return {"skip": True, "reason": "no nested object"}
            d2[tgt] = dict(d2[tgt], zz_unknown=None)
        elif kind.startswith("corrupt:"):
            fname = kind.split(":")[1]
            if fname not in d2 or d2[fname] is None:
                return {"skip": True, "reason": "nothing to corrupt"}
            raw = " " if kind.endswith(":blank") else (True if kind.endswith(":json-bool") else "not-a-value!")
            d2[fname] = raw
        case = {"model": model.source.split("XmlTime\n", 1)[-1].strip(), "instance": model.instance_source(exprs), "data": repr(d2), "injection": kind,
                "flags": {"fail_on_unknown_properties": fup, "fail_on_unknown_attributes": fua, "fail_on_converter_warnings": fcw}}
        for route in ("dict", "json"):
            with warnings.catch_warnings(record=True) as wlist:
                warnings.simplefilter("always")
                if route == "dict":
                    got = call(DictDecoder(context=ctx, config=cfg).decode, d2, model.root)
                else:
                    got = call(JsonParser(context=ctx, config=cfg).from_string, json.dumps(d2), model.root)
            warned = [w for w in wlist if issubclass(w.category, ConverterWarning)]
            flagstr = f"up={int(fup)},ua={int(fua)},cw={int(fcw)}"

            def bad(what, detail):
                return dict(ok=False, case={**case, "route": route}, bucket=f"{route}/{kind.split(':')[0]}/{what}", detail=f"[{flagstr}] {detail}\n{d2!r}")

            if kind == "none":
                if got[0] == "exc" or not same(got[1], obj) or warned:
                    return bad("valid-input-affected-by-flags", f"{got[1]!r}")
            elif kind.startswith("unknown-key"):
                if fup:
                    if not (got[0] == "exc" and isinstance(got[1], ParserError)):
                        return bad("strict-did-not-raise-ParserError", f"got {got[1]!r}")
                elif got[0] == "exc" or not same(got[1], obj):
                    if kind == "unknown-key-nested" and got[0] == "exc" and isinstance(got[1], ParserError) and "Failed to bind object with properties(" in str(got[1]) and "zz_unknown" in str(got[1]):
                        return dict(ok=False, case={**case, "route": route}, bucket="KF/lenient-dict-decoding-rejects-unknown-keys-in-best-match-objects",
                                    detail=f"[{flagstr}] {got[1]!r}\n{d2!r}")
                    return bad("lenient-affected", f"{got[1]!r}")
            else:
                fname = kind.split(":")[1]
                if fcw:
                    if not (got[0] == "exc" and isinstance(got[1], ParserError)):
                        return bad("strict-conversion-did-not-raise-ParserError", f"got {got[1]!r}")
                else:
                    if got[0] == "exc":
                        return bad("lenient-conversion-raised", f"{got[1]!r}")
                    if not warned:
                        return bad("no-ConverterWarning", f"{got[1]!r}")
                    with warnings.catch_warnings(record=True) as wl2:
                        warnings.simplefilter("always")
                        call(DictDecoder(context=ctx, config=cfg).decode, d2, model.root)
                    if not [w for w in wl2 if issubclass(w.category, ConverterWarning)]:
                        return bad("no-ConverterWarning", f"second decode of the same data in this process gave no warning: {got[1]!r}")
                    exp = replace_leaf(obj, fname, raw)
                    # (a JSON `true` may be kept as it is or in its lexical form 'true': the options only say warn or fail)
                    if not same(got[1], exp) and not (raw is True and same(got[1], replace_leaf(obj, fname, "true"))):
                        return bad("value-not-kept-as-given", diff(exp, got[1]))
        return dict(ok=True, case=case, obs=kind.split(":")[0], nontrivial=h((repr(d2), fi)) if kind != "none" else None)
    finally:
        model.release()


RW_ELEMENTS = [("urn:x", "zz"), ("urn:t", "zz"), (None, "zz"), ("urn:y", "other")]
RW_ATTRS = [("urn:attr", "k"), ("urn:x", "k"), (None, "k")]


@harness("c10.restricted-wildcards")
def h_restricted(ch: Chooser):
    """One name, two fields: an open wildcard / attribute map inside <open> and namespace-restricted ones on the root.  Whether an
    injected element or attribute is unknown depends on where it stands; the reference is the documented namespace constraint."""
    from ..models import shared as M
    fup, fua = ch.flag("fail_on_unknown_properties", free=True), ch.flag("fail_on_unknown_attributes", free=True)
    # up to two injected elements and two injected attributes, each at the root or under <open>
    n_el = ch.choose(3, "injected-elements", free=True)
    els = [(RW_ELEMENTS[ch.choose(len(RW_ELEMENTS), f"el{i}.name", free=True)], ch.pick(["open", "root"], f"el{i}.where", free=True)) for i in range(n_el)]
    n_at = ch.choose(2, "injected-attributes", free=True)
    ats = [(RW_ATTRS[ch.choose(len(RW_ATTRS), f"at{i}.name", free=True)], ch.pick(["open", "root"], f"at{i}.where", free=True)) for i in range(n_at)]
    root = I.El("t:restricted", nsdecls={"t": "urn:t", "x": "urn:x", "y": "urn:y", "a": "urn:attr"})
    opn = I.El("t:open")
    root.kids.append(opn)
    pfx = {"urn:x": "x", "urn:t": "t", "urn:y": "y", "urn:attr": "a"}
    for (ns, name), where in els:
        (opn if where == "open" else root).kids.append(I.El(f"{pfx[ns]}:{name}" if ns else name, kids=["v"]))
    for (ns, name), where in ats:
        tgt = opn if where == "open" else root
        q = f"{pfx[ns]}:{name}" if ns else name
        if any(a[0] == q for a in tgt.attrs):
            return {"skip": True, "reason": "same attribute twice"}
        tgt.attrs.append((q, "av"))
    doc = root.write()
    # reference (docs/models/fields.md): ##other admits "any namespace other than the parent's namespace" -- unqualified names included,
    # as everywhere else in the checks; the attribute map admits urn:attr only
    unknown_el = [(ns, name) for (ns, name), where in els if where == "root" and ns == "urn:t"]
    unknown_at = [(ns, name) for (ns, name), where in ats if where == "root" and ns != "urn:attr"]
    case = {"document": doc, "flags": {"fail_on_unknown_properties": fup, "fail_on_unknown_attributes": fua}}
    cfg = ParserConfig(fail_on_unknown_properties=fup, fail_on_unknown_attributes=fua)
    for hname, handler in HANDLERS:
        got = call(XmlParser(context=XmlContext(), config=cfg, handler=handler).from_string, doc, M.Restricted)
        must_fail = (fup and unknown_el) or (fua and unknown_at)
        c = {**case, "handler": hname}
        if must_fail:
            if not (got[0] == "exc" and isinstance(got[1], ParserError)):
                return dict(ok=False, case=c, bucket=f"restricted-wildcards/strict-did-not-raise-ParserError/{hname}", detail=f"unknown here: {unknown_el + unknown_at}; got {got[1]!r}\n{doc}")
            continue
        if got[0] == "exc":
            return dict(ok=False, case=c, bucket=f"restricted-wildcards/lenient-or-known-raised/{hname}", detail=f"{got[1]!r}\n{doc}")
        obj = got[1]
        want_other = [(f"{{{ns}}}{name}" if ns else name) for (ns, name), where in els if where == "root" and ns != "urn:t"]
        want_open = [(f"{{{ns}}}{name}" if ns else name) for (ns, name), where in els if where == "open"]
        got_other = [getattr(x, "qname", None) for x in obj.other]
        got_open = [getattr(x, "qname", None) for x in (obj.open.any if obj.open else [])]
        want_oattrs = sorted(f"{{{ns}}}{name}" for (ns, name), where in ats if where == "root" and ns == "urn:attr")
        want_open_attrs = sorted((f"{{{ns}}}{name}" if ns else name) for (ns, name), where in ats if where == "open")
        if (got_other, got_open, sorted(obj.oattrs), sorted(obj.open.attrs if obj.open else [])) != (want_other, want_open, want_oattrs, want_open_attrs):
            return dict(ok=False, case=c, bucket=f"restricted-wildcards/content-in-the-wrong-field/{hname}",
                        detail=f"other {got_other} (want {want_other}), open.any {got_open} (want {want_open}), oattrs {sorted(obj.oattrs)} (want {want_oattrs}), "
                               f"open.attrs {sorted(obj.open.attrs if obj.open else [])} (want {want_open_attrs})\n{doc}")
    return dict(ok=True, case=case, obs="restricted", nontrivial=h(doc), counters={"inj:restricted-wildcards": 1})


def run(tier: str, seed: int) -> int:
    t0 = time.time()
    th = tier == "thorough"
    maxf, dm = (2, 3) if th else (2, 2)
    vecs = G.enumerate_models(dm, maxf, CATS)
    if not th:
        # plus the models one deviation further that contain the constructs injections interact with
        seen = {tuple(v) for v in vecs}
        for v in G.enumerate_models(dm + 1, maxf, CATS):
            if tuple(v) in seen:
                continue
            spec = G.model_from_vector(v, maxf, CATS)
            tags = set().union(*[f.tags for f in spec.fields])
            if len(spec.fields) == 2 and ({"wrapper", "clazz-union"} & tags):
                vecs.append(v)
    tasks = []
    for v in vecs:
        tasks.append(("c10.xml", dict(vec=v, maxf=maxf), 1, ()))
        tasks.append(("c10.dict", dict(vec=v, maxf=maxf), 1, ()))
    from ..engine import explore_task_split, split_first
    tasks.extend(split_first(("c10.restricted-wildcards", {}, None, ())))
    stats = parallel(tasks, explore_task_split, chunk=4)
    confirm_violations(stats)
    return finish(
        PROP, tier, seed, "exploration", stats, t0,
        rule=("a model with an open wildcard / attribute map under <open> and namespace-restricted ones (##other, one uri) on the root x every document with <= 2 injected elements "
              "(4 names) and <= 1 injected attribute (3 names), each at the root or under <open>, x 4 flag combinations x both handlers, judged by the documented namespace constraints; "
              f"{len(vecs)} G-model models without generic content x (default instance or one value deviation, or one injection): unknown elements of 6 shapes (empty, text, containing a "
              "name known elsewhere in the model, 3-deep subtree, foreign namespace, xsi:type'd) at every child slot of every class-bound element; unknown attributes of 4 kinds (plain, "
              "namespaced, xsi:schemaLocation, arbitrary xsi:*) on every class-bound element; every typed leaf corrupted -- each x all 8 combinations of fail_on_unknown_properties / "
              "fail_on_unknown_attributes / fail_on_converter_warnings (free dimension) x both handlers; dictionary and JSON input with unknown keys (scalar, object, array) and uncastable values."),
        assumptions=["'unknown' is decided from the field list: injected names match no field, choice or wildcard (models with wildcards / anyType / attribute maps are excluded)",
                     "attributes on simple-typed elements are not judged (the property only says attributes fail 'only when' the option is enabled)"],
        bound={"models": len(vecs), "injections_per_document": 1, "flag_combinations": 8},
        extra={"programs": len(vecs)},
    )
