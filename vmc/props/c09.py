"""C09 -- parsing depends only on the XML infoset.

(model, document) pairs from the G-model x every single application site of each meaning-preserving
rewrite (thorough: pairs of sites); parse(rewritten) must equal parse(original) for both handlers.
The rewriter's own correctness is checked by canonical-infoset equality (libxml2 + expat, comments /
PIs dropped) before the parser under test sees the rewritten document.
"""
from __future__ import annotations

import os
import shutil
import tempfile
import time
import warnings

from lxml import etree

from .. import gmodel as G
from .. import infoset as I
from ..engine import Chooser, HarnessError, call, confirm_violations, explore_task, finish, h, harness, parallel
from ..eq import diff, same
from .c01 import pick_instance
from .c08 import prefixed_values as _pv


def prefixed_values(text: str) -> bool:
    return _pv(text.encode("utf-8"))

from xsdata.formats.dataclass.context import XmlContext
from xsdata.formats.dataclass.parsers import XmlParser
from xsdata.formats.dataclass.parsers.config import ParserConfig
from xsdata.formats.dataclass.parsers.handlers import LxmlEventHandler, XmlEventHandler
from xsdata.formats.dataclass.serializers import XmlSerializer
from xsdata.formats.dataclass.serializers.config import SerializerConfig
from xsdata.formats.dataclass.serializers.writers import LxmlEventWriter

PROP = "C09"
HANDLERS = [("native", XmlEventHandler), ("lxml", LxmlEventHandler)]
XI = "http://www.w3.org/2001/XInclude"
NONSTRING = {"int", "bool", "float", "Decimal", "QName", "XmlDate", "XmlDateTime", "XmlTime", "XmlDuration", "XmlPeriod", "bytes16", "bytes64", "Num", "QEnum"}


def scope_of(root: I.El, target: I.El):
    """In-scope prefix map at target."""
    path = []

    def find(e, acc):
        acc = acc + [e]
        if e is target:
            path.extend(acc)
            return True
        return any(isinstance(k, I.El) and find(k, acc) for k in e.kids)

    find(root, [])
    sc = {}
    for e in path:
        sc.update(e.nsdecls)
    return sc


def uses_prefix(e: I.El, p: str) -> bool:
    """True if the subtree uses prefix p in a name or in anything that could be a prefixed value."""
    for x in e.iter():
        if x.prefix == p or any(k.startswith(p + ":") for k, _v in x.attrs):
            return True
        for _k, v in x.attrs:
            if isinstance(v, str) and (p + ":") in v:
                return True
        for t in x.kids:
            if isinstance(t, str) and (p + ":") in t:
                return True
        if p in x.nsdecls:
            return True
    return False


def els(root):
    return list(root.iter())


def sites(root: I.El, spec: G.ModelSpec) -> list[tuple]:
    """Every (rewrite kind, site) applicable to this document."""
    out = []
    all_els = els(root)
    generic = any(f.cat in ("wildcard", "anytype", "attributes") or "wildcard" in f.tags or "generic-child" in f.tags for f in spec.fields)
    has_text_field = any(f.cat == "text" for f in spec.fields)
    qnameish = any(({"qname", "xsi"} & f.tags) or f.cat in ("anytype", "wildcard") for f in spec.fields)
    mixed_model = any("w:mixed" in f.tags for f in spec.fields)
    model_child_names = set()
    for f in spec.fields:
        if f.cat == "model" and "generic-child" in f.tags and not spec.elem_gen:
            model_child_names |= {eval(f.meta["name"])} if f.meta.get("name") else {f.name}
    for i, e in enumerate(all_els):
        for p in list(e.nsdecls):
            if p and p not in ("xml",):
                out.append(("alias-prefix", i, p))           # add a second prefix for the URI and use it for names
                if i > 0 and not generic:
                    pass
        # move declarations of this element outward to the root (if the root does not bind the prefix otherwise)
        if i > 0:
            for p, u in e.nsdecls.items():
                if p and root.nsdecls.get(p, u) == u and all(x.nsdecls.get(p, u) == u for x in all_els):
                    out.append(("hoist-xmlns", i, p))
        # re-declare the in-scope prefixes again on this element (inward copy)
        if i > 0:
            out.append(("redeclare-xmlns", i))
        if len(e.attrs) >= 2:
            out.append(("reverse-attrs", i))
            if len(e.attrs) == 3:
                out.append(("rotate-attrs", i))
        # an attribute that is a QName by definition: pad it with whitespace
        if any(a[0] == "xsi:type" for a in e.attrs):
            out.append(("xsi-type-ws", i))
        # shadow a prefix in an EARLIER sibling that does not use it: later siblings must still see the ancestor's binding
        if i > 0:
            sc_here = scope_of(root, e)
            for p, u in sc_here.items():
                if p and u and p not in ("xml",) and not uses_prefix(e, p) and p not in e.nsdecls:
                    out.append(("shadow-prefix", i, p))
        kids_el = [k for k in e.kids if isinstance(k, I.El)]
        kids_tx = [k for k in e.kids if isinstance(k, str)]
        bound_here = (e is root or e.local in model_child_names) and not mixed_model
        if kids_el and not kids_tx and bound_here and not has_text_field and generic:
            # class-bound element-only content that contains generic children: gaps of THIS element only
            for g in range(len(e.kids) + 1):
                out.append(("ws-gap", i, g))
        if kids_el and not kids_tx and not generic and not has_text_field:
            for g in range(len(e.kids) + 1):
                out.append(("ws-gap", i, g))
        if kids_el or kids_tx:
            for g in range(len(e.kids) + 1):
                out.append(("comment-gap", i, g))
                out.append(("pi-gap", i, g))
        for j, k in enumerate(e.kids):
            if isinstance(k, str) and k:
                if "\r" not in k:
                    # (a carriage return inside a CDATA section is a line end and would be normalised: not the same document)
                    out.append(("cdata", i, j))
                out.append(("charref", i, j))
                if len(k) >= 2:
                    out.append(("comment-in-text", i, j))
                    out.append(("pi-in-text", i, j))
        for j, (an, av) in enumerate(e.attrs):
            if av:
                out.append(("attr-charref", i, j))
    # default namespace <-> prefix for the root's namespace (only when no value can be a prefixless QName and
    # no element lives in "no namespace")
    # ... or, for documents that do carry QName values / generic content, when every value is visibly not a prefixless name
    # (a prefixless QName value takes the default namespace, so changing the default would change the value)
    import re as _re
    def _bare_name(v):
        return any(_re.fullmatch(r"[A-Za-z_][\w.\-]*", tok) for tok in v.split())
    bare = any(_bare_name(v) for x in all_els for _k, v in x.attrs if isinstance(v, str)) or any(_bare_name(t) for x in all_els for t in x.kids if isinstance(t, str))
    if (not qnameish and not generic) or not bare:
        rp = root.prefix
        sc = dict(root.nsdecls)
        if rp and sc.get(rp) and all(x.prefix for x in all_els):
            out.append(("to-default-ns",))
        if not rp and sc.get(""):
            out.append(("from-default-ns",))
    out.append(("encode", "utf-16"))
    out.append(("encode", "iso-8859-1"))
    out.append(("encode", "utf-8-sig"))
    out.append(("encode", "utf-16-be+newline"))   # declared big-endian, no BOM, ends with a line feed (whose last byte is not white space on its own)
    # surrounding whitespace on non-string values: direct children / attributes of the root that belong to a
    # field of a non-string scalar type
    for f in spec.fields:
        tkey = next((t[2:] for t in f.tags if t.startswith("t:")), None)
        if tkey in NONSTRING or (f.cat == "text" and ("tokens" in f.tags or "int" in f.ann)):
            out.append(("value-ws", f.name, f.cat))
    # XInclude extraction of each child subtree of the root (plain, and with a comment / PI inside the included part's text)
    for j, k in enumerate(root.kids):
        if isinstance(k, I.El):
            out.append(("xinclude", j))
            if any(isinstance(t, str) and len(t) >= 2 for x in k.iter() for t in x.kids):
                out.append(("xinclude", j, "comment"))
                out.append(("xinclude", j, "pi"))
    # XInclude of a text part (parse="text") in an encoding of its own: the text of an element that has text only
    for i, e in enumerate(all_els):
        if len(e.kids) == 1 and isinstance(e.kids[0], str) and e.kids[0] and "\r" not in e.kids[0]:
            out.append(("xinclude-text", i, "UTF-16LE"))
            out.append(("xinclude-text", i, "iso-8859-1"))
    return out


def field_nodes(root: I.El, spec: G.ModelSpec, fname: str):
    """Elements / attributes of the root that belong to the named field (by the serializer's naming)."""
    f = next(x for x in spec.fields if x.name == fname)
    name = f.meta.get("name")
    name = eval(name) if name else None
    return f, name


def apply(root: I.El, rw: tuple, spec: G.ModelSpec, workdir: str):
    """Returns (bytes, parse_kwargs, infoset_mode) or None if not applicable after all."""
    r = root.copy()
    all_els = els(r)
    kind = rw[0]
    enc = "utf-8"
    mode = "exact"
    extra = {}
    if kind == "alias-prefix":
        e = all_els[rw[1]]
        p = rw[2]
        uri = e.nsdecls[p]
        new = "zz" + p
        if any(new in x.nsdecls for x in all_els):
            return None
        e.nsdecls[new] = uri

        def ren(x, active):
            if x is not e and p in x.nsdecls and x.nsdecls[p] != uri:
                active = False
            if x is not e and new in x.nsdecls:
                active = False
            if active:
                if x.prefix == p:
                    x.prefix = new
                x.attrs = [((new + k[len(p):]) if k.startswith(p + ":") else k, v) for k, v in x.attrs]
            for c in x.kids:
                if isinstance(c, I.El):
                    ren(c, active)
        ren(e, True)
    elif kind == "hoist-xmlns":
        e = all_els[rw[1]]
        p = rw[2]
        r.nsdecls[p] = e.nsdecls.pop(p)
    elif kind == "redeclare-xmlns":
        e = all_els[rw[1]]
        sc = scope_of(r, e)
        for p, u in sc.items():
            if p not in e.nsdecls and (u or p == ""):
                if p == "" and not u:
                    continue
                e.nsdecls[p] = u
    elif kind == "xsi-type-ws":
        e = all_els[rw[1]]
        e.attrs = [(k, (" \n" + v + "\t") if k == "xsi:type" else v) for k, v in e.attrs]
        mode = "values"
    elif kind == "shadow-prefix":
        e = all_els[rw[1]]
        par, j = None, None
        for x in all_els:
            for jj, kk in enumerate(x.kids):
                if kk is e:
                    par, j = x, jj
        later = [k for k in par.kids[j + 1:] if isinstance(k, I.El)] if par is not None else []
        if not later:
            return None
        e.nsdecls[rw[2]] = "urn:shadowed-binding"
    elif kind == "reverse-attrs":
        e = all_els[rw[1]]
        e.attrs = list(reversed(e.attrs))
    elif kind == "rotate-attrs":
        e = all_els[rw[1]]
        e.attrs = e.attrs[1:] + e.attrs[:1]
    elif kind == "ws-gap":
        e = all_els[rw[1]]
        e.kids.insert(rw[2], "\n\t ")
        mode = "strip-ws"
    elif kind in ("comment-gap", "pi-gap"):
        e = all_els[rw[1]]
        e.kids.insert(rw[2], ("raw", "<!-- a comment -->" if kind == "comment-gap" else "<?target some data?>"))
    elif kind in ("cdata", "charref", "comment-in-text", "pi-in-text"):
        e = all_els[rw[1]]
        s = e.kids[rw[2]]
        if kind == "cdata":
            if "]]>" in s:
                return None
            e.kids[rw[2]] = ("raw", "<![CDATA[" + s + "]]>")
        elif kind == "charref":
            e.kids[rw[2]] = ("raw", "".join(f"&#{ord(c)};" if n % 2 else f"&#x{ord(c):X};" for n, c in enumerate(s)))
        else:
            mid = len(s) // 2
            e.kids[rw[2]:rw[2] + 1] = [s[:mid], ("raw", "<!--c-->" if kind == "comment-in-text" else "<?pi x?>"), s[mid:]]
    elif kind == "attr-charref":
        e = all_els[rw[1]]
        k, v = e.attrs[rw[2]]
        e.attrs[rw[2]] = (k, ("raw", "".join(f"&#x{ord(c):x};" for c in v)))
    elif kind == "to-default-ns":
        rp = r.prefix
        uri = r.nsdecls[rp]
        if any(x.prefix != rp and not x.prefix for x in all_els) or any("" in x.nsdecls for x in all_els):
            return None
        r.nsdecls[""] = uri
        for x in all_els:
            if x.prefix == rp and not any(rp in y.nsdecls and y.nsdecls[rp] != uri for y in all_els):
                x.prefix = ""
    elif kind == "from-default-ns":
        uri = r.nsdecls[""]
        if any("" in x.nsdecls and x is not r for x in all_els) or any("dd" in x.nsdecls for x in all_els):
            return None
        del r.nsdecls[""]
        r.nsdecls["dd"] = uri
        for x in all_els:
            if not x.prefix:
                x.prefix = "dd"
    elif kind == "encode":
        enc = rw[1]
    elif kind == "value-ws":
        f = next(x for x in spec.fields if x.name == rw[1])
        done = False
        if f.cat == "attribute":
            for i, (k, v) in enumerate(r.attrs):
                if not k.startswith("xsi:") and v and v == v.strip() and k.split(":")[-1] in _names(f):
                    r.attrs[i] = (k, "\n " + v + "\t")
                    done = True
        elif f.cat == "text":
            for j, k in enumerate(r.kids):
                if isinstance(k, str) and k.strip():
                    r.kids[j] = " \n" + k + " "
                    done = True
        else:
            for c in r.kids:
                if isinstance(c, I.El) and c.local in _names(f) and len(c.kids) == 1 and isinstance(c.kids[0], str) and c.kids[0].strip():
                    c.kids[0] = "\n  " + c.kids[0] + "\t"
                    done = True
        if not done:
            return None
        mode = "values"
    elif kind == "xinclude":
        child = r.kids[rw[1]]
        sc = scope_of(r, child)
        part = child.copy()
        for p, u in sc.items():
            if p not in part.nsdecls and u:
                part.nsdecls[p] = u
        if sc.get("") and "" not in part.nsdecls:
            part.nsdecls[""] = sc[""]
        if len(rw) > 2:
            tn = next(((x, jj) for x in part.iter() for jj, t in enumerate(x.kids) if isinstance(t, str) and len(t) >= 2), None)
            if tn is None:
                return None
            x, jj = tn
            t = x.kids[jj]
            x.kids[jj:jj + 1] = [t[: len(t) // 2], ("raw", "<!--c-->" if rw[2] == "comment" else "<?pi x?>"), t[len(t) // 2:]]
        with open(os.path.join(workdir, "part.xml"), "w", encoding="utf-8") as fh:
            fh.write(_write(part))
        inc = I.El("xi:include", {"xi": XI}, [("href", "part.xml")], [])
        r.kids[rw[1]] = inc
        mode = "xinclude"
        extra["xinclude"] = True
    elif kind == "xinclude-text":
        e = all_els[rw[1]]
        try:
            raw = e.kids[0].encode(rw[2])
        except UnicodeEncodeError:
            return None
        with open(os.path.join(workdir, "part.txt"), "wb") as fh:
            fh.write(raw)
        e.kids[0] = I.El("xi:include", {"xi": XI}, [("href", "part.txt"), ("parse", "text"), ("encoding", rw[2])], [])
        mode = "xinclude"
        extra["xinclude"] = True
    text = _write(r)
    if enc == "utf-8":
        data = text.encode("utf-8")
    elif enc == "utf-8-sig":
        data = text.encode("utf-8-sig")
    elif enc == "utf-16-be+newline":
        data = ('<?xml version="1.0" encoding="UTF-16BE"?>\n' + text + "\n").encode("utf-16-be")
    else:
        try:
            data = (f'<?xml version="1.0" encoding="{enc}"?>\n' + text).encode(enc)
        except UnicodeEncodeError:
            return None
    return data, extra, mode


def _names(f: G.FieldSpec):
    nm = f.meta.get("name")
    out = {f.name}
    if nm:
        out.add(eval(nm))
    # name generators change the spelling; accept any case variant
    out |= {x.replace("_", "") for x in out} | {x.upper() for x in out} | {x.replace("_", "-") for x in out}
    return out


def _write(r: I.El) -> str:
    """El.write with raw attribute values supported."""
    def w(e: I.El) -> str:
        out = ["<", e.name]
        for p, u in e.nsdecls.items():
            out.append(f' xmlns{":" + p if p else ""}="{I.esc_attr(u)}"')
        for k, v in e.attrs:
            out.append(f' {k}="{v[1] if isinstance(v, tuple) else I.esc_attr(v)}"')
        if not e.kids:
            out.append("/>")
            return "".join(out)
        out.append(">")
        for k in e.kids:
            out.append(I.esc_text(k) if isinstance(k, str) else (k[1] if isinstance(k, tuple) else w(k)))
        out.append(f"</{e.name}>")
        return "".join(out)
    return w(r)


def canon_drop_markup(data: bytes, base_dir=None, xinclude=False):
    p = etree.XMLParser(remove_comments=True, remove_pis=True, resolve_entities=True, strip_cdata=True)
    if xinclude:
        t = etree.parse(os.path.join(base_dir, "main.xml"), p)
        t.xinclude()
        etree.strip_tags(t, etree.Comment, etree.PI)
        root = t.getroot()
        # xml:base attributes added by xinclude are not part of the compared infoset
        for e in root.iter():
            e.attrib.pop("{http://www.w3.org/XML/1998/namespace}base", None)
        return I._from_lxml(root)
    return I._from_lxml(etree.fromstring(data, p))


def parse_with(ctx, handler, data: bytes, clazz, extra: dict, workdir: str, route: str):
    cfg = ParserConfig(process_xinclude=bool(extra.get("xinclude")), fail_on_converter_warnings=True)
    if extra.get("xinclude"):
        main = os.path.join(workdir, "main.xml")
        if route == "base_url":
            cfg.base_url = main
            parser = XmlParser(context=ctx, config=cfg, handler=handler)
            import io
            return parser.parse(io.BytesIO(data), clazz)
        parser = XmlParser(context=ctx, config=cfg, handler=handler)
        return parser.parse(main, clazz)
    parser = XmlParser(context=ctx, config=cfg, handler=handler)
    return parser.from_bytes(data, clazz)


_BASE_CACHE: dict = {}


def base_parse(ctx, model, original: str, hname, handler):
    key = (model.modname, original, hname)
    if key not in _BASE_CACHE:
        if len(_BASE_CACHE) > 64:
            _BASE_CACHE.clear()
        with warnings.catch_warnings():
            warnings.simplefilter("error")
            _BASE_CACHE[key] = call(XmlParser(context=ctx, config=ParserConfig(fail_on_converter_warnings=True), handler=handler).from_string, original, model.root)
    return _BASE_CACHE[key]


@harness("c09.rewrite")
def h_rewrite(ch: Chooser, vec: list, maxf: int, nrewrites: int, seed: str | None = None):
    spec = G.model_from_vector(vec, maxf)
    model = G.Model(spec)
    workdir = None
    try:
        exprs = pick_instance(ch, spec, False, seed)
        if seed and not any(seed in e for e in exprs):
            return {"skip": True, "reason": "seed construct not in this model"}
        use_default = ch.flag("serialize-with-default-ns")
        obj = model.instance(exprs)
        ns_map = {None: spec.meta_ns} if (use_default and spec.meta_ns) else None
        if use_default and not spec.meta_ns:
            return {"skip": True, "reason": "no model namespace to make the default"}
        r = call(XmlSerializer(context=XmlContext(), config=SerializerConfig(xml_declaration=False), writer=LxmlEventWriter).render, obj, ns_map)
        if r[0] == "exc":
            return {"skip": True, "reason": "not serializable (C01/C03 subject)"}
        original = r[1]
        root = I.from_text(original)
        # free variant: every namespace declaration hoisted to the root (where that is unambiguous), so that values
        # depend on bindings made by an ancestor -- how hand-written documents usually look
        if ch.choose(2, "hoist-all-xmlns", free=True):
            moved = False
            for x in list(root.iter())[1:]:
                for p, u in list(x.nsdecls.items()):
                    if p and all(y.nsdecls.get(p, u) == u for y in root.iter()) and root.nsdecls.get(p, u) == u:
                        root.nsdecls[p] = x.nsdecls.pop(p)
                        moved = True
            if not moved:
                return {"skip": True, "reason": "nothing to hoist"}
            original = _write(root)
        all_sites = sites(root, spec)
        chosen = []
        cur_root = root
        data, extra, modes = original.encode("utf-8"), {}, set()
        for n in range(nrewrites):
            k = ch.choose(len(all_sites) + 1, f"rewrite{n}")
            if k == 0:
                break
            rw = all_sites[k - 1]
            if rw[0] in ("xinclude", "xinclude-text") and workdir is None:
                workdir = tempfile.mkdtemp(prefix="vmc_c09_")
            res = apply(cur_root, rw, spec, workdir)
            if res is None:
                return {"skip": True, "reason": f"rewrite {rw[0]} not applicable at this site"}
            data, ex, md = res
            extra.update(ex)
            modes.add(md)   # the infoset self-check below honours what every applied rewrite allows
            chosen.append(rw)
            if n + 1 < nrewrites:
                if rw[0] in ("encode", "xinclude", "xinclude-text", "attr-charref") or any(isinstance(k2, tuple) for e2 in [0] for k2 in []):
                    break
                try:
                    cur_root = I.from_text(data)
                    all_sites2 = sites(cur_root, spec)
                except I.NotWellFormed:
                    break
                if any(x[0] in ("cdata", "charref", "comment-gap", "pi-gap", "comment-in-text", "pi-in-text") for x in chosen):
                    break  # from_text drops raw markup; do not stack on top of it
                all_sites = all_sites2
        case = {"model": model.source.split("XmlTime\n", 1)[-1].strip(), "instance": model.instance_source(exprs), "original": original,
                "rewrites": [repr(x) for x in chosen], "rewritten": data.decode("latin-1")[:1500]}
        if extra.get("xinclude"):
            with open(os.path.join(workdir, "main.xml"), "wb") as fh:
                fh.write(data)
        # rewriter self-check: same infoset (judged by libxml2 with comments/PIs dropped)
        if chosen:
            try:
                a = canon_drop_markup(original.encode("utf-8"))
                b = canon_drop_markup(data, workdir, bool(extra.get("xinclude")))
            except (etree.XMLSyntaxError, OSError) as e:
                raise HarnessError(f"rewriter produced a broken document for {chosen}: {e}\n{data!r}")
            if "strip-ws" in modes:
                a, b = I.strip_ws(a), I.strip_ws(b)
            if "values" not in modes and a != b:
                raise HarnessError(f"rewrite {chosen} changed the infoset:\n{original}\n{data!r}")
        results = {}
        ctx = XmlContext()
        for hname, handler in HANDLERS:
            base = base_parse(ctx, model, original, hname, handler)
            if base[0] == "exc":
                return {"skip": True, "reason": "original does not parse (C01 subject)"}
            routes = ["path", "base_url"] if extra.get("xinclude") else ["bytes"]
            for route in routes:
                with warnings.catch_warnings():
                    warnings.simplefilter("error")
                    got = call(parse_with, ctx, handler, data, model.root, extra, workdir, route)
                c = {**case, "handler": hname, "route": route}
                kinds = "+".join(sorted({x[0] for x in chosen})) or "none"
                ns_dependent_values = prefixed_values(original) or ('xmlns="' in original and any("qname" in f.tags for f in spec.fields))
                if hname == "native" and extra.get("xinclude") and ns_dependent_values and (
                        got[0] == "exc" and "not a valid" in str(got[1]) or got[0] == "exc" and "Unknown namespace prefix" in str(got[1])
                        or got[0] == "ok" and not same(got[1], base[1])):
                    return dict(ok=False, case=c, bucket="KF/native-handler-xinclude-loses-prefix-bindings-of-values",
                                detail=f"{got[1]!r}\noriginal parses to {base[1]!r}")
                if got[0] == "exc":
                    return dict(ok=False, case=c, bucket=f"{kinds}/{hname}/raises-{type(got[1]).__name__}", detail=f"{got[1]!r}\noriginal parses to {base[1]!r}")
                if not same(got[1], base[1]):
                    return dict(ok=False, case=c, bucket=f"{kinds}/{hname}/object-differs", detail=f"{diff(base[1], got[1])}\noriginal  {original}\nrewritten {data!r}")
        return dict(ok=True, case=case, obs="+".join(x[0] for x in chosen) or "none", nontrivial=h((original, tuple(map(repr, chosen)))) if chosen else None,
                    counters={"rewrite:" + x[0]: 1 for x in chosen})
    finally:
        model.release()
        if workdir:
            shutil.rmtree(workdir, ignore_errors=True)


def run(tier: str, seed: int) -> int:
    t0 = time.time()
    th = tier == "thorough"
    # thorough: the same models, every PAIR of rewrite sites (the <= 3 fields / <= 4 answers model space times pairs does not end within hours)
    maxf, dm = (2, 3)
    nrw, bound = (2, 2) if th else (1, 1)
    vecs = G.enumerate_models(dm, maxf)
    tasks = [("c09.rewrite", dict(vec=v, maxf=maxf, nrewrites=nrw), bound, ()) for v in vecs]
    # documents that carry xsi:type / QName values as the starting point
    for v in vecs:
        spec = G.model_from_vector(v, maxf)
        tags = set().union(*[f.tags for f in spec.fields])
        if "xsi" in tags:
            tasks.append(("c09.rewrite", dict(vec=v, maxf=maxf, nrewrites=nrw, seed="Derived("), bound, ()))
        if "qname" in tags or any(f.cat == "anytype" for f in spec.fields):
            tasks.append(("c09.rewrite", dict(vec=v, maxf=maxf, nrewrites=nrw, seed="QName('{urn:q}"), bound, ()))
    stats = parallel(tasks, explore_task, chunk=8)
    confirm_violations(stats)
    return finish(
        PROP, tier, seed, "exploration", stats, t0,
        rule=(f"{len(vecs)} G-model models x (default instance, or one non-default value, or serialization under a user default namespace) x every single application site "
              f"(thorough: every pair) of 20 meaning-preserving rewrites: prefix aliasing, xmlns hoisting / re-declaration, default-namespace <-> prefix, attribute reordering, "
              "whitespace in every gap of element-only content, comment / PI in every gap and inside every text node, CDATA, character references (text and attributes), "
              "UTF-16 / Latin-1 / BOM re-encoding, surrounding whitespace on non-string values, XInclude extraction of each child (path and base_url routes); both handlers."),
        assumptions=["the rewriter is checked per case: libxml2 (comments/PIs dropped) must see the same infoset before the parser under test runs",
                     "prefix rewrites never touch values (a second prefix is added instead of renaming), so QName-valued content keeps its meaning",
                     "default-namespace switches are applied only to models without QName-typed, xsi:type or generic content"],
        bound={"models": len(vecs), "rewrites_per_document": nrw, "deviations": bound},
        extra={"programs": len(vecs)},
    )
