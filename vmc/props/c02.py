"""C02 -- generated classes are faithful to the XML Schema they came from.

G-xsd schemas (base + <= D features) x generator option deviations x all instance documents up to the
unrolling bound.  Judges: libxml2 (lxml.etree.XMLSchema) for the generated instances and for re-validation
of the output, expat+libxml2 for infosets.
"""
from __future__ import annotations

import collections
import os
import shutil
import tempfile
import time
import warnings

from lxml import etree

from .. import codegen as CG
from .. import gxsd as GX
from .. import infoset as I
from ..engine import (Chooser, HarnessError, Prune, call, confirm_violations, explore, explore_task, finish, h, harness, parallel)

from xsdata.formats.dataclass.context import XmlContext
from xsdata.formats.dataclass.parsers import XmlParser
from xsdata.formats.dataclass.serializers import XmlSerializer
from xsdata.formats.dataclass.serializers.config import SerializerConfig

PROP = "C02"

OPTION_SETS = [
    ("default", {}),
    ("compound", {"compound_fields.enabled": True}),
    ("wrapper", {"wrapper_fields": True}),
    ("clusters", {"structure_style": "clusters"}),
    ("single-package", {"structure_style": "single-package"}),
    ("namespaces", {"structure_style": "namespaces"}),
    ("namespace-clusters", {"structure_style": "namespace-clusters"}),
    ("unnest", {"unnest_classes": True}),
    ("frozen", {"format.frozen": True}),
    ("slots", {"format.slots": True}),
    ("docstring-google", {"docstring_style": "Google"}),
    ("docstring-accessible", {"docstring_style": "Accessible"}),
    ("relative-imports", {"relative_imports": True}),
    ("generic-collections", {"generic_collections": True}),
    ("compound+unnest", {"compound_fields.enabled": True, "unnest_classes": True}),
    ("frozen+slots+clusters", {"format.frozen": True, "format.slots": True, "structure_style": "clusters"}),
]
QUICK_OPTIONS = ["default", "compound", "unnest", "namespaces", "frozen"]


def resolve_options(opts: dict) -> dict:
    from xsdata.models.config import DocstringStyle, StructureStyle
    out = {}
    for k, v in opts.items():
        if k == "structure_style":
            v = StructureStyle(v)
        if k == "docstring_style":
            v = DocstringStyle(v)
        out[k] = v
    return out


def enumerate_schemas(max_features: int) -> list[list[int]]:
    out = []

    def run(ch):
        try:
            GX.gen_schema(ch, max_features)
            return True
        except Prune:
            return False

    explore(run, max_features, lambda ch, ok: out.append(ch.choices) if ok else None)
    return out


def schema_from_vector(vec, max_features) -> GX.Schema:
    ch = Chooser(vec)
    return GX.gen_schema(ch, max_features)


# generated code cache per worker: (files, option name) -> dict(gen=Generated, root=class, validator)
_GEN: "collections.OrderedDict" = collections.OrderedDict()


def get_generated(files: dict, oname: str, opts: dict, root_qname: str):
    key = (tuple(sorted(files.items())), oname)
    ent = _GEN.get(key)
    if ent is not None:
        _GEN.move_to_end(key)
        return ent
    g = CG.generate(files, ["main.xsd"], options=resolve_options(opts))
    ent = {"gen": g, "root": None, "problem": None}
    if g.error is not None:
        ent["problem"] = ("generation-fails", repr(g.error))
    elif not g.files:
        ent["problem"] = ("nothing-generated", g.log[-500:])
    else:
        try:
            g.import_all()
            ctx = XmlContext()
            root = ctx.find_type(root_qname)
            if root is None or not root.__module__.startswith(g.package):
                cands = [c for c in g.classes() if getattr(getattr(c, "Meta", None), "name", c.__name__) in ("root", "Root") or c.__name__ == "Root"]
                root = cands[0] if cands else None
            if root is None:
                ent["problem"] = ("generated-package-unusable", f"root class not importable from {sorted(g.files)}")
            else:
                ctx.build_recursive(root)
                ent["root"] = root
        except Exception as e:  # noqa
            ent["problem"] = ("generated-package-unusable", f"{type(e).__name__}: {e}; files {sorted(g.files)}")
    _GEN[key] = ent
    while len(_GEN) > 6:
        _k, old = _GEN.popitem(last=False)
        old["gen"].cleanup()
    return ent


def type_map(s: GX.Schema) -> dict:
    """local element / attribute name -> SimpleT (names are unique per schema by construction)."""
    m = {}

    def cx(c):
        x = c
        while x is not None:
            for a in x.attrs:
                if isinstance(a, GX.Attr):
                    m["@" + a.name] = a
            if x.attr_group:
                grp = next(t for t in s.types if isinstance(t, tuple) and t[0] == "attrgroup" and t[1] == x.attr_group)
                for a in grp[2]:
                    m["@" + a.name] = a
            if x.simple_content is not None:
                m["#sc"] = x.simple_content
            if x.particle is not None:
                part(x.particle)
            x = x.base

    seen = set()

    def part(p):
        if isinstance(p, GX.Elem):
            if isinstance(p.type, GX.SimpleT):
                m[p.name] = p.type
                for sname in p.subst:
                    m[sname] = p.type
            elif isinstance(p.type, GX.Complex) and id(p.type) not in seen:
                seen.add(id(p.type))
                if p.type.simple_content is not None:
                    m[p.name] = p.type.simple_content
                cx(p.type)
                for d in s.derived.get(p.type.name or "", []):
                    if id(d) not in seen:
                        seen.add(id(d))
                        cx(d)
        elif isinstance(p, GX.Group):
            for i in p.items:
                part(i)

    seen.add(id(s.root.type))
    cx(s.root.type)
    return m


def local(q: str) -> str:
    return q.split("}")[-1]


def normalise(node, tmap, scope=None, ordered=True, fixed=None):
    """scoped tree -> canonical tree with typed value normalisation, QNames resolved, defaults applied."""
    q, attrs, kids, decls = node
    scope = dict(scope or {})
    for p, u in decls:
        scope[p] = u

    def val(t, v):
        if t is None:
            return v
        st = t.type if isinstance(t, GX.Attr) else t
        if st.is_qname():
            v = v.strip()
            p, sep, l = v.partition(":")
            if sep:
                return f"{{{scope.get(p)}}}{l}"
            return f"{{{scope.get(None)}}}{v}" if scope.get(None) else v
        try:
            return st.norm(v.strip() if st.base != "string" or st.kind != "builtin" else v)
        except Exception:
            return v

    a = {}
    for k, v in attrs.items():
        if k == f"{{{I.XSI}}}type":
            p, sep, l = v.strip().partition(":")
            a[k] = f"{{{scope.get(p if sep else None)}}}{l if sep else v.strip()}" if scope.get(p if sep else None) else (l if sep else v.strip())
        elif k.startswith(f"{{{I.XSI}}}"):
            a[k] = v
        else:
            a[k] = val(tmap.get("@" + local(k)), v)
    out = []
    t_here = tmap.get(local(q))
    has_el = any(not isinstance(c, str) for c in kids)
    for c in kids:
        if isinstance(c, str):
            if has_el:
                if c.strip():
                    out.append(c)
            else:
                out.append(val(t_here, c))
        else:
            out.append(normalise(c, tmap, scope, ordered))
    if not ordered:
        out = sorted(out, key=repr)
    return (q, tuple(sorted(a.items())), tuple(x for x in out if x != ""))


def apply_defaults(tree, s: GX.Schema, tmap):
    """Expected output = input + attribute defaults / fixed values the schema prescribes, on every element
    whose type carries them (the root type, also when it is reused by a nested element)."""
    root_defaults = []
    x = s.root.type
    while x is not None:
        for at in x.attrs:
            if isinstance(at, GX.Attr) and (at.default is not None or at.fixed is not None):
                root_defaults.append(at)
        x = x.base
    same_type = {s.root.name}
    if s.root.type.name:
        def scan(p):
            if isinstance(p, GX.Elem) and isinstance(p.type, GX.Complex) and p.type is s.root.type:
                same_type.add(p.name)
            elif isinstance(p, GX.Group):
                for i in p.items:
                    scan(i)
        if s.root.type.particle:
            scan(s.root.type.particle)

    def walk(t):
        q, attrs, kids = t
        a = dict(attrs)
        if local(q) in same_type and not any(k == f"{{{I.XSI}}}nil" for k in a):
            for at in root_defaults:
                name = f"{{{s.tns}}}{at.name}" if (s.tns and (at.qualified or s.attr_form == "qualified")) else at.name
                a.setdefault(name, at.type.norm(at.default if at.default is not None else at.fixed))
        return (q, tuple(sorted(a.items())), tuple(k if isinstance(k, str) else walk(k) for k in kids))

    return walk(tree)


@harness("c02.faithful")
def h_faithful(ch: Chooser, vec: list, maxfeat: int, oname: str, free_instances: bool):
    s = schema_from_vector(vec, maxfeat)
    files = GX.render(s)
    opts = dict(OPTION_SETS)[oname]
    root_q = f"{{{s.tns}}}{s.root.name}" if s.tns else s.root.name
    case = {"schema": files["main.xsd"], "features": s.features, "options": oname}
    if len(files) > 1:
        case["other_files"] = {k: v for k, v in files.items() if k != "main.xsd"}
    try:
        val = GX.validator(files, _workdir())
    except GX.InvalidSchema as e:
        if len([f for f in s.features if f != "none"]) <= 1:
            raise HarnessError(f"single-feature schema rejected by libxml2: {e}\n{files['main.xsd']}")
        return {"skip": True, "reason": "feature combination is not a valid schema (libxml2)", "counters": {"schema_rejected": 1}}
    ent = get_generated(files, oname, opts, root_q)
    if ent["problem"]:
        kind, detail = ent["problem"]
        if kind == "generated-package-unusable" and "Compound field contains ambiguous types" in str(detail) and ({"mixed", "mixed-complex-content-restriction"} & set(s.features)) and opts.get("unnest_classes"):
            return dict(ok=False, case=case, bucket="KF/mixed-content-with-two-children-of-one-type-unnested-is-ambiguous", detail=str(detail)[:800])
        if kind == "generated-package-unusable" and opts.get("structure_style") == "namespaces" and s.tns is None and s.import_ is not None and any(
                f.count("/") == 0 and f.endswith(".py") and f != "__init__.py" for f in ent["gen"].files):
            return dict(ok=False, case=case, bucket="KF/namespaces-style-module-shadowed-by-package-of-the-same-name", detail=str(detail)[:800])
        return dict(ok=False, case=case, bucket=f"{kind}/" + "+".join(s.features) + f"/{oname}", detail=str(detail)[:800])
    g = ent["gen"]
    root_cls = ent["root"]
    # the instance
    ig = GX.InstanceGen(s, ch, free=free_instances)
    doc_el = ig.document()
    doc = doc_el.write()
    case["document"] = doc
    try:
        parsed_doc = etree.fromstring(doc.encode("utf-8"))
    except etree.XMLSyntaxError as e:
        raise HarnessError(f"instance generator wrote a broken document: {e}\n{doc}")
    if not val.validate(parsed_doc):
        return {"skip": True, "reason": "generator_rejected: libxml2 does not accept the generated instance", "counters": {"generator_rejected": 1}}
    ctx = XmlContext()
    with warnings.catch_warnings():
        warnings.simplefilter("error")
        p = call(XmlParser(context=ctx, config=CG.strict_parser_config()).from_string, doc, root_cls)
    feats = "+".join(s.features)
    if p[0] == "exc":
        return dict(ok=False, case=case, bucket=f"valid-document-rejected/{feats}/{oname}/{type(p[1]).__name__}", detail=f"{p[1]!r}\n{doc}")
    r = call(XmlSerializer(context=ctx, config=SerializerConfig(xml_declaration=False)).render, p[1])
    if r[0] == "exc":
        return dict(ok=False, case=case, bucket=f"render-fails/{feats}/{oname}", detail=f"{r[1]!r}\nparsed {p[1]!r}")
    out = r[1]
    case["output"] = out
    tmap = type_map(s)
    compound = bool(opts.get("compound_fields.enabled"))
    ordered = s.ordered or (compound and set(s.features) & {"choice-repeating"} and not set(s.features) & {"all", "mixed", "mixed-complex-content-restriction", "sequence-repeating", "choice-of-sequences", "choice-single-of-sequence", "substitution-group", "substitution-member-own-named-type"})
    try:
        exp = apply_defaults(normalise(I.parse_scoped(doc), tmap, ordered=ordered), s, tmap)
        act = normalise(I.parse_scoped(out), tmap, ordered=ordered)
    except I.NotWellFormed as e:
        return dict(ok=False, case=case, bucket=f"output-not-well-formed/{feats}/{oname}", detail=f"{e}\n{out}")
    if exp != act:
        kf = known(exp, act, s, doc, out)
        if kf:
            return dict(ok=False, case=case, bucket=kf, detail=f"input  {doc}\noutput {out}\nparsed {p[1]!r}")
        return dict(ok=False, case=case, bucket=f"infoset-differs/{feats}/{oname}/" + delta(exp, act),
                    detail=f"input  {doc}\noutput {out}\nparsed {p[1]!r}")
    if ordered:
        if not val.validate(etree.fromstring(out.encode("utf-8"))):
            return dict(ok=False, case=case, bucket=f"output-not-schema-valid/{feats}/{oname}", detail=f"{val.error_log.last_error}\n{out}")
    return dict(ok=True, case=case, obs=oname, nontrivial=h((files["main.xsd"], doc)), counters={"ordered" if ordered else "unordered": 1})


def _drop(tree, pred):
    q, attrs, kids = tree
    out = []
    for k in kids:
        if isinstance(k, str):
            out.append(k)
        elif not pred(k):
            out.append(_drop(k, pred))
    return (q, attrs, tuple(out))


def known(exp, act, s: GX.Schema, doc: str, out: str) -> str | None:
    """Analysed defects, recognised by predicates over input and output (at any depth)."""
    nil = (f"{{{I.XSI}}}nil", "true")
    # (a) an absent optional nillable element ('ns') comes back as an xsi:nil element
    if "nillable" in s.features:
        act2 = _drop(act, lambda k: local(k[0]) == "ns" and nil in k[1] and not k[2])
        exp2 = _drop(exp, lambda k: local(k[0]) == "ns" and nil in k[1] and not k[2])
        if act2 == exp2 and act != exp:
            return "KF/absent-optional-nillable-element-emitted-as-xsi-nil"
    # (c) mixed content: a typed QName child is re-serialized in Clark notation
    mixed = bool({"mixed", "mixed-complex-content-restriction"} & set(s.features))   # one content model, two spellings in the schema
    if mixed and "qname-value" in s.features and "{http://www.w3.org/2001/XMLSchema}string</" in out or (mixed and "qname-value" in s.features and ">{urn:t}thing</" in out):
        return "KF/mixed-content-qname-child-written-in-clark-notation"
    # (b) a required element of list type with an empty value is dropped
    if "list-type" in s.features:
        exp2 = _drop(exp, lambda k: local(k[0]) == "l" and not k[2] and not k[1])
        if exp2 == act and act != exp:
            return "KF/required-list-typed-element-with-empty-value-dropped"
    if "nillable" in s.features and "list-type" in s.features:
        exp2 = _drop(_drop(exp, lambda k: local(k[0]) == "l" and not k[2] and not k[1]), lambda k: local(k[0]) == "ns" and nil in k[1] and not k[2])
        act2 = _drop(act, lambda k: local(k[0]) == "ns" and nil in k[1] and not k[2])
        if exp2 == act2:
            return "KF/absent-optional-nillable-element-emitted-as-xsi-nil"
    return None


def delta(a, b) -> str:
    if a[0] != b[0]:
        return "element-name"
    if a[1] != b[1]:
        ka, kb = dict(a[1]), dict(b[1])
        if set(ka) != set(kb):
            return "attribute-set"
        return "attribute-value"
    if len(a[2]) != len(b[2]):
        return "children-count"
    for x, y in zip(a[2], b[2]):
        if isinstance(x, str) or isinstance(y, str):
            if x != y:
                return "text-value"
        else:
            d = delta(x, y)
            if d:
                return d
    return ""


_WD = [None]


def _workdir():
    """one scratch directory per process (tasks are split in the parent before the pool forks, so the pid is part of the key)"""
    import os
    if _WD[0] is None or _WD[0][0] != os.getpid():
        _WD[0] = (os.getpid(), tempfile.mkdtemp(prefix="vmc_xsd_"))
        import atexit
        atexit.register(shutil.rmtree, _WD[0][1], True)
    return _WD[0][1]


def _task(t):
    try:
        return explore_task(t)
    finally:
        pass


def run(tier: str, seed: int) -> int:
    t0 = time.time()
    th = tier == "thorough"
    maxfeat = 2
    inst_bound = 3 if th else 2
    vecs = enumerate_schemas(maxfeat)
    onames = [o for o, _ in OPTION_SETS] if th else QUICK_OPTIONS
    tasks = []
    for v in vecs:
        for on in onames:
            # every instance within the bound under the options that shape the classes, the minimal (+ single-deviation) ones under the others
            # (unnesting changes which class an element is bound by, so it gets the full instance bound too)
            b = inst_bound if on in ("default", "compound", "unnest", "compound+unnest") else (1 if th else 0)
            tasks.append(("c02.faithful", dict(vec=v, maxfeat=maxfeat, oname=on, free_instances=False), b, ()))
    stats = parallel(tasks, _task, chunk=2)
    for ent in _GEN.values():
        ent["gen"].cleanup()
    confirm_violations(stats)
    rejected = stats.counters.get("generator_rejected", 0)
    return finish(
        PROP, tier, seed, "exploration", stats, t0,
        rule=(f"{len(vecs)} G-xsd schemas (base schema + <= {maxfeat} of {len(GX.FEATURES) - 1} features: namespaces and forms, named / anonymous types, occurrence ranges, choice / all / group ref / "
              "element ref / substitution group, enumeration / list / union / named simple types, attribute use / default / fixed / groups, xs:any / anyAttribute, extension + xsi:type, abstract base, "
              f"nillable, mixed, recursion, include / import, simpleContent, typed values, QName and binary values) x {len(onames)} generator option sets x every instance document with <= {inst_bound} "
              "non-minimal answers (occurrence counts {min, min+1, min(max,2)}, choice branches, optional attributes, value alphabets); every instance is first validated by libxml2."),
        assumptions=["stand-ins for jinja2 / toposort / ruff / click (shims/, conformance-checked)", "libxml2's XSD 1.0 validator judges instances and re-validates ordered outputs",
                     "values are compared after typed normalisation by the AST's simple types; attribute defaults / fixed values prescribed by the schema are expected in the output",
                     "order is demanded only where the property says so (top-level sequence of single elements, or repeating choice of single elements with compound fields)"],
        bound={"features_per_schema": maxfeat, "instance_deviations": inst_bound, "schemas": len(vecs), "option_sets": onames},
        extra={"programs": len(vecs) * len(onames), "generator_rejected": rejected},
    )
