"""C17 -- WSDL generation yields usable SOAP bindings.

G-wsdl definitions (base definition + <= D deviations) are generated once each; for every operation the
generated service description, the request envelope, the client's post through a recording transport and the
parsed response / SOAP fault are judged against an independent reading of the WSDL AST (vmc.gwsdl).
"""
from __future__ import annotations

import collections
import dataclasses
import enum
import time
import warnings

from .. import codegen as CG
from .. import gwsdl as GW
from .. import infoset as I
from ..engine import Chooser, HarnessError, Prune, call, confirm_violations, explore, explore_task, finish, h, harness, parallel

from xsdata.formats.dataclass.client import Client, Config
from xsdata.formats.dataclass.context import XmlContext
from xsdata.formats.dataclass.parsers import XmlParser
from xsdata.formats.dataclass.serializers import XmlSerializer

PROP = "C17"
MODES = ["static", "request", "response", "fault"]
SERVICE_ATTRS = ("style", "location", "transport", "soap_action", "input", "output")


def enumerate_definitions(max_features: int, max_ops: int) -> list[list[int]]:
    out = []

    def run(ch):
        try:
            GW.gen_wsdl(ch, max_features, max_ops)
            return True
        except Prune:
            return False

    explore(run, max_features, lambda ch, ok: out.append(ch.choices) if ok else None)
    return out


def definition_from_vector(vec, max_features, max_ops) -> GW.Wsdl:
    return GW.gen_wsdl(Chooser(vec), max_features, max_ops)


# ---------------------------------------------------------------------------------------
# generated code, cached per worker


_GEN: "collections.OrderedDict" = collections.OrderedDict()


def _norm(name: str) -> str:
    return "".join(c for c in name if c.isalnum()).lower()


def get_generated(w: GW.Wsdl, files: dict):
    key = tuple(sorted(files.items()))
    ent = _GEN.get(key)
    if ent is not None:
        _GEN.move_to_end(key)
        return ent
    opts = None
    if len([f for f in files if f.endswith(".wsdl")]) > 1 and files["svc.wsdl"].count("<xs:schema") and files["abstract.wsdl"].count("<xs:schema"):
        # schemas in both WSDL documents make the two generated modules need each other; the documented answer to circular imports is a
        # structure style that is safe from them (docs/codegen/config.md)
        from xsdata.models.config import StructureStyle
        opts = {"structure_style": StructureStyle.SINGLE_PACKAGE}
    g = CG.generate(files, ["svc.wsdl"], options=opts)
    ent = {"gen": g, "services": {}, "problem": None, "all_services": []}
    if g.error is not None:
        ent["problem"] = ("generation-fails", f"{type(g.error).__name__}: {g.error}")
    elif not g.files:
        ent["problem"] = ("nothing-generated", g.log[-500:])
    else:
        try:
            mods = g.import_all()
        except Exception as e:  # noqa
            ent["problem"] = ("generated-package-unusable", f"{type(e).__name__}: {e}; files {sorted(g.files)}")
            mods = {}
        seen = set()
        for mod in mods.values():
            for v in vars(mod).values():
                if (isinstance(v, type) and v.__module__ == mod.__name__ and not dataclasses.is_dataclass(v) and v not in seen
                        and any(hasattr(v, a) for a in ("transport", "location", "soap_action"))):
                    seen.add(v)
                    ent["all_services"].append(v)
        for op in w.ops:
            # the service class is named after port type + operation; the match is loose on purpose (case and
            # separators are the generator's business), the count is checked separately
            want = _norm(w.port_type + op.name)
            cands = [s for s in ent["all_services"] if _norm(s.__name__) == want]
            if len(cands) == 1:
                ent["services"][op.name] = cands[0]
    _GEN[key] = ent
    while len(_GEN) > 4:
        _k, old = _GEN.popitem(last=False)
        old["gen"].cleanup()
    return ent


class RecordingSession:
    """Stands where requests.Session would, under the real DefaultTransport: records what is posted and answers with canned bytes
    and the HTTP status SOAP 1.1 over HTTP prescribes (200, or 500 for a fault)."""

    def __init__(self, canned: bytes, status: int):
        self.canned = canned
        self.status = status
        self.calls = []

    def get(self, url, **kwargs):
        raise HarnessError("the SOAP client is not expected to GET")

    def post(self, url, data=None, headers=None, timeout=None, **kwargs):
        import requests
        if kwargs:
            raise HarnessError(f"unexpected arguments to Session.post: {sorted(kwargs)}")
        self.calls.append((url, data, dict(headers or {})))
        r = requests.Response()
        r.status_code = self.status
        r.url = url
        r.reason = "OK" if self.status == 200 else "Internal Server Error"
        r._content = self.canned
        return r


def _render_tree(ctx, obj):
    r = call(XmlSerializer(context=ctx).render, obj)
    if r[0] == "exc":
        return r
    try:
        return ("ok", (r[1], I.strip_ws(I.canonical(r[1]))))
    except I.NotWellFormed as e:
        return ("exc", e)


def _doc_and_tree(el: I.El):
    doc = GW.document(el)
    tree = el.expected()
    try:
        if I.canonical(doc) != tree:
            raise HarnessError(f"the envelope writer and its own reading disagree:\n{doc}")
    except I.NotWellFormed as e:
        raise HarnessError(f"the envelope writer produced a broken document: {e}\n{doc}")
    return doc, tree


def _parse(ctx, doc: str | bytes, cls, strict: bool = True):
    cfg = CG.strict_parser_config() if strict else None
    parser = XmlParser(context=ctx, config=cfg) if cfg else XmlParser(context=ctx)
    with warnings.catch_warnings():
        warnings.simplefilter("error")
        return call(parser.from_bytes, doc.encode("utf-8") if isinstance(doc, str) else doc, cls)


def _as_dict(obj, ctx=None):
    """The dictionary form of a request as DictDecoder reads it (and as upstream's own client test writes it):
    XML local names -> values, None fields left out.  (Client.send's docstring and docs/codegen/wsdl_modeling.md
    show python field names instead, which DictDecoder rejects; the property does not speak about that.)"""
    ctx = ctx or XmlContext()
    if dataclasses.is_dataclass(obj) and not isinstance(obj, type):
        meta = ctx.build(type(obj))
        names = {v.name: v.local_name for v in meta.get_all_vars()}
        return {names[f.name]: _as_dict(getattr(obj, f.name), ctx) for f in dataclasses.fields(obj) if getattr(obj, f.name) is not None}
    if isinstance(obj, (list, tuple)):
        return [_as_dict(x, ctx) for x in obj]
    if isinstance(obj, enum.Enum):
        return obj.value
    return obj


USER_HEADERS = [None, {"User-Agent": "vmc"}, {"content-type": "application/json", "SOAPAction": "urn:evil", "X-Trace": "1"}]


@harness("c17.soap")
def h_soap(ch: Chooser, vec: list, maxfeat: int, maxops: int):
    w = definition_from_vector(vec, maxfeat, maxops)
    files = GW.render(w)
    case = {"wsdl": files["svc.wsdl"], "features": w.features}
    if len(files) > 1:
        case["other_files"] = {k: v for k, v in files.items() if k != "svc.wsdl"}
    feats = "+".join(w.features) or "base"
    ent = get_generated(w, files)
    mode = ch.pick(MODES, "mode", free=True)
    case["mode"] = mode

    def bad(kind: str, detail: str, op=None, **facts):
        kf = known(w, op, mode, kind, detail, facts)
        # unanalysed outcomes are bucketed by what went wrong and the kind of operation, not by every combination of deviations
        if kind.startswith(("client-headers", "client-posts", "client-payload")):
            return dict(ok=False, case=case, bucket=kf or kind, detail=detail[:1500])
        where = f"{op.style}/{op.shape}" + ("+header" if op.input.headers else "") + ("+fault" if op.faults else "") if op is not None else feats
        return dict(ok=False, case=case, bucket=kf or f"{kind}/{where}", detail=detail[:1500])

    # oracle 1: generation succeeds, the package imports
    if ent["problem"]:
        return bad(*ent["problem"])
    g = ent["gen"]

    if mode == "static":
        if len(ent["all_services"]) != len(w.ops) or len(ent["services"]) != len(w.ops):
            return bad("service-classes-missing", f"{len(w.ops)} operations, service classes {[s.__name__ for s in ent['all_services']]}")
        problems = []   # every check runs; an analysed defect must not hide another problem of the same definition
        for op in w.ops:
            svc = ent["services"][op.name]
            exp = GW.expected_description(w, op)
            # oracle 2: the service description
            for attr in ("style", "location", "transport"):
                if getattr(svc, attr, None) != exp[attr]:
                    problems.append(bad(f"service-{attr}-differs", f"{svc.__name__}.{attr} = {getattr(svc, attr, None)!r}, the binding says {exp[attr]!r}", op))
            act = getattr(svc, "soap_action", None)
            # an empty / absent soapAction carries no information: upstream's hello fixture documents that the constant is then left out
            if (act or "") != exp["soap_action"]:
                problems.append(bad("service-soap_action-differs", f"{svc.__name__}.soap_action = {act!r}, the binding says {exp['soap_action']!r}", op))
            for attr in ("input", "output"):
                cls = getattr(svc, attr, None)
                if not (isinstance(cls, type) and dataclasses.is_dataclass(cls)):
                    problems.append(bad(f"service-{attr}-class-missing", f"{svc.__name__}.{attr} = {cls!r}", op))
                    continue
                r = call(XmlContext().build_recursive, cls)
                if r[0] == "exc":
                    problems.append(bad("envelope-class-unusable", f"{svc.__name__}.{attr}: {r[1]!r}", op))
                    continue
                meta = call(XmlContext().build, cls)
                if meta[0] == "exc" or meta[1].qname != f"{{{GW.ENV_NS}}}Envelope":
                    problems.append(bad("envelope-class-wrong-root", f"{svc.__name__}.{attr} binds {meta[1].qname if meta[0] == 'ok' else meta[1]!r}", op))
            cfg = call(Config.from_service, svc)
            if cfg[0] == "exc":
                problems.append(bad("config-from-service-fails", repr(cfg[1]), op))
            elif (cfg[1].location, cfg[1].transport, cfg[1].input, cfg[1].output) != (getattr(svc, "location", None), getattr(svc, "transport", None), getattr(svc, "input", None), getattr(svc, "output", None)):
                problems.append(bad("config-differs-from-service", f"{cfg[1]!r}", op))
        if problems:
            return next((p for p in problems if not p["bucket"].startswith("KF/")), problems[0])
        return dict(ok=True, case=case, obs="static:" + feats, nontrivial=h(("static", files["svc.wsdl"])), counters={"definitions": 1, "operations": len(w.ops)})

    op = w.ops[ch.choose(len(w.ops), "op", free=True)]
    case["operation"] = op.name
    svc = ent["services"].get(op.name)
    if svc is None or not all(hasattr(svc, a) for a in ("input", "output", "location", "transport")):
        return {"skip": True, "reason": "no usable service class (reported by the static mode)"}
    exp_desc = GW.expected_description(w, op)
    ctx = XmlContext()
    pg = GW.PayloadGen(ch)
    dflt = GW.PayloadGen(Chooser())

    # what varies in this execution
    if mode == "request":
        req_payload = pg.message(op.input)
        encoding = ch.pick([None, "utf-8"], "encoding")
        user_headers = ch.pick(USER_HEADERS, "user-headers")
        as_dict = ch.flag("send-dict")
        resp_kind, resp_payload = "output", dflt.message(op.output)
    elif mode == "response":
        req_payload = dflt.message(op.input)
        encoding, user_headers, as_dict = None, None, False
        resp_kind, resp_payload = "output", pg.message(op.output)
    else:
        req_payload = dflt.message(op.input)
        encoding, user_headers, as_dict = None, None, False
        resp_kind, resp_payload = "fault", pg.fault(op)
    case["request_payload"] = req_payload
    case["response_payload"] = resp_payload

    # oracle 3: the prescribed request envelope is accepted by the input class and comes out again unchanged
    req_doc, req_tree = _doc_and_tree(GW.envelope(w, op, "input", req_payload))
    case["request"] = req_doc
    p = _parse(ctx, req_doc, svc.input)
    if p[0] == "exc":
        return bad("prescribed-request-rejected", f"{p[1]!r}\n{req_doc}", op, exc=p[1], doc=req_doc)
    req_obj = p[1]
    r = _render_tree(ctx, req_obj)
    if r[0] == "exc":
        return bad("request-render-fails", f"{r[1]!r}\n{req_obj!r}", op)
    req_out, req_act = r[1]
    if req_act != req_tree:
        return bad("request-envelope-differs", f"prescribed {req_doc}\nserialized {req_out}\nobject {req_obj!r}", op, exp=req_tree, act=req_act)

    # the canned answer
    if resp_kind == "output":
        resp_doc, resp_tree = _doc_and_tree(GW.envelope(w, op, "output", resp_payload))
    else:
        resp_doc, resp_tree = _doc_and_tree(GW.fault_envelope(w, op, resp_payload))
    case["response"] = resp_doc
    canned = resp_doc.encode("utf-8")

    # oracle 4: the client posts exactly the serializer's bytes, with the required headers, to the endpoint
    kwargs = {"encoding": encoding} if encoding else {}
    c = call(Client.from_service, svc, **kwargs)
    if c[0] == "exc":
        return bad("client-from-service-fails", repr(c[1]), op)
    client = c[1]
    from xsdata.formats.dataclass.transports import DefaultTransport
    # a fault travels with HTTP 500 (SOAP 1.1 section 6.2); some servers answer 200: both are tried
    status = 200 if resp_kind == "output" else ch.pick([500, 200], "http.status", free=True)
    rec = RecordingSession(canned, status)
    client.transport = DefaultTransport(session=rec)
    ref = call(XmlSerializer(context=XmlContext()).render, req_obj)
    if ref[0] == "exc":
        return bad("request-render-fails", f"{ref[1]!r}\n{req_obj!r}", op)
    reference = ref[1]
    arg = req_obj
    if as_dict:
        a = call(_as_dict, req_obj)
        if a[0] == "exc":
            return bad("request-class-unusable", f"{a[1]!r}", op)
        arg = a[1]
    given_headers = dict(user_headers) if user_headers is not None else None
    s = call(client.send, arg, given_headers)
    if user_headers is not None and given_headers != dict(user_headers):
        # the caller's dictionary is the caller's: the next call made with it must not inherit this operation's SOAPAction / content type
        return bad("client-writes-into-the-callers-headers", f"headers passed {dict(user_headers)!r}, afterwards {given_headers!r}", op)
    if len(rec.calls) != 1:
        if s[0] == "exc":
            return bad("client-send-fails-before-posting", f"{s[1]!r}\nrequest {arg!r}", op, exc=s[1], as_dict=as_dict)
        return bad("client-posts-not-once", f"{len(rec.calls)} posts", op)
    url, data, headers = rec.calls[0]
    if url != exp_desc["location"]:
        return bad("client-posts-to-wrong-url", f"{url!r} instead of {exp_desc['location']!r}", op)
    want_data = reference.encode(encoding) if encoding else reference
    if data != want_data:
        return bad("client-payload-differs-from-serializer", f"posted {data!r}\nserializer {want_data!r}", op, as_dict=as_dict)
    try:
        posted_tree = I.strip_ws(I.canonical(data))
    except I.NotWellFormed as e:
        return bad("client-payload-not-well-formed", f"{e}\n{data!r}", op)
    if posted_tree != req_tree:
        return bad("client-payload-differs-from-prescribed-envelope", f"posted {data!r}\nprescribed {req_doc}", op, exp=req_tree, act=posted_tree)
    want_headers = {k: v for k, v in (user_headers or {}).items() if k.lower() not in ("content-type", "soapaction")}
    want_headers["content-type"] = "text/xml"
    got_headers = dict(headers)
    if exp_desc["soap_action"]:
        want_headers["SOAPAction"] = exp_desc["soap_action"]
    else:
        # no action to announce: the header may be absent or empty, and a SOAPAction the caller passed is the caller's business
        got_headers.pop("SOAPAction", None)
    if got_headers != want_headers:
        return bad("client-headers-differ", f"posted headers {headers!r}, required {want_headers!r}", op, headers=headers)

    # ... and returns the parsed output envelope
    if s[0] == "exc":
        return bad("client-cannot-parse-prescribed-response", f"{s[1]!r}\n{resp_doc}", op, exc=s[1], resp_kind=resp_kind, doc=resp_doc)
    res = s[1]
    if type(res) is not svc.output:
        return bad("client-returns-wrong-type", f"{type(res).__name__} instead of {svc.output.__name__}", op)
    d = _parse(XmlContext(), canned, svc.output, strict=False)
    if d[0] == "exc" or d[1] != res:
        return bad("client-result-differs-from-direct-parse", f"client {res!r}\ndirect {d[1]!r}", op)
    st = _parse(XmlContext(), canned, svc.output, strict=True)
    if st[0] == "exc":
        return bad("prescribed-response-rejected-under-strict-settings", f"{st[1]!r}\n{resp_doc}", op, exc=st[1], resp_kind=resp_kind, doc=resp_doc)
    rr = _render_tree(ctx, res)
    if rr[0] == "exc":
        return bad("response-render-fails", f"{rr[1]!r}\n{res!r}", op)
    if rr[1][1] != resp_tree:
        return bad("response-object-loses-content" if resp_kind == "output" else "fault-object-loses-content",
                   f"response {resp_doc}\nobject {res!r}\nre-serialized {rr[1][0]}", op, exp=resp_tree, act=rr[1][1], resp_kind=resp_kind)
    # oracle 5: the fault is populated
    if resp_kind == "fault":
        body = getattr(res, "body", None)
        fl = getattr(body, "fault", None)
        if fl is None:
            return bad("fault-not-populated", f"{res!r}", op)
        got = (getattr(fl, "faultcode", None), getattr(fl, "faultstring", None), getattr(fl, "faultactor", None))
        want = (resp_payload["faultcode"], resp_payload["faultstring"], resp_payload["faultactor"])
        if got != want:
            return bad("fault-fields-differ", f"{got!r} instead of {want!r}", op)
        if (resp_payload["detail"] is None) != (getattr(fl, "detail", None) is None):
            return bad("fault-detail-differs", f"{fl!r} for {resp_payload!r}", op)
        others = [f.name for f in dataclasses.fields(body) if f.name != "fault" and getattr(body, f.name) not in (None, [])]
        if others:
            return bad("fault-response-also-populates-output", f"{res!r}", op)
    return dict(ok=True, case=case, obs=f"{mode}:{op.style}:{op.shape}", nontrivial=h((files["svc.wsdl"], op.name, req_doc, resp_doc, encoding, repr(user_headers), as_dict)),
                counters={"payloads:" + mode: 1})


# ---------------------------------------------------------------------------------------
# analysed defects, recognised by predicates over the failing case and the wrong outcome


def _kids(tree):
    return [k for k in tree[2] if not isinstance(k, str)]


def known(w: GW.Wsdl, op, mode: str, kind: str, detail: str, facts: dict) -> str | None:
    exc = str(facts.get("exc", ""))
    env = f"{{{GW.ENV_NS}}}"
    if op is None:
        return None
    # (1) the binding lists soap:body before soap:header (the order of the WSDL 1.1 grammar): the envelope class gets
    #     body before header and the request is written <Body/> <Header/>; SOAP 1.1 section 4 wants Header first
    if kind in ("request-envelope-differs", "client-payload-differs-from-prescribed-envelope") and op.input.headers and not op.input.header_first:
        exp, act = facts["exp"], facts["act"]
        if [k[0] for k in _kids(act)] == [env + "Body", env + "Header"] and (act[0], act[1], tuple(reversed(act[2]))) == exp:
            return "KF/soap-header-written-after-body-when-binding-lists-body-first"
    # (2) a soap:header on wsdl:output makes `header` a required field of the output envelope; a fault answer (which the
    #     binding gives no header) is then rejected
    if kind in ("client-cannot-parse-prescribed-response", "prescribed-response-rejected-under-strict-settings") and facts.get("resp_kind") == "fault" \
            and op.output.headers and "missing 1 required keyword-only argument: 'header'" in exc:
        return "KF/fault-response-rejected-when-output-binds-a-header"
    # (3) no style attribute anywhere: WSDL 1.1 3.3 says document; the service class carries no style at all
    if kind == "service-style-differs" and w.style_on == "absent" and "style = None" in detail:
        return "KF/default-document-style-missing-from-service-class"
    # (3b) a SOAP 1.2 binding of the same port type (as in upstream's calculator fixture) yields classes of the same names; the last
    #      port wins, so the service class announces the SOAP 1.2 endpoint while its envelopes are SOAP 1.1
    if kind in ("service-location-differs", "client-posts-to-wrong-url") and w.soap12_port and repr(GW.soap12_location(w)) in detail:
        return "KF/soap12-port-of-the-same-port-type-overwrites-the-service-location"
    # (4) rpc: the response wrapper is expected under the output MESSAGE's name instead of operation name + "Response"
    if kind in ("client-cannot-parse-prescribed-response", "prescribed-response-rejected-under-strict-settings") and facts.get("resp_kind") == "output" \
            and op.style == "rpc" and op.output.message.name != op.name + "Response" and f"Body:{{{w.rpc_ns}}}{op.name}Response" in exc:
        return "KF/rpc-response-wrapper-named-after-message-instead-of-operation"
    # (5) rpc: the wrapper class is built from ALL parts of the message, also those soap:body/@parts leaves out (bound by soap:header)
    if kind == "prescribed-request-rejected" and op.style == "rpc" and op.input.body_parts is not None \
            and len(op.input.parts_in_body()) < len(op.input.message.parts) and "missing 1 required keyword-only argument: 'hdr'" in exc:
        return "KF/rpc-wrapper-demands-parts-that-soap-body-parts-excludes"
    # (6) soap:body parts="" (no part forms the body, WS-I BP R2202) is read as "all parts"
    if kind == "prescribed-request-rejected" and op.style == "document" and op.input.body_parts == [] and op.input.message.parts \
            and "missing 1 required keyword-only argument" in exc:
        return "KF/empty-soap-body-parts-read-as-all-parts"
    # (7), (8) the pairings WS-I BP forbids but WSDL 1.1 3.5 defines (on the output side when an operation answers with such a message)
    req = kind == "prescribed-request-rejected"
    resp = kind in ("client-cannot-parse-prescribed-response", "prescribed-response-rejected-under-strict-settings") and facts.get("resp_kind") == "output"
    parts = op.input.parts_in_body() if req else op.output.parts_in_body() if resp else []
    if op.style == "document" and any(p.element is None for p in parts) and "Unknown property" in exc:
        return "KF/document-style-part-by-type-is-wrapped-in-an-element-named-after-the-part"
    if op.style == "rpc" and any(p.element is not None for p in parts) and "Unknown property" in exc:
        return "KF/rpc-part-by-element-is-not-put-under-an-accessor-named-after-the-part"
    return None


def run(tier: str, seed: int) -> int:
    t0 = time.time()
    th = tier == "thorough"
    maxfeat = 3 if th else 2
    maxops = 4 if th else 2
    payload_bound = 2
    vecs = enumerate_definitions(maxfeat, maxops)
    tasks = [("c17.soap", dict(vec=v, maxfeat=maxfeat, maxops=maxops), payload_bound, ()) for v in vecs]
    stats = parallel(tasks, explore_task, chunk=4)
    confirm_violations(stats)
    for ent in _GEN.values():
        ent["gen"].cleanup()
    c = stats.counters
    return finish(
        PROP, tier, seed, "exploration", stats, t0,
        rule=(f"{len(vecs)} G-wsdl definitions (base: one document-style operation, parts by element, inline schema; + <= {maxfeat} deviations out of: 1-{maxops} operations, rpc style, style stated on "
              "soap:binding / soap:operation / both / nowhere, part shapes per operation (element of anonymous / named / simple type, no parts, rpc parts of builtin / complex / enumeration / restricted "
              "type, two rpc parts, the two non-BP pairings), soap:header from its own message / the body's message / after soap:body / on input and output, one or two faults, schema inline / "
              "xs:import / wsdl:import of an xsd / wsdl:import of an abstract WSDL / two inline schemas, schema namespace = or != the WSDL's, elementFormDefault, soapAction per operation / empty / "
              "absent / URL with query, endpoint with query string, operation and message naming, default-namespace WSDL, an additional SOAP 1.2 binding + port of the same port type, one output message shared by all operations) x every operation x {service description, requests, responses, faults} "
              f"x every payload with <= {payload_bound} non-default answers (optional elements, value alphabets, encoding, user headers incl. colliding ones, dictionary input, fault fields / detail)."),
        assumptions=["stand-ins for jinja2 / toposort / ruff / click (shims/, conformance-checked); `requests` is a names-only stand-in: the real DefaultTransport runs over a recording Session (HTTP 200, and 500 or 200 for faults)",
                     "expected envelopes are built from the WSDL AST with an explicit-prefix writer and read back by expat + libxml2, never by xsdata",
                     "rpc accessors are unqualified and the rpc response wrapper is operation name + 'Response' (WSDL 1.1 3.5, SOAP 1.1 7.1, WS-I BP R2729/R2735; upstream's hello fixture agrees)",
                     "an empty or absent soapAction may be announced as an empty SOAPAction header or not at all",
                     "one-way operations are outside the property (it asks for input and output envelope classes; Client.send always parses a response)"],
        bound={"deviations_per_definition": maxfeat, "max_operations": maxops, "payload_deviations": payload_bound, "definitions": len(vecs)},
        extra={"programs": len(vecs), "payloads": {k.split(":")[1]: v for k, v in c.items() if k.startswith("payloads:")}},
    )
