"""C18 -- Python-code rendering evaluates back to the object."""
from __future__ import annotations

import time

from .. import gmodel as G
from ..engine import Chooser, HarnessError, call, confirm_violations, explore_task, finish, harness, parallel
from ..eq import diff, same
from .c01 import pick_instance

from xsdata.formats.dataclass.context import XmlContext
from xsdata.formats.dataclass.serializers import PycodeSerializer

PROP = "C18"


def classify(spec: G.ModelSpec, exprs, obj, err: BaseException | None, d: str | None) -> str:
    """Root-cause bucket from the failing field's value kind."""
    if err is not None:
        et = type(err).__name__
        msg = str(err)
        if et == "NameError":
            return f"exec/NameError/{'inner-enum' if any('inner' in f.tags and 'enum' in f.tags for f in spec.fields) else 'other'}"
        if et == "AttributeError" and "datetime" in msg:
            return "exec/AttributeError/datetime-module-vs-class"
        return f"exec/{et}"
    if d:
        body = d.split(":", 1)[1].strip() if ":" in d else d
        w = body.split()
        if w and w[0] == "tuple" and "!= list" in body:
            return "value/tuple-rendered-as-list"
        if "!=" in w:
            return f"value/{w[0]}->{w[w.index('!=') + 1]}"
        return "value/" + (w[0] if w else "differs")
    return "?"


CATS = G.CATS_ALL + ["special"]


def twin_spec(spec: G.ModelSpec):
    """Same class names and fields in another module, but every default that can be changed is another value of the field's alphabet.
    Rendering an instance of the twin first leaves whatever the serializer remembers about 'class Root' from the wrong class."""
    import copy
    tw = copy.deepcopy(spec)
    changed = False
    for f in tw.fields:
        if f.default is None or "init-false" in f.tags:
            continue
        cur = f.default[8:] if f.default.startswith("factory:") else f.default
        for v in f.values:
            if v in ("<skip>", "None") or v == cur or "Root." in v:
                continue
            if cur in ("dict", "list") and v in ("{}", "[]"):
                continue
            f.default = v if v[0] not in "[{" and not v.startswith(("AnyElement", "DerivedElement", "Wrap", "Child", "Other")) else f"factory:lambda: {v}"
            changed = True
            break
    return tw if changed else None


@harness("c18.eval")
def h_eval(ch: Chooser, vec: list, maxf: int, free_values: bool = True):
    spec = G.model_from_vector(vec, maxf, CATS)
    model = G.Model(spec)
    try:
        exprs = pick_instance(ch, spec, free_values)
        var = ch.pick(["v", "obj"], "var_name")
        history = ch.choose(2, "serializer-history", free=True)
        case = {"model": model.source.split("XmlTime\n", 1)[-1].strip(), "instance": model.instance_source(exprs), "var": var}
        obj = model.instance(exprs)
        ser = PycodeSerializer(context=XmlContext())
        if history:
            # the same serializer has rendered an instance of a same-named class of another module before
            tw = twin_spec(spec)
            if tw is None:
                return {"skip": True, "reason": "no default of this model can be varied"}
            try:
                twin = G.Model(tw)
            except HarnessError:
                return {"skip": True, "reason": "twin model with other defaults does not compile"}
            try:
                case["history"] = "the serializer rendered an instance of this twin first: " + twin.source.split("XmlTime\n", 1)[-1].strip()
                t = call(lambda: ser.render(twin.instance(exprs), var))
                if t[0] == "exc":
                    return {"skip": True, "reason": "twin instance not renderable"}
            finally:
                twin.release()
        r = call(ser.render, obj, var)
        if r[0] == "exc":
            return dict(ok=False, case=case, bucket=f"render-raises/{type(r[1]).__name__}", detail=repr(r[1]))
        code = r[1]
        case["code"] = code
        ns: dict = {}
        e = call(exec, code, ns)
        if e[0] == "exc":
            return dict(ok=False, case=case, bucket=classify(spec, exprs, obj, e[1], None), detail=f"executing the rendered source raised {e[1]!r}\n{code}")
        if var not in ns:
            return dict(ok=False, case=case, bucket="variable-not-bound", detail=code)
        if not same(ns[var], obj):
            d = diff(obj, ns[var])
            return dict(ok=False, case=case, bucket=("after-twin/" if history else "") + classify(spec, exprs, obj, None, d), detail=f"{d}\n{code}")
        return dict(ok=True, case=case, obs=str(code.count("\n")), nontrivial=(G.h(model.source), tuple(exprs)))
    finally:
        model.release()


def run(tier: str, seed: int) -> int:
    t0 = time.time()
    th = tier == "thorough"
    maxf, dm, dv = (3, 4, 2) if th else (2, 3, 2)
    vecs = G.enumerate_models(dm, maxf, CATS, twins=True)
    tasks = []
    for v in vecs:
        tasks.append(("c18.eval", dict(vec=v, maxf=maxf, free_values=True), 0, ()))
        tasks.append(("c18.eval", dict(vec=v, maxf=maxf, free_values=False), dv, ()))
    stats = parallel(tasks, explore_task, chunk=16)
    confirm_violations(stats)
    return finish(
        PROP, tier, seed, "exploration", stats, t0,
        rule=(f"G-model binding models (<= {maxf} fields, <= {dm} grammar deviations; incl. inner classes and inner enums, frozen models with tuples, generics, "
              "attribute maps) x full product of the value alphabets (non-finite floats, Decimals, QNames, bytes, date/time values, empty and nested "
              "collections); rendered source is exec'd in an empty namespace and the bound variable compared structurally. Distinct = (model, instance)."),
        assumptions=["structural equality with exact leaf types, NaN-aware", "the synthetic model module is importable (in sys.modules) while the source runs",
                     "history leg: the serializer instance is either fresh or has just rendered the same values as an instance of a same-named class with other defaults from another module"],
        bound={"max_fields": maxf, "model_deviations": dm, "models": len(vecs)},
        extra={"programs": len(vecs)},
    )
