"""C07 -- the code generator always produces importable, bindable code.

(structural skeletons: an XSD with named slots, a DTD, irregular XML samples from G-tree, JSON samples)
x assignments of the hostile-name alphabet to the skeleton's name slots (all singles; all pairs of
colliding names in one scope) x option deviations.
"""
from __future__ import annotations

import ast
import dataclasses
import json
import signal
import time
import warnings

from .. import codegen as CG
from .. import gtree
from .. import infoset as I
from ..engine import (Chooser, HarnessError, Prune, call, confirm_violations, explore_task, explore_task_split, finish, h, harness, parallel, split_deep)

from xsdata.codegen.exceptions import CodegenError
from xsdata.formats.dataclass.context import XmlContext

PROP = "C07"
WATCHDOG_S = 120

# valid NCNames that are hostile for a Python code generator
HOSTILE_NCNAMES = [
    "class", "None", "match", "type", "field", "dataclass", "Enum", "Optional", "List", "_", "__", "_a", "a-b", "a.b", "a·b", "é", "été", "Δ",
    "fooBar", "foo_bar", "FooBar", "FOO", "value", "Value", "Meta", "self", "cls", "import", "in", "True", "object", "str", "int", "main", "pkgx", "Root", "root_",
    "A", "a1", "a_", "Type", "QName", "Decimal", "XmlDate", "field_", "init", "__init__", "mro", "name", "Dict", "Union", "ForwardRef", "attrs", "elements", "x-", "x.",
    "datetime", "typing", "dataclasses", "enum", "xsdata", "value_", "Any", "Tuple",
]
# values / keys that need not be names at all (enumeration values, JSON keys)
HOSTILE_VALUES = HOSTILE_NCNAMES[:20] + ["", "1", "1a", "a b", " ", "-", "--", "a--b", "é è", "123", "0x1", "a/b", "a\"b", "a'b", "a\\b", "A", "a", "__", "  a  ", "a\nb", "1.5", "-1", "+", "*", "@x", "#"]
# pairs that collide after case / punctuation normalisation
COLLISIONS = [
    ("fooBar", "foo_bar"), ("fooBar", "FooBar"), ("foo-bar", "foo_bar"), ("foo.bar", "foo_bar"), ("a", "A"), ("class", "class_"), ("Class", "class"), ("value", "Value"),
    ("a1", "a_1"), ("a-b", "a.b"), ("é", "e"), ("type", "Type"), ("_a", "a"), ("a_", "a"), ("None", "none"), ("A_B", "a_b"), ("aB", "ab"), ("x", "x_"), ("Meta", "meta"),
]
VALUE_COLLISIONS = COLLISIONS + [("", "value"), ("", "VALUE"), ("value", ""), ("1", "_1"), ("", " "), ("a b", "a_b"), ("1a", "a1"), ("-", "_"), ("a", "a "), ("1", "1.0"), ("A", "a")]

SLOTS = ["root", "e1", "e2", "e3", "a1", "a2", "t1", "s1", "v1", "v2", "v3"]
SAME_SCOPE = [("e1", "e2"), ("a1", "a2"), ("t1", "s1"), ("v1", "v2"), ("e1", "a1"), ("root", "t1"), ("e2", "t1"), ("e3", "e1")]
# three names of one scope that all collide after normalisation (renaming by index has to look at what it already handed out)
SAME_SCOPE3 = [("e1", "e2", "a1"), ("e1", "a1", "a2"), ("v1", "v2", "v3"), ("root", "t1", "s1")]
COLLISIONS3 = [("e_mail", "e-mail", "eMail"), ("kg", "KG", "Kg"), ("a_b", "a-b", "a.b"), ("fooBar", "foo_bar", "FooBar"), ("value", "Value", "VALUE"), ("x1", "x_1", "x-1")]
DEFAULT_NAMES = {"root": "root", "e1": "first", "e2": "second", "e3": "third", "a1": "attr", "a2": "other", "t1": "ItemType", "s1": "KindType", "v1": "alpha", "v2": "beta", "v3": "gamma"}


def xsd_skeleton(n: dict, tns: str | None = "urn:t") -> str:
    t = 'targetNamespace="urn:t" xmlns:t="urn:t" elementFormDefault="qualified"' if tns else ""
    p = "t:" if tns else ""
    e = I.esc_attr
    return f'''<?xml version="1.0" encoding="UTF-8"?>
<xs:schema xmlns:xs="http://www.w3.org/2001/XMLSchema" {t}>
  <xs:element name="{e(n["root"])}">
    <xs:complexType>
      <xs:sequence>
        <xs:element name="{e(n["e1"])}" type="{p}{e(n["t1"])}" maxOccurs="unbounded"/>
        <xs:element name="{e(n["e2"])}" minOccurs="0">
          <xs:complexType>
            <xs:sequence><xs:element name="{e(n["e3"])}" type="{p}{e(n["s1"])}" minOccurs="0"/></xs:sequence>
            <xs:attribute name="{e(n["a2"])}" type="xs:int"/>
          </xs:complexType>
        </xs:element>
      </xs:sequence>
      <xs:attribute name="{e(n["a1"])}" type="{p}{e(n["s1"])}"/>
      <xs:attribute name="{e(n["a2"])}" type="xs:string" default="d"/>
    </xs:complexType>
  </xs:element>
  <xs:complexType name="{e(n["t1"])}">
    <xs:sequence><xs:element name="{e(n["e3"])}" type="xs:string" minOccurs="0"/><xs:element name="{e(n["e1"])}" type="xs:int" minOccurs="0"/></xs:sequence>
    <xs:attribute name="{e(n["a1"])}" type="xs:string"/>
  </xs:complexType>
  <xs:simpleType name="{e(n["s1"])}">
    <xs:restriction base="xs:string">
      <xs:enumeration value="{e(n["v1"])}"/><xs:enumeration value="{e(n["v2"])}"/><xs:enumeration value="{e(n["v3"])}"/>
    </xs:restriction>
  </xs:simpleType>
</xs:schema>
'''


def xsd_two_namespaces(n: dict) -> dict:
    """The same type names in two namespaces, both used by one root: what the generated modules import from each other must
    still be the right classes under every structure style."""
    e = I.esc_attr
    main = f'''<?xml version="1.0" encoding="UTF-8"?>
<xs:schema xmlns:xs="http://www.w3.org/2001/XMLSchema" targetNamespace="http://example.test/a/types" xmlns:t="http://example.test/a/types" xmlns:o="http://example.test/b/types" elementFormDefault="qualified">
  <xs:import namespace="http://example.test/b/types" schemaLocation="other.xsd"/>
  <xs:element name="{e(n["root"])}">
    <xs:complexType>
      <xs:sequence>
        <xs:element name="{e(n["e1"])}" type="t:{e(n["t1"])}"/>
        <xs:element name="{e(n["e2"])}" type="o:{e(n["t1"])}"/>
        <xs:element name="{e(n["e3"])}" type="o:{e(n["s1"])}" minOccurs="0"/>
      </xs:sequence>
      <xs:attribute name="{e(n["a1"])}" type="t:{e(n["s1"])}"/>
      <xs:attribute name="{e(n["a2"])}" type="o:{e(n["s1"])}" default="{e(n["v2"])}"/>
    </xs:complexType>
  </xs:element>
  <xs:complexType name="{e(n["t1"])}">
    <xs:sequence><xs:element name="{e(n["e1"])}" type="xs:string"/><xs:element name="{e(n["e2"])}" type="o:{e(n["t1"])}" minOccurs="0"/></xs:sequence>
  </xs:complexType>
  <xs:simpleType name="{e(n["s1"])}">
    <xs:restriction base="xs:string"><xs:enumeration value="{e(n["v1"])}"/><xs:enumeration value="{e(n["v2"])}"/></xs:restriction>
  </xs:simpleType>
</xs:schema>
'''
    other = f'''<?xml version="1.0" encoding="UTF-8"?>
<xs:schema xmlns:xs="http://www.w3.org/2001/XMLSchema" targetNamespace="http://example.test/b/types" xmlns:o="http://example.test/b/types" elementFormDefault="qualified">
  <xs:complexType name="{e(n["t1"])}">
    <xs:sequence><xs:element name="{e(n["e3"])}" type="xs:int"/></xs:sequence>
    <xs:attribute name="{e(n["a2"])}" type="o:{e(n["s1"])}"/>
  </xs:complexType>
  <xs:simpleType name="{e(n["s1"])}">
    <xs:restriction base="xs:string"><xs:enumeration value="{e(n["v2"])}"/><xs:enumeration value="{e(n["v3"])}"/></xs:restriction>
  </xs:simpleType>
</xs:schema>
'''
    return {"main.xsd": main, "other.xsd": other}


def xsd_wrapper(n: dict) -> str:
    """A repeating element next to a wrapper element (of a global type) whose single repeating child has the same name."""
    e = I.esc_attr
    return f'''<?xml version="1.0" encoding="UTF-8"?>
<xs:schema xmlns:xs="http://www.w3.org/2001/XMLSchema" targetNamespace="urn:t" xmlns:t="urn:t" elementFormDefault="qualified">
  <xs:element name="{e(n["root"])}">
    <xs:complexType>
      <xs:sequence>
        <xs:element name="{e(n["e1"])}" type="xs:int"/>
        <xs:element name="{e(n["e2"])}" type="t:{e(n["t1"])}"/>
        <xs:element name="{e(n["e3"])}" minOccurs="0">
          <xs:complexType><xs:sequence><xs:element name="{e(n["e1"])}" type="xs:int" maxOccurs="unbounded"/></xs:sequence></xs:complexType>
        </xs:element>
      </xs:sequence>
      <xs:attribute name="{e(n["a1"])}" type="xs:string"/>
    </xs:complexType>
  </xs:element>
  <xs:complexType name="{e(n["t1"])}">
    <xs:sequence><xs:element name="{e(n["e1"])}" type="xs:string" maxOccurs="unbounded"/></xs:sequence>
  </xs:complexType>
</xs:schema>
'''


def xsd_compound(n: dict) -> str:
    """A repeating choice of two string elements (ambiguous for a compound field: the generator adds a reference class for each), an
    element with an anonymous complex type (an inner class) and an element of a global type."""
    e = I.esc_attr
    return f'''<?xml version="1.0" encoding="UTF-8"?>
<xs:schema xmlns:xs="http://www.w3.org/2001/XMLSchema" targetNamespace="urn:t" xmlns:t="urn:t" elementFormDefault="qualified">
  <xs:element name="{e(n["root"])}">
    <xs:complexType>
      <xs:choice maxOccurs="unbounded">
        <xs:element name="{e(n["e1"])}" type="xs:string"/>
        <xs:element name="{e(n["e2"])}" type="xs:string"/>
        <xs:element name="{e(n["e3"])}">
          <xs:complexType><xs:sequence><xs:element name="inner" type="xs:int"/></xs:sequence><xs:attribute name="{e(n["a2"])}" type="xs:int"/></xs:complexType>
        </xs:element>
        <xs:element name="item" type="t:{e(n["t1"])}"/>
      </xs:choice>
      <xs:attribute name="{e(n["a1"])}" type="xs:string"/>
    </xs:complexType>
  </xs:element>
  <xs:complexType name="{e(n["t1"])}">
    <xs:sequence><xs:element name="label" type="xs:string" minOccurs="0"/></xs:sequence>
  </xs:complexType>
</xs:schema>
'''


def dtd_skeleton(n: dict) -> str:
    return f'''<!ELEMENT {n["root"]} ({n["e1"]}+, {n["e2"]}?)>
<!ATTLIST {n["root"]} {n["a1"]} ({n["v1"]}|{n["v2"]}|{n["v3"]}) #IMPLIED {n["a2"]} CDATA "d">
<!ELEMENT {n["e1"]} (#PCDATA)>
<!ATTLIST {n["e1"]} {n["a1"]} CDATA #IMPLIED>
<!ELEMENT {n["e2"]} ({n["e3"]}*)>
<!ELEMENT {n["e3"]} EMPTY>
<!ATTLIST {n["e3"]} {n["a2"]} NMTOKEN #IMPLIED>
'''


OPTIONS = [
    ("default", {}, {}),
    ("clusters", {"structure_style": "clusters"}, {}),
    ("single-package", {"structure_style": "single-package"}, {}),
    ("namespaces", {"structure_style": "namespaces"}, {}),
    ("namespace-clusters", {"structure_style": "namespace-clusters"}, {}),
    ("compound", {"compound_fields.enabled": True}, {}),
    ("compound-forced", {"compound_fields.enabled": True, "compound_fields.force_default_name": True}, {}),
    ("wrapper", {"wrapper_fields": True}, {}),
    ("unnest", {"unnest_classes": True}, {}),
    ("frozen+slots", {"format.frozen": True, "format.slots": True}, {}),
    ("order+hash", {"format.order": True, "format.unsafe_hash": True}, {}),
    ("no-eq-repr", {"format.eq": False, "format.repr": False}, {}),
    ("docstring-numpy", {"docstring_style": "NumPy"}, {}),
    ("docstring-google", {"docstring_style": "Google"}, {}),
    ("docstring-accessible", {"docstring_style": "Accessible"}, {}),
    ("docstring-blank", {"docstring_style": "Blank"}, {}),
    ("relative", {"relative_imports": True}, {}),
    ("generic", {"generic_collections": True}, {}),
    ("line-20", {"max_line_length": 20}, {}),
    ("line-200", {"max_line_length": 200}, {}),
    ("ignore-patterns", {"ignore_patterns": True}, {}),
]
CASES = ["originalCase", "pascalCase", "camelCase", "snakeCase", "screamingSnakeCase", "mixedCase", "mixedSnakeCase", "mixedPascalCase"]
for _obj in ("class_name", "field_name", "constant_name", "module_name", "package_name"):
    for _c in CASES:
        OPTIONS.append((f"{_obj}={_c}", {}, {f"{_obj}.case": _c}))
OPTIONS.append(("safe-prefix-empty-ish", {}, {"field_name.safe_prefix": "x", "class_name.safe_prefix": "C", "constant_name.safe_prefix": "K"}))


def resolve(opts: dict, conv: dict):
    from xsdata.models.config import DocstringStyle, NameCase, StructureStyle
    o = {}
    for k, v in opts.items():
        if k == "structure_style":
            v = StructureStyle(v)
        if k == "docstring_style":
            v = DocstringStyle(v)
        o[k] = v
    c = {}
    for k, v in conv.items():
        c[k] = NameCase(v) if k.endswith(".case") else v
    return o, c


class Timeout(BaseException):  # not an Exception: library code that swallows Exception must not swallow the watchdog
    pass


def _alarm(signum, frame):
    raise Timeout()


def check_generated(g: CG.Generated, case: dict, label: str):
    """Oracle for one successful generation.  Returns a violation dict or None."""
    if g.error is not None:
        if isinstance(g.error, CodegenError):
            return None  # reported with the generator's own error type
        if isinstance(g.error, Timeout):
            return dict(ok=False, case=case, bucket=f"{label}/hang", detail=f"no result within {WATCHDOG_S}s")
        return dict(ok=False, case=case, bucket=f"{label}/internal-error-{type(g.error).__name__}", detail=f"{type(g.error).__name__}: {g.error}")
    # static: compiles, no duplicate field / class names
    for rel, text in g.files.items():
        try:
            tree = ast.parse(text, rel)
        except SyntaxError as e:
            return dict(ok=False, case={**case, "file": rel, "source": text[:2000]}, bucket=f"{label}/syntax-error", detail=f"{rel}: {e}")
        dup = find_duplicates(tree)
        if dup:
            return dict(ok=False, case={**case, "file": rel, "source": text[:3000]}, bucket=f"{label}/duplicate-{dup[0]}", detail=f"{rel}: {dup[1]}")
    try:
        mods = g.import_all()
    except BaseException as e:  # noqa
        if isinstance(e, (KeyboardInterrupt, SystemExit)):
            raise
        return dict(ok=False, case={**case, "files": {k: v[:1500] for k, v in g.files.items()}}, bucket=f"{label}/import-fails-{type(e).__name__}", detail=f"{type(e).__name__}: {e}")
    ctx = XmlContext()
    for cls in g.classes():
        try:
            ctx.build_recursive(cls)
        except Exception as e:  # noqa
            return dict(ok=False, case={**case, "class": cls.__qualname__}, bucket=f"{label}/metadata-fails-{type(e).__name__}", detail=f"{cls.__qualname__}: {type(e).__name__}: {e}")
        try:
            req = {f.name: None for f in dataclasses.fields(cls) if f.init and f.default is dataclasses.MISSING and f.default_factory is dataclasses.MISSING}
            cls(**req)
        except Exception as e:  # noqa
            return dict(ok=False, case={**case, "class": cls.__qualname__}, bucket=f"{label}/not-instantiable-{type(e).__name__}", detail=f"{cls.__qualname__}: {type(e).__name__}: {e}")
    return None


def find_duplicates(tree: ast.AST):
    imported = {}
    for node in tree.body:
        # only imports from sibling generated modules: those exist because a field refers to the sibling's class, so a class
        # of the same name in this module captures the reference (a library import that a class shadows is not used for it)
        if isinstance(node, ast.ImportFrom) and (node.level > 0 or (node.module or "").split(".")[0] == "pkgx"):
            for a in node.names:
                imported[a.asname or a.name] = node.module
    for node in tree.body:
        if isinstance(node, ast.ClassDef) and node.name in imported:
            return ("imported-name-redefined", f"class {node.name} is imported from {imported[node.name]} and defined again in the same module")

    def scope(body, where):
        names = {}
        for node in body:
            if isinstance(node, ast.ClassDef):
                if node.name in names:
                    return ("class-name", f"class {node.name} defined twice in {where}")
                names[node.name] = node
                fields = set()
                for st in node.body:
                    if isinstance(st, ast.AnnAssign) and isinstance(st.target, ast.Name):
                        if st.target.id in fields:
                            return ("field-name", f"field {st.target.id} twice in class {node.name}")
                        fields.add(st.target.id)
                    elif isinstance(st, ast.Assign) and len(st.targets) == 1 and isinstance(st.targets[0], ast.Name):
                        if st.targets[0].id in fields:
                            return ("member-name", f"member {st.targets[0].id} twice in class {node.name}")
                        fields.add(st.targets[0].id)
                r = scope(node.body, f"{where}.{node.name}")
                if r:
                    return r
        return None

    return scope(tree.body, "module")


def run_generation(sources, uris, opts, conv):
    o, c = resolve(opts, conv)
    old = signal.signal(signal.SIGALRM, _alarm)
    signal.alarm(WATCHDOG_S)
    try:
        return CG.generate(sources, uris, package="pkgx", options=o, conventions=c)
    finally:
        signal.alarm(0)
        signal.signal(signal.SIGALRM, old)


def pick_names(ch: Chooser, alphabet_names, alphabet_values):
    """All singles: one slot gets a hostile name; all pairs: two slots of one scope get a colliding pair."""
    n = dict(DEFAULT_NAMES)
    mode = ch.pick(["none", "single", "pair", "triple"], "names", free=True)
    desc = "default names"
    if mode == "single":
        slot = ch.pick(SLOTS, "slot", free=True)
        alpha = alphabet_values if slot in ("v1", "v2") else alphabet_names
        name = alpha[ch.choose(len(alpha), "name", free=True)]
        n[slot] = name
        desc = f"{slot}={name!r}"
    elif mode == "pair":
        s1, s2 = ch.pick(SAME_SCOPE, "scope", free=True)
        coll = VALUE_COLLISIONS if s1 in ("v1", "v2") else COLLISIONS
        a, b = coll[ch.choose(len(coll), "collision", free=True)]
        n[s1], n[s2] = a, b
        desc = f"{s1}={a!r}, {s2}={b!r}"
    elif mode == "triple":
        slots = ch.pick(SAME_SCOPE3, "scope3", free=True)
        names = COLLISIONS3[ch.choose(len(COLLISIONS3), "collision3", free=True)]
        rot = ch.choose(3, "rotation", free=True)
        names = names[rot:] + names[:rot]
        for sl, nm in zip(slots, names):
            n[sl] = nm
        desc = ", ".join(f"{sl}={nm!r}" for sl, nm in zip(slots, names))
    return n, desc


@harness("c07.xsd")
def h_xsd(ch: Chooser, kind: str):
    n, desc = pick_names(ch, HOSTILE_NCNAMES, HOSTILE_VALUES)
    if kind == "xsd-two-namespaces":
        # what this skeleton is about is how modules import from each other: the structure style and relative imports are free dimensions here
        oi = ch.choose(5, "structure-style", free=True)
        rel = ch.flag("relative-imports", free=True)
    elif kind == "xsd-wrapper":
        oi = [i for i, o in enumerate(OPTIONS) if o[0] in ("default", "wrapper", "compound")][ch.choose(3, "wrapper-option", free=True)]
    elif kind == "xsd-compound":
        oi = [i for i, o in enumerate(OPTIONS) if o[0] in ("compound", "compound-forced")][ch.choose(2, "compound-option", free=True)]
    else:
        oi = ch.choose(len(OPTIONS), "options")
    oname, opts, conv = OPTIONS[oi]
    if kind == "xsd":
        sources = {"main.xsd": xsd_skeleton(n)}
    elif kind == "xsd-two-namespaces":
        sources = xsd_two_namespaces(n)
        if rel:
            opts = {**opts, "relative_imports": True}
            oname += "+relative"
    elif kind == "xsd-wrapper":
        sources = {"main.xsd": xsd_wrapper(n)}
    elif kind == "xsd-compound":
        sources = {"main.xsd": xsd_compound(n)}
    elif kind == "xsd-no-namespace":
        sources = {"main.xsd": xsd_skeleton(n, None)}
    else:
        if any(not is_dtd_name(v) for k, v in n.items() if k not in ("t1", "s1")):
            return {"skip": True, "reason": "not a DTD name"}
        sources = {"main.dtd": dtd_skeleton(n)}
    src = "\n".join(sources.values())
    case = {"kind": kind, "names": desc, "options": oname, "source": src}
    if kind.startswith("xsd"):
        from lxml import etree
        import os, shutil, tempfile
        wd = tempfile.mkdtemp(prefix="vmc_c07_")
        try:
            for fn, text in sources.items():
                with open(os.path.join(wd, fn), "w", encoding="utf-8") as fh:
                    fh.write(text)
            etree.XMLSchema(etree.parse(os.path.join(wd, "main.xsd")))
        except (etree.XMLSchemaParseError, etree.XMLSyntaxError):
            return {"skip": True, "reason": "names do not form a valid schema (duplicate declarations etc.)"}
        finally:
            shutil.rmtree(wd, ignore_errors=True)
    else:
        from lxml import etree
        import io
        try:
            etree.DTD(io.StringIO(src))
        except etree.DTDParseError:
            return {"skip": True, "reason": "names do not form a valid DTD"}
    g = run_generation(sources, None, opts, conv)
    try:
        bad = check_generated(g, case, f"{kind}/{slot_kind(desc)}")
        if bad and oname.startswith(("class_name=", "field_name=")) and "Xml Text does not support typing `list[pkgx.main." in str(bad.get("detail")) and mode_of(desc) in ("pair", "triple"):
            # class names in a field-like case (or field names in a class-like case): the inner class of an anonymous type gets the very name of a
            # sibling field and replaces it in the class body
            bad["bucket"] = "KF/inner-class-named-like-a-sibling-field-under-non-pascal-class-names"
        if bad and kind == "xsd-wrapper" and oname == "wrapper" and bad["bucket"].endswith("/duplicate-field-name") and mode_of(desc) in ("pair", "triple"):
            # the wrapped child, its same-named sibling and a third field whose name collides with both after normalisation
            bad["bucket"] = "KF/wrapper-field-renaming-hands-out-one-name-twice-among-three-colliding-fields"
        if bad:
            return bad
        return dict(ok=True, case=case, obs="codegen-error" if g.error is not None else "ok", nontrivial=h((kind, desc, oname)),
                    counters={"codegen_error": 1} if g.error is not None else {})
    finally:
        g.cleanup()


def mode_of(desc: str) -> str:
    n = 0 if desc == "default names" else len(desc.split(", "))
    return {0: "none", 1: "single", 2: "pair", 3: "triple"}[n]


def slot_kind(desc: str) -> str:
    if desc == "default names":
        return "default-names"
    return "+".join(p.split("=")[0].strip() for p in desc.split(", "))


def is_dtd_name(v: str) -> bool:
    import re
    return bool(re.fullmatch(r"[A-Za-z_:À-˿Ͱ-ͽ][\w.\-:·]*", v)) and "·" not in v[:1]


def _one_local_name_in_two_namespaces(docs) -> bool:
    seen: dict = {}
    for d in docs:
        tree = I.canonical(d)

        def walk(t):
            q = t[0]
            ns, local = (q[1:].split("}", 1) if q.startswith("{") else (None, q))
            seen.setdefault(local, set()).add(ns)
            for k in t[2]:
                if not isinstance(k, str):
                    walk(k)
        walk(tree)
    return any(len(v) > 1 for v in seen.values())


@harness("c07.samples.xml")
def h_samples_xml(ch: Chooser, max_elems: int):
    """Arbitrary (irregular) well-formed XML samples: G-tree documents, one or two per source set."""
    root = gtree.gen(ch, max_elems)
    doc = gtree.document(root)
    two = ch.flag("second-sample")
    sources = {"s1.xml": doc}
    if two:
        r2 = gtree.gen(ch, max_elems)
        sources["s2.xml"] = gtree.document(r2)
    oi = ch.choose(len(OPTIONS), "options")
    oname, opts, conv = OPTIONS[oi]
    case = {"kind": "xml-samples", "samples": sources, "options": oname}
    g = run_generation(sources, None, opts, conv)
    try:
        bad = check_generated(g, case, "xml-samples")
        if bad and "unsupported operand type(s) for |: 'type' and 'str'" in str(bad.get("detail")):
            bad["bucket"] = "KF/sample-with-same-named-nested-elements-renders-a-union-with-a-quoted-forward-reference"
        elif bad and bad["bucket"] == "xml-samples/duplicate-class-name" and _one_local_name_in_two_namespaces(sources.values()):
            bad["bucket"] = "KF/samples-with-one-local-name-in-and-out-of-a-namespace-yield-one-class-twice"
        if bad:
            return bad
        return dict(ok=True, case=case, obs="codegen-error" if g.error is not None else "ok", nontrivial=h((tuple(sources.values()), oname)))
    finally:
        g.cleanup()


JSON_SHAPES = [
    lambda k: {k[0]: 1},
    lambda k: {k[0]: {k[1]: "a"}},
    lambda k: {k[0]: [1, 2], k[1]: None},
    lambda k: {k[0]: [{k[1]: 1}, {k[1]: "x", k[0]: True}]},
    lambda k: {k[0]: [], k[1]: {}},
    lambda k: [{k[0]: 1}, {k[1]: 2.5}],
    lambda k: {k[0]: {k[0]: {k[0]: 1}}},
    lambda k: {k[0]: [[1, 2], [3]]},
    lambda k: {k[0]: "2020-01-02", k[1]: "P1D"},
    lambda k: {k[0]: [1, "a", None, {k[1]: 1}]},
]
JSON_KEYS = ["a", "b"] + HOSTILE_VALUES


def _empty_key_object(x) -> bool:
    """True if somewhere an empty key holds an object (or an array of objects)."""
    if isinstance(x, dict):
        for k, v in x.items():
            if k == "" and (isinstance(v, dict) or (isinstance(v, list) and any(isinstance(i, dict) for i in v))):
                return True
            if _empty_key_object(v):
                return True
    if isinstance(x, list):
        return any(_empty_key_object(i) for i in x)
    return False


@harness("c07.samples.json")
def h_samples_json(ch: Chooser):
    si = ch.choose(len(JSON_SHAPES), "shape", free=True)
    k0 = JSON_KEYS[ch.choose(len(JSON_KEYS), "key0")]
    k1 = JSON_KEYS[1 + ch.choose(len(JSON_KEYS) - 1, "key1")]
    if k0 == k1:
        return {"skip": True, "reason": "same key"}
    oi = ch.choose(len(OPTIONS), "options")
    oname, opts, conv = OPTIONS[oi]
    doc = json.dumps(JSON_SHAPES[si]([k0, k1]))
    case = {"kind": "json-sample", "sample": doc, "options": oname}
    g = run_generation({"sample.json": doc}, None, opts, conv)
    try:
        bad = check_generated(g, case, "json-sample")
        if bad and isinstance(g.error, IndexError) and _empty_key_object(json.loads(doc)):
            bad["bucket"] = "KF/json-sample-empty-key-holding-an-object-IndexError"
        if bad:
            return bad
        return dict(ok=True, case=case, obs="codegen-error" if g.error is not None else "ok", nontrivial=h((doc, oname)))
    finally:
        g.cleanup()


def run(tier: str, seed: int) -> int:
    t0 = time.time()
    th = tier == "thorough"
    tasks = []
    # names are free dimensions (all singles, all colliding pairs); options are deviations (bound 1 = every single option set)
    opt_bound = 1 if th else 0
    for kind in ("xsd", "xsd-no-namespace", "dtd"):
        # (thorough: every option set x every hostile assignment on the namespaced XSD skeleton; the two other skeletons keep the default options)
        tasks.extend(split_deep(("c07.xsd", dict(kind=kind), opt_bound if kind == "xsd" else 0, ()), short=4, rounds=3))
    tasks.extend(split_deep(("c07.xsd", dict(kind="xsd-two-namespaces"), 0, ()), short=4, rounds=3))
    tasks.extend(split_deep(("c07.xsd", dict(kind="xsd-wrapper"), 0, ()), short=4, rounds=3))
    tasks.extend(split_deep(("c07.xsd", dict(kind="xsd-compound"), 0, ()), short=4, rounds=3))
    # every option set on the default names (and on a fixed hostile assignment) in both tiers
    tasks.append(("c07.xsd", dict(kind="xsd"), 1, (0,)))
    tasks.extend(split_deep(("c07.samples.xml", dict(max_elems=3 if th else 2), 2 if th else 1, ()), short=3, rounds=2))
    tasks.extend(split_deep(("c07.samples.json", {}, 2 if th else 1, ()), short=2, rounds=2))
    stats = parallel(tasks, explore_task_split, chunk=2)
    confirm_violations(stats)
    return finish(
        PROP, tier, seed, "exploration", stats, t0,
        rule=(f"XSD skeleton (with / without target namespace) and DTD skeleton with {len(SLOTS)} name slots (root, elements, attributes, complex and simple type names, enumeration values): every "
              f"single slot x {len(HOSTILE_NCNAMES)} hostile names ({len(HOSTILE_VALUES)} for enumeration values), every same-scope slot pair x {len(COLLISIONS)}+ colliding name pairs, {len(SAME_SCOPE3)} same-scope slot triples x {len(COLLISIONS3)} three-way collisions x 3 rotations"
              f"{', each x ' + str(len(OPTIONS)) + ' option sets on the namespaced XSD skeleton' if th else ''}; every option set on the default names; irregular XML samples (all G-tree documents within the bound, one or two per set) and JSON "
              f"samples (10 shapes x hostile keys) x option sets. Oracle: success or CodegenError within {WATCHDOG_S}s; every module compiles and imports; every class builds binding metadata and "
              "is instantiable; no duplicate field / class names in any scope; no module defines a class under a name it also imports."),
        assumptions=["stand-ins for jinja2 / toposort / click / ruff (ruff is a no-op: nothing about formatting is checked)", f"termination is a {WATCHDOG_S}s watchdog, not a proof",
                     "name assignments that make the source itself invalid (libxml2 rejects the schema / DTD) are skipped"],
        bound={"option_deviations_on_hostile_names": opt_bound, "slots": SLOTS},
        extra={"programs": stats.executions},
    )
