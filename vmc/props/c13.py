"""C13 -- models generated from sample documents accept those documents.

Hidden regular models (G-xsd restricted to consistent element names and canonical value spellings) =>
every set of 1-3 of their enumerated instance documents within the deviation bound; and all JSON
documents of a small grammar.  The schema is discarded: classes are generated from the samples alone.
"""
from __future__ import annotations

import collections
import json
import os
import time
import warnings

from lxml import etree

from .. import codegen as CG
from .. import gxsd as GX
from .. import infoset as I
from ..engine import Chooser, HarnessError, Prune, call, confirm_violations, explore, explore_task, explore_task_split, finish, h, harness, parallel, split_deep
from .c02 import _workdir

from xsdata.formats.dataclass.context import XmlContext
from xsdata.formats.dataclass.parsers import JsonParser, XmlParser
from xsdata.formats.dataclass.parsers.config import ParserConfig
from xsdata.formats.dataclass.serializers import JsonSerializer, XmlSerializer
from xsdata.formats.dataclass.serializers.config import SerializerConfig

PROP = "C13"
# features of the hidden model that keep the structure regular (every element name used consistently)
FEATURES = ["none", "no-namespace", "unqualified-elements", "qualified-attributes", "occurs-0-unbounded", "occurs-1-unbounded", "occurs-2-3", "choice", "choice-repeating",
            "sequence-repeating", "nested-anonymous", "attr-required", "attr-default", "nillable", "mixed", "typed-values", "import", "simple-content", "recursion",
            "enum-string", "list-type", "binary-values", "optional-run", "foreign-child-local-grandchild", "foreign-child-local-grandchild-no-namespace", "child-named-like-root"]
# canonical spellings only (the property: "values are spelled canonically")
CANON = {"boolean": ["true", "false"], "decimal": ["1.5", "-0.25", "3"], "float": ["1.5", "-2.5"], "dateTime": ["2020-01-02T03:04:05", "1999-12-31T23:59:59.500Z"],
         "gYear": ["2001", "1999Z"], "hexBinary": ["0AFF", "00"], "NMTOKENS": ["a b", "c"], "QName": ["xs:string"]}


def empty_and_structured_occurrence(docs) -> bool:
    """True if some element name occurs once completely empty (no attributes, children or text) and once with attributes or children."""
    from lxml import etree
    seen: dict = {}
    for d in docs:
        for e in etree.fromstring(d.encode("utf-8")).iter():
            if not isinstance(e.tag, str):
                continue
            attrs = [k for k in e.attrib if not k.startswith("{http://www.w3.org/2001/XMLSchema-instance}")]
            structured = bool(attrs or len(e))
            empty = not e.attrib and not len(e) and not (e.text or "").strip()
            seen.setdefault(e.tag, set()).update({"structured"} if structured else set(), {"empty"} if empty else set())
    return any({"structured", "empty"} <= v for v in seen.values())


def hidden_schema(ch: Chooser, max_features: int) -> GX.Schema:
    s = GX.base_schema()
    used = []
    for i in range(max_features):
        f = ch.pick(FEATURES, f"feature{i}")
        if f == "none":
            break
        if f in used or (used and FEATURES.index(f) < FEATURES.index(used[-1])):
            raise Prune("canonical feature order")
        if {"all", "choice", "mixed"} & set(used) and f in ("all", "choice", "mixed"):
            raise Prune("conflict")
        if "all" in used:
            raise Prune("xs:all replaces the base sequence")
        if f == "all" and any(u not in ("no-namespace", "unqualified-elements", "qualified-attributes", "attr-required", "attr-default") for u in used):
            raise Prune("xs:all replaces the base sequence")
        used.append(f)
        GX.apply_feature(s, f)
    return s


def canonical_values():
    """Temporarily narrow the value alphabets of G-xsd to canonical spellings."""
    saved = {k: list(v["vals"]) for k, v in GX.SIMPLE.items()}
    for k, v in CANON.items():
        GX.SIMPLE[k]["vals"] = list(v)
    return saved


def restore_values(saved):
    for k, v in saved.items():
        GX.SIMPLE[k]["vals"] = v


def tree_unordered(t):
    q, a, kids = t
    return (q, a, tuple(sorted((k if isinstance(k, str) else tree_unordered(k) for k in kids), key=repr)))


@harness("c13.xml")
def h_xml(ch: Chooser, vec: list, maxfeat: int, nsamples: int):
    saved = canonical_values()
    try:
        s = hidden_schema(Chooser(vec), maxfeat)
        files = GX.render(s)
        try:
            val = GX.validator(files, _workdir())
        except GX.InvalidSchema:
            return {"skip": True, "reason": "feature combination is not a valid schema"}
        docs = []
        for i in range(nsamples):
            if i and not ch.flag(f"sample{i}.present", free=True):
                break
            ig = GX.InstanceGen(s, ch)
            ig.n = i * 1000
            el = ig.document()
            text = el.write()
            if not val.validate(etree.fromstring(text.encode("utf-8"))):
                return {"skip": True, "reason": "generator_rejected", "counters": {"generator_rejected": 1}}
            docs.append(text)
    finally:
        restore_values(saved)
    if len(set(docs)) != len(docs):
        return {"skip": True, "reason": "identical samples"}
    sources = {f"sample{i}.xml": d for i, d in enumerate(docs)}
    case = {"hidden_schema_features": s.features, "samples": docs}
    g = CG.generate(sources, None, package="smp")
    try:
        feats = "+".join(s.features) or "base"
        if g.error is not None:
            return dict(ok=False, case=case, bucket=f"xml/generation-fails-{type(g.error).__name__}/{feats}", detail=f"{type(g.error).__name__}: {g.error}")
        try:
            g.import_all()
            root = g.find_class("Root")
            if root is None or "child-named-like-root" in s.features:
                # two classes compete for the name Root: the root class is the module-level class whose element name is `root`
                named = [c for c in g.classes() if "." not in c.__qualname__ and getattr(getattr(c, "Meta", None), "name", c.__name__) == "root"]
                root = named[0] if len(named) == 1 else root
            if root is None:
                raise RuntimeError(f"no Root class in {sorted(g.files)}")
            ctx = XmlContext()
            ctx.build_recursive(root)
        except Exception as e:  # noqa
            return dict(ok=False, case={**case, "files": {k: v[:1500] for k, v in g.files.items()}}, bucket=f"xml/generated-package-unusable/{feats}", detail=f"{type(e).__name__}: {e}")
        for i, d in enumerate(docs):
            with warnings.catch_warnings():
                warnings.simplefilter("error")
                p = call(XmlParser(context=ctx, config=ParserConfig(fail_on_unknown_properties=True, fail_on_converter_warnings=True)).from_string, d, root)
            c = {**case, "sample": d, "generated": next(v for k, v in g.files.items() if not k.endswith("__init__.py"))[:3000]}
            if p[0] == "exc":
                if "missing" in str(p[1]) and "required keyword-only argument" in str(p[1]) and empty_and_structured_occurrence(docs):
                    return dict(ok=False, case=c, bucket="KF/element-empty-in-one-occurrence-structured-in-another-keeps-required-members", detail=f"{p[1]!r}\n{d}")
                return dict(ok=False, case=c, bucket=f"xml/sample-not-accepted/{feats}/{type(p[1]).__name__}", detail=f"{p[1]!r}\n{d}")
            r = call(XmlSerializer(context=ctx, config=SerializerConfig(xml_declaration=False)).render, p[1])
            if r[0] == "exc":
                return dict(ok=False, case=c, bucket=f"xml/render-fails/{feats}", detail=repr(r[1]))
            try:
                a = I.strip_ws(resolve(I.parse_scoped(d)))
                b = I.strip_ws(resolve(I.parse_scoped(r[1])))
            except I.NotWellFormed as e:
                return dict(ok=False, case=c, bucket=f"xml/output-not-well-formed/{feats}", detail=str(e))
            if a != b:
                kind = "order-only" if tree_unordered(a) == tree_unordered(b) else "content"
                if kind == "order-only" and len(docs) > 1 and ({"sequence-repeating", "choice-repeating"} & set(s.features)) and "sequence" not in "".join(g.files.values()):
                    return dict(ok=False, case={**c, "output": r[1]}, bucket="KF/interleaved-repeats-lose-their-sequence-group-when-samples-are-merged",
                                detail=f"sample {d}\noutput {r[1]}")
                kf = nil_finding(a, b, [I.strip_ws(resolve(I.parse_scoped(x))) for x in docs]) if kind == "content" else None
                if kf:
                    return dict(ok=False, case={**c, "output": r[1]}, bucket=kf, detail=f"sample {d}\noutput {r[1]}\nparsed {p[1]!r}")
                return dict(ok=False, case={**c, "output": r[1]}, bucket=f"xml/sample-not-reproduced/{kind}/{feats}", detail=f"sample {d}\noutput {r[1]}\nparsed {p[1]!r}")
        return dict(ok=True, case=case, obs=str(len(docs)), nontrivial=h(tuple(docs)))
    finally:
        g.cleanup()


NIL = ("{http://www.w3.org/2001/XMLSchema-instance}nil", "true")


def _walk(t):
    yield t
    for k in t[2]:
        if not isinstance(k, str):
            yield from _walk(k)


def _map(t, fn):
    """rebuild a tree bottom-up; fn(tree) -> tree | None (dropped)"""
    kids = []
    for k in t[2]:
        if isinstance(k, str):
            kids.append(k)
        else:
            m = _map(k, fn)
            if m is not None:
                kids.append(m)
    return fn((t[0], t[1], tuple(kids)))


def nil_finding(sample, output, all_samples) -> str | None:
    """Analysed defects around xsi:nil in samples, located at the element concerned (anything else stays a violation)."""
    nil_names, valued_names = set(), set()
    for t in all_samples:
        for el in _walk(t):
            (nil_names if NIL in el[1] else valued_names).add(el[0])
    if not nil_names:
        return None
    both = nil_names & valued_names
    # 1. an element that is nil in one sample and carries a value in another: the value is lost (written back as nil)
    if both:
        blank = lambda t: (t[0], (), ()) if t[0] in both else t  # noqa
        if _map(sample, blank) == _map(output, blank) and any(el[0] in both and NIL in el[1] for el in _walk(output)):
            return "KF/element-nil-in-one-sample-loses-its-value-in-the-others"
        # ... and in mixed content the text following such an element is lost as well

        def drop_tail(t):
            kids, prev = [], None
            for k in t[2]:
                if isinstance(k, str) and prev is not None and prev[0] in both:
                    prev = None
                    continue
                kids.append(k)
                prev = None if isinstance(k, str) else k
            return (t[0], t[1], tuple(kids))

        if _map(_map(sample, blank), drop_tail) == _map(_map(output, blank), drop_tail):
            return "KF/element-nil-in-one-sample-drops-the-text-after-it-in-mixed-content"
    # 2. an element that some sample shows as nil is written as an explicit nil element where the sample had none
    drop_nil = lambda t: None if (t[0] in nil_names and NIL in t[1]) else t  # noqa
    so, oo = _map(sample, drop_nil), _map(output, drop_nil)
    nils = lambda t: sum(1 for el in _walk(t) if NIL in el[1])  # noqa
    if so == oo and nils(output) > nils(sample):
        return "KF/absent-element-that-another-sample-shows-nil-is-written-as-nil"
    return None


def resolve(node, scope=None):
    """canonical tree with prefixed values resolved (so that prefix choice does not matter)."""
    q, attrs, kids, decls = node
    scope = dict(scope or {})
    for p, u in decls:
        scope[p] = u

    def rv(v):
        p, sep, l = v.partition(":")
        if sep and p in scope and l and " " not in v:
            return f"{{{scope[p]}}}{l}"
        return v

    a = tuple(sorted((k, rv(v)) for k, v in attrs.items() if not k.startswith("{http://www.w3.org/2001/XMLSchema-instance}schemaLocation")))
    out = []
    for c in kids:
        out.append(rv(c) if isinstance(c, str) else resolve(c, scope))
    return (q, a, tuple(x for x in out if x != ""))


# ---------------------------------------------------------------------------------------
# JSON grammar

JTYPES = {
    "int": [1, -3, 0],
    "str": ["a", "b c", ""],
    "bool": [True, False],
    "float": [1.5, -0.25],
    "date": ["2020-01-02", "1999-12-31"],
    # one key that consistently holds a string or a number / a string or a boolean (falsy members included): the field is a union
    # and every value keeps its own type
    "str-or-int": ["x", 0, 7],
    "str-or-bool": ["maybe", False, True],
}
JKINDS = ["int", "str", "bool", "float", "date", "array-int", "array-str", "object", "array-objects", "str-or-int", "str-or-bool", "array-str-or-int"]


def gen_jschema(ch: Chooser, depth: int = 0) -> dict:
    """Hidden regular JSON model: key -> kind (consistent across all samples)."""
    keys = ["a", "b"] if depth == 0 else ["c", "d"]
    n = 1 + ch.choose(2, f"schema.d{depth}.nkeys")
    out = {}
    for k in keys[:n]:
        kinds = JKINDS if depth == 0 else JKINDS[:7]
        kind = ch.pick(kinds, f"schema.{k}.kind")
        out[k] = (kind, gen_jschema(ch, depth + 1) if kind in ("object", "array-objects") else None)
    return out


def gen_jdoc(ch: Chooser, schema: dict, tag: str) -> dict:
    """One sample of the hidden model: keys optional / null, arrays of length 0-2, values from the type alphabet."""
    doc = {}
    for k, (kind, sub) in schema.items():
        presence = ch.pick(["present", "absent", "null"], f"{tag}.{k}.presence")
        if presence == "absent":
            continue
        if presence == "null":
            doc[k] = None
            continue
        if kind in JTYPES:
            doc[k] = JTYPES[kind][ch.choose(len(JTYPES[kind]), f"{tag}.{k}.value")]
        elif kind.startswith("array-") and kind != "array-objects":
            vals = JTYPES[kind[6:]]
            n = [1, 0, 2][ch.choose(3, f"{tag}.{k}.len")]
            doc[k] = [vals[i % len(vals)] for i in range(n)]
        elif kind == "object":
            doc[k] = gen_jdoc(ch, sub, f"{tag}.{k}")
        else:
            n = [1, 0, 2][ch.choose(3, f"{tag}.{k}.len")]
            doc[k] = [gen_jdoc(ch, sub, f"{tag}.{k}[{i}]") for i in range(n)]
    return doc


def json_norm(x):
    """modulo key order and explicit nulls."""
    if isinstance(x, dict):
        return {k: json_norm(v) for k, v in sorted(x.items()) if v is not None and v != []}
    if isinstance(x, list):
        return [json_norm(v) for v in x]
    if isinstance(x, bool):
        return ("bool", x)     # True == 1 in Python, not in JSON
    return x


@harness("c13.json")
def h_json(ch: Chooser, vec: list, nsamples: int = 3):
    schema = gen_jschema(Chooser(vec))
    docs = [gen_jdoc(ch, schema, "s0")]
    for i in range(1, nsamples):
        if not ch.flag(f"sample{i}", free=True):
            break
        docs.append(gen_jdoc(ch, schema, f"s{i}"))
    texts = [json.dumps(d) for d in docs]
    if len(set(texts)) != len(texts):
        return {"skip": True, "reason": "identical samples"}
    if all(not d for d in docs):
        return {"skip": True, "reason": "empty samples"}
    sources = {f"sample{i}.json": t for i, t in enumerate(texts)}
    case = {"hidden_model": repr(schema), "samples": texts}
    g = CG.generate(sources, None, package="smp")
    try:
        if g.error is not None:
            return dict(ok=False, case=case, bucket=f"json/generation-fails-{type(g.error).__name__}", detail=f"{type(g.error).__name__}: {g.error}")
        try:
            g.import_all()
            root = g.find_class("Smp")
            if root is None:
                raise RuntimeError(f"no root class in {sorted(g.files)}")
            ctx = XmlContext()
            ctx.build_recursive(root)
        except Exception as e:  # noqa
            return dict(ok=False, case={**case, "files": {k: v[:1500] for k, v in g.files.items()}}, bucket="json/generated-package-unusable", detail=f"{type(e).__name__}: {e}")
        for t, d in zip(texts, docs):
            with warnings.catch_warnings():
                warnings.simplefilter("error")
                p = call(JsonParser(context=ctx, config=ParserConfig(fail_on_unknown_properties=True, fail_on_converter_warnings=True)).from_string, t, root)
            c = {**case, "sample": t, "generated": next(v for k, v in g.files.items() if not k.endswith("__init__.py"))[:3000]}
            if p[0] == "exc":
                return dict(ok=False, case=c, bucket=f"json/sample-not-accepted/{type(p[1]).__name__}/" + shape(d), detail=f"{p[1]!r}\n{t}")
            r = call(JsonSerializer(context=ctx).render, p[1])
            if r[0] == "exc":
                return dict(ok=False, case=c, bucket="json/render-fails", detail=repr(r[1]))
            if json_norm(json.loads(r[1])) != json_norm(d):
                return dict(ok=False, case={**c, "output": r[1]}, bucket="json/sample-not-reproduced/" + shape(d), detail=f"sample {t}\noutput {r[1]}")
        return dict(ok=True, case=case, obs=str(len(docs)), nontrivial=h(tuple(texts)))
    finally:
        g.cleanup()


def shape(d) -> str:
    ks = set()

    def walk(x):
        if isinstance(x, dict):
            for v in x.values():
                walk(v)
        elif isinstance(x, list):
            ks.add("empty-array" if not x else ("array-objects" if isinstance(x[0], dict) else "array-scalars"))
            if len({type(i).__name__ for i in x}) > 1:
                ks.add("mixed-array")
            for i in x:
                walk(i)
        elif x is None:
            ks.add("null")
        elif x == "":
            ks.add("empty-string")
    walk(d)
    return "+".join(sorted(ks)) or "plain"


def run(tier: str, seed: int) -> int:
    t0 = time.time()
    th = tier == "thorough"
    # (features of the hidden model, samples per set, non-minimal answers in total)
    passes = [(2, 2, 2), (2, 3, 1), (1, 4, 2), (1, 3, 3)] if th else [(1, 3, 2)]
    if os.environ.get("VERIF_C13_PASSES"):  # timing experiments only
        passes = [tuple(int(x) for x in p.split(",")) for p in os.environ["VERIF_C13_PASSES"].split(";") if p]
    tasks = []
    nmodels = []
    for maxfeat, nsamples, dev in passes:
        vecs = []

        def runm(ch):
            try:
                hidden_schema(ch, maxfeat)
                return True
            except Prune:
                return False

        explore(runm, maxfeat, lambda ch, ok: vecs.append(ch.choices) if ok else None)
        nmodels.append(len(vecs))
        for v in vecs:
            tasks.extend(split_deep(("c13.xml", dict(vec=v, maxfeat=maxfeat, nsamples=nsamples), dev, ()), short=2, rounds=2))
    # JSON: hidden key->kind models with <= jm deviations x sample sets with <= jd non-default answers
    jm, jd, jn = (3, 2, 3) if th else (2, 2, 2)
    jvecs = []
    explore(lambda ch: gen_jschema(ch), jm, lambda ch, sch: jvecs.append(list(ch.choices)))
    for v in jvecs:
        tasks.extend(split_deep(("c13.json", dict(vec=v, nsamples=jn), jd, ()), short=2, rounds=1))
    stats = parallel(tasks, explore_task_split, chunk=2)
    confirm_violations(stats)
    return finish(
        PROP, tier, seed, "exploration", stats, t0,
        rule=("XML passes " + "; ".join(f"{n} hidden regular models (G-xsd base + <= {mf} of {len(FEATURES) - 1} structure features, canonical value spellings) x every set of 1-{ns} instance documents with <= {dv} non-minimal answers in total"
                                        for n, (mf, ns, dv) in zip(nmodels, passes)) +
              " (occurrence counts, choice branches, optional attributes, values), each validated by libxml2 against the hidden schema, which is then discarded; "
              f"JSON: {len(jvecs)} hidden key->kind models (<= 2 levels, <= 2 keys per object, each key of one kind among 12: 5 scalar types, string-or-int, string-or-bool, arrays of int / str / string-or-int, object, array of objects; <= {jm} "
              f"non-default answers) x every set of 1-{jn} distinct documents of it (keys present / absent / null, arrays of 0-2 items, values from the type alphabet incl. '' and 0) with <= {jd} "
              "non-default answers in total. Classes are generated from the samples alone; every sample must parse strictly (no unknown property, no converter warning) and "
              "re-serialize to the same infoset / JSON value."),
        assumptions=["stand-ins for jinja2 / toposort / click / ruff", "XML comparison modulo prefixes and whitespace-only text next to elements; JSON modulo key order, explicit nulls and empty arrays (a list field cannot tell absent from empty)"],
        bound={"xml_passes(features,samples,deviations)": [list(p) for p in passes], "json(model_deviations,doc_deviations,samples)": [jm, jd, jn]},
        extra={"programs": stats.executions, "generator_rejected": stats.counters.get("generator_rejected", 0)},
    )
