"""C11 -- arbitrary XML survives the generic element model."""
from __future__ import annotations

import time

from .. import gtree
from .. import infoset as I
from ..engine import Chooser, HarnessError, call, confirm_violations, explore_task_split, finish, h, harness, parallel, split_deep
from ..eq import diff, same
from ..models import generic as M

from xsdata.formats.dataclass.context import XmlContext
from xsdata.formats.dataclass.models.generics import AnyElement, DerivedElement
from xsdata.formats.dataclass.parsers import TreeParser, XmlParser
from xsdata.formats.dataclass.parsers.handlers import LxmlEventHandler, XmlEventHandler
from xsdata.formats.dataclass.serializers import XmlSerializer
from xsdata.formats.dataclass.serializers.config import SerializerConfig
from xsdata.formats.dataclass.serializers.writers import LxmlEventWriter, XmlEventWriter

PROP = "C11"
HANDLERS = [("native", XmlEventHandler), ("lxml", LxmlEventHandler)]
WRITERS = [("native", XmlEventWriter), ("lxml", LxmlEventWriter)]

# placement -> (holder class, holder namespace, admission rule over the fragment root's namespace)
PLACEMENTS = {
    "tree-parser": None,
    "single-unconstrained": (M.HSingle, None, lambda ns: ns is None),
    "list-any": (M.HList, None, lambda ns: True),
    "mixed-any": (M.HMixed, None, lambda ns: True),
    "choice-any": (M.HChoice, None, lambda ns: True),
    "list-other": (M.HOther, "urn:h", lambda ns: ns is not None and ns != "urn:h"),
    "list-local": (M.HLocal, "urn:h", lambda ns: ns is None),
    "list-target": (M.HTarget, "urn:x", lambda ns: ns == "urn:x"),
    # a single (non-list) wildcard that has to absorb two sibling fragments
    "single-pair": (M.HSingle, None, lambda ns: ns is None),
    # mixed content in which one child is bound to a typed model (located by name) that has its own wildcard
    "mixed-typed-child": (M.HMixed, None, lambda ns: True),
    # mixed content in which one child is a simple typed field of the holder itself, with text behind it
    "mixed-primitive-child": (M.HMixedTyped, None, lambda ns: True),
}
WRAPPERS = {
    "mixed-primitive-child": lambda frag: f"<holder>lead<flag>true</flag>TAIL{frag}end</holder>",
    "single-pair": lambda frag: f"<holder>{frag}<zz k=\"1\"/></holder>",
    "mixed-typed-child": lambda frag: f"<holder>lead<note lang=\"en\">{frag}</note>TAIL<b/>end</holder>",
}


def root_ns(tree):
    q = tree[0]
    return q[1:].split("}")[0] if q[0] == "{" else None


def norm_ws(tree):
    """Drop whitespace-only text next to child elements (the property's stated exception)."""
    return I.strip_ws(tree)


def resolve_xsi(tree_scoped, scope=None):
    """canonical tree from a scoped tree with xsi:type values resolved to {uri}local."""
    q, attrs, kids, decls = tree_scoped
    scope = dict(scope or {})
    for p, u in decls:
        scope[p] = u
    a = {}
    for k, v in attrs.items():
        if k == f"{{{I.XSI}}}type":
            v = v.strip()
            p, _, l = v.rpartition(":")
            u = scope.get(p or None)
            v = f"{{{u}}}{l}" if u else l
        a[k] = v
    out = []
    qname_typed = a.get(f"{{{I.XSI}}}type") == f"{{{I.XS}}}QName"
    for c in kids:
        if isinstance(c, str) and qname_typed:
            # the content of an element typed xs:QName is a QName too: compared by expanded name
            p, sep, l = c.strip().rpartition(":")
            u = scope.get(p or None)
            c = (f"{{{u}}}{l}" if u else l) if (sep or u) else c.strip()
        out.append(c if isinstance(c, str) else resolve_xsi(c, scope))
    return (q, tuple(sorted(a.items())), tuple(x for x in out if x != ""))


def wrap(frag_text: str, holder_ns):
    if holder_ns:
        return f'<h:holder xmlns:h="{holder_ns}">{frag_text}</h:holder>'
    return f"<holder>{frag_text}</holder>"


def expected_any(tree):
    """Independent converter: canonical tree -> (qname, text, tail-less children, attribute keys),
    under the documented rules (whitespace-only text next to children dropped; '' for no text)."""
    q, attrs, kids = tree
    has_el = any(not isinstance(k, str) for k in kids)
    text = None
    out = []
    i = 0
    seq = list(kids)
    if seq and isinstance(seq[0], str):
        text = seq[0]
        seq = seq[1:]
    if has_el and text is not None and not text.strip():
        text = None
    if text is None:
        text = ""
    children = []
    j = 0
    while j < len(seq):
        c = seq[j]
        tail = None
        if j + 1 < len(seq) and isinstance(seq[j + 1], str):
            tail = seq[j + 1]
            j += 1
        if tail is not None and not tail.strip():
            tail = None
        children.append((expected_any(c), tail))
        j += 1
    return (q, text, children, tuple(sorted(k for k, _ in attrs)))


def actual_any(el):
    """AnyElement/DerivedElement -> same shape as expected_any (None if a typed value sits there)."""
    if isinstance(el, DerivedElement):
        return ("DERIVED", el.qname)
    if not isinstance(el, AnyElement):
        return ("VALUE", repr(el))
    children = []
    for c in el.children:
        t = getattr(c, "tail", None) if isinstance(c, AnyElement) else None
        children.append((actual_any(c), t))
    return (el.qname, el.text, children, tuple(sorted(el.attributes)))


def shape_equal(e, a) -> bool:
    if isinstance(a, tuple) and a and a[0] in ("DERIVED", "VALUE"):
        return True  # typed binding of an xsi:type'd primitive: value-level, judged by the infoset leg
    if e[0] != a[0] or e[3] != a[3]:
        return False
    et, at = e[1], a[1]
    if (et or "") != (at or ""):
        return False
    if len(e[2]) != len(a[2]):
        return False
    for (ec, etail), (ac, atail) in zip(e[2], a[2]):
        if (etail or None) != (atail or None):
            return False
        if not shape_equal(ec, ac):
            return False
    return True


@harness("c11.generic")
def h_generic(ch: Chooser, placement: str, max_elems: int):
    root = gtree.gen(ch, max_elems)
    frag = gtree.document(root)
    tree = I.canonical(frag)
    case = {"placement": placement, "fragment": frag}
    ctx = XmlContext()
    results = {}
    if placement == "tree-parser":
        for hname, handler in HANDLERS:
            r = call(TreeParser(context=ctx, handler=handler).from_string, frag)
            if r[0] == "exc":
                return dict(ok=False, case={**case, "handler": hname}, bucket=f"tree-parser/{hname}/raises-{type(r[1]).__name__}", detail=repr(r[1]))
            results[hname] = r[1]
            exp = expected_any(norm_ws(tree))
            act = actual_any(r[1])
            if not shape_equal(exp, act):
                return dict(ok=False, case={**case, "handler": hname}, bucket=f"tree-parser/{hname}/generic-tree-differs/" + feat(root),
                            detail=f"TreeParser built {r[1]!r}\nexpected shape {exp!r}")
        if not same(results["native"], results["lxml"]):
            return dict(ok=False, case=case, bucket="tree-parser/handlers-disagree/" + feat(root), detail=diff(results["native"], results["lxml"]))
        return dict(ok=True, case=case, obs="tree", nontrivial=h(frag))
    clazz, hns, admits = PLACEMENTS[placement]
    if not admits(root_ns(tree)):
        return {"skip": True, "reason": "fragment not admitted by the wildcard's namespace constraint (rejection is C10's clause)"}
    doc = WRAPPERS[placement](frag) if placement in WRAPPERS else wrap(frag, hns)
    if hns:
        # holders that live in a namespace: the user map making that namespace the default is always tried
        ser_map = [None, {None: hns}][ch.choose(2, "serializer.ns_map", free=True)]
    else:
        ser_map = [None, {None: "urn:x"}, {"x": "urn:y"}][ch.choose(3, "serializer.ns_map")]
    case["document"] = doc
    case["serializer_ns_map"] = repr(ser_map)
    doc_tree = resolve_xsi(I.parse_scoped(doc))
    tp = None
    for hname, handler in HANDLERS:
        r = call(XmlParser(context=ctx, handler=handler).from_string, doc, clazz)
        c = {**case, "handler": hname}
        if r[0] == "exc":
            return dict(ok=False, case=c, bucket=f"{placement}/{hname}/parse-raises-{type(r[1]).__name__}/" + feat(root), detail=repr(r[1]))
        results[hname] = r[1]
        # (iii) the stand-alone tree parser builds the same generic tree
        if tp is None:
            t = call(TreeParser(context=ctx, handler=handler).from_string, frag)
            tp = t[1] if t[0] == "ok" else None
        got = r[1]
        items = getattr(got, "any", None) if placement != "mixed-any" else getattr(got, "content", None)
        first = items if not isinstance(items, list) else next((x for x in items if not isinstance(x, str)), None)
        if placement not in WRAPPERS and isinstance(first, AnyElement) and isinstance(tp, AnyElement):
            a, b = actual_any(first), actual_any(tp)
            if a != b:
                return dict(ok=False, case=c, bucket=f"{placement}/{hname}/differs-from-tree-parser/" + feat(root), detail=f"wildcard: {first!r}\ntree parser: {tp!r}")
        # (ii) render(parse(d)) has the same infoset
        for wname, writer in WRITERS:
            s = call(XmlSerializer(context=ctx, config=SerializerConfig(xml_declaration=False), writer=writer).render, got, dict(ser_map) if ser_map else None)
            cc = {**c, "writer": wname}
            if s[0] == "exc":
                return dict(ok=False, case=cc, bucket=f"{placement}/{hname}-{wname}/render-raises-{type(s[1]).__name__}/" + feat(root), detail=repr(s[1]))
            cc["output"] = s[1]
            try:
                out_tree = resolve_xsi(I.parse_scoped(s[1]))
            except I.NotWellFormed as e:
                return dict(ok=False, case=cc, bucket=f"{placement}/{wname}/output-not-well-formed/" + feat(root), detail=f"{e}\n{s[1]}")
            if norm_ws(out_tree) != norm_ws(doc_tree):
                dl = delta(norm_ws(doc_tree), norm_ws(out_tree))
                kf = known(norm_ws(doc_tree), norm_ws(out_tree))
                bucket = kf or (f"{placement}/roundtrip-infoset/" + dl + "/" + feat(root))
                return dict(ok=False, case=cc, bucket=bucket, detail=f"input  {doc}\noutput {s[1]}\nparsed {got!r}")
    if not same(results["native"], results["lxml"]):
        return dict(ok=False, case=case, bucket=f"{placement}/handlers-disagree/" + feat(root), detail=diff(results["native"], results["lxml"]))
    return dict(ok=True, case=case, obs=placement, nontrivial=h((placement, frag)))


def feat(root: I.El) -> str:
    fs = set()
    for el in root.iter():
        for k, v in el.attrs:
            if k == "xsi:type":
                fs.add("xsi-type")
            elif k == "q":
                fs.add("qname-valued-attr")
            elif ":" in k:
                fs.add("ns-attr")
        if any(isinstance(k, str) for k in el.kids) and any(isinstance(k, I.El) for k in el.kids):
            fs.add("mixed")
    return "+".join(sorted(fs)) or "plain"


XS_INTS = {f"{{{I.XS}}}{n}" for n in ("int", "short", "long", "integer", "byte")}


def first_diff(a, b, depth=0):
    """(kind, detail) of the first infoset difference: ('attr', key, va, vb) | ('text', attrs, ta, tb, rest equal, depth) | ('other',)."""
    if a[0] != b[0]:
        return ("other",)
    if a[1] != b[1]:
        ka, kb = dict(a[1]), dict(b[1])
        if set(ka) != set(kb):
            return ("other",)
        k = next(k for k in ka if ka[k] != kb[k])
        rest_equal = all(ka[x] == kb[x] for x in ka if x != k) and a[2] == b[2]
        return ("attr", k, ka[k], kb[k], rest_equal)
    if len(a[2]) != len(b[2]):
        return ("other",)
    for x, y in zip(a[2], b[2]):
        if isinstance(x, str) or isinstance(y, str):
            if x != y:
                rest = tuple(k for k in a[2] if k is not x) == tuple(k for k in b[2] if k is not y)
                return ("text", dict(a[1]), x, y, rest, depth) if isinstance(x, str) and isinstance(y, str) else ("other",)
        elif x != y:
            return first_diff(x, y, depth + 1)
    return ("none",)


def known(a, b) -> str | None:
    """Analysed defects, recognised by a predicate over input AND output (anything else falls through)."""
    d = first_diff(a, b)
    if d[0] == "text":
        _, attrs, ta, tb, rest, depth = d
        # generic (AnyElement) content keeps text as it is written and forgets prefix declarations that only values use: an element
        # typed xs:QName below the captured element comes back with its prefix unbound
        # (depth: 0 = the holder, 1 = the element the wildcard captures, which is bound as a typed value and keeps its namespace)
        if depth >= 2 and attrs.get(f"{{{I.XSI}}}type") == f"{{{I.XS}}}QName" and ta.startswith("{urn:qv}") and tb == ta.split("}", 1)[1] and rest:
            return "KF/qname-typed-text-in-generic-content-loses-its-prefix-declaration"
        return None
    if d[0] != "attr":
        return None
    _, k, va, vb = d[:4]
    if k == f"{{{I.XSI}}}type" and va in XS_INTS and vb in XS_INTS and va != vb:
        return "KF/xsi-typed-primitive-retyped-from-its-value"
    if not k.startswith("{") and ":" in va and vb.startswith("{") and vb.endswith("}" + va.split(":", 1)[1]):
        return "KF/prefixed-attribute-value-expanded-to-clark-notation"
    return None


def delta(a, b) -> str:
    """Kind of the first infoset difference."""
    if a[0] != b[0]:
        return "element-name"
    if a[1] != b[1]:
        ka, kb = dict(a[1]), dict(b[1])
        if set(ka) != set(kb):
            return "attribute-set"
        k = next(k for k in ka if ka[k] != kb[k])
        return "xsi-type-value" if k.endswith("}type") else "attribute-value"
    if len(a[2]) != len(b[2]):
        return "children"
    for x, y in zip(a[2], b[2]):
        if isinstance(x, str) or isinstance(y, str):
            if x != y:
                return "text"
        else:
            d = delta(x, y)
            if d:
                return d
    return ""


def run(tier: str, seed: int) -> int:
    t0 = time.time()
    th = tier == "thorough"
    max_elems, bound = (4, 3) if th else (3, 2)
    tasks = []
    for p in PLACEMENTS:
        tasks.extend(split_deep(("c11.generic", dict(placement=p, max_elems=max_elems), bound, ()), short=3, rounds=2))
    stats = parallel(tasks, explore_task_split, chunk=2)
    confirm_violations(stats)
    return finish(
        PROP, tier, seed, "exploration", stats, t0,
        rule=(f"G-tree documents: every tree shape with <= {max_elems} elements (depth <= 3) x <= {bound} non-default labels (7 namespace modes incl. default-namespace "
              "re-declaration / un-declaration / prefix re-binding, 2 names, 6 attribute kinds incl. namespaced, QName-valued and xsi:type'd primitives, 5 text and tail values) x "
              f"{len(PLACEMENTS)} placements (TreeParser; wildcard single / list / mixed / with typed choice; ##other / ##local / ##targetNamespace) x both handlers x both writers. "
              "Every generated document is re-parsed with expat and strict libxml2 and compared with the intended tree before use."),
        assumptions=["whitespace-only text next to child elements is excepted (property text)", "fragments the wildcard's namespace constraint does not admit are skipped (C10's clause)",
                     "the property's 'random for larger trees' clause is not addressed (sampling is outside this family)"],
        bound={"max_elements": max_elems, "label_deviations": bound, "placements": list(PLACEMENTS)},
    )
