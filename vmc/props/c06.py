"""C06 -- XML Schema date, time, duration and period types are exact.

Bounded-exhaustive enumeration of component products against the independent XSD
reference in vmc.xsdref (see DESIGN.md section 3, C06).
"""
from __future__ import annotations

import datetime as dt
import time

from .. import xsdref as X
from ..engine import (Chooser, HarnessError, Stats, call, confirm_violations, explore_task, finish, harness,
                      parallel)

from xsdata.models.datatype import XmlDate, XmlDateTime, XmlDuration, XmlPeriod, XmlTime

PROP = "C06"

YEARS = [2023, 2024, 2000, 1900, 400, 100, 4, 1, 0, -1, -4, -10000, 9999, 10000, 123456]
MONTHS = [1, 2, 3, 4, 5, 6, 7, 8, 9, 10, 11, 12, 0, 13]
DAYS = [1, 28, 29, 30, 31, 0, 32]
HOURS = [0, 12, 23, 24, 25]
MINUTES = [0, 59, 60]
SECONDS = [0, 59, 60]
FRACS = ["", ".0", ".5", ".50", ".05", ".123", ".123456", ".1234567", ".123456789", ".000000001",
         ".999999999", ".1234567891"]
OFFSETS = ["", "Z", "+00:00", "-00:00", "+14:00", "-14:00", "+05:30", "-09:59", "+14:01", "+15:00"]


def fmt_year(y: int) -> str:
    return ("-" if y < 0 else "") + f"{abs(y):04d}"


def _pick_date(ch: Chooser, free: bool):
    y = ch.pick(YEARS, "year", free)
    m = ch.pick(MONTHS, "month", free)
    d = ch.pick(DAYS, "day", free)
    return y, m, d


def _pick_time(ch: Chooser, free: bool):
    h = ch.pick(HOURS, "hour", free)
    mi = ch.pick(MINUTES, "minute", free)
    s = ch.pick(SECONDS, "second", free)
    f = ch.pick(FRACS, "frac", free)
    return h, mi, s, f


def _shape_ok_date(y, m, d):
    return True  # always two-digit month/day and >=4 digit year by construction


def _nonexistent(kind, y, m, d, h, mi, s, f):
    """True if the string is shaped like the datatype but denotes no real calendar
    date / time of day (the class of strings the property says must be rejected)."""
    bad = False
    if kind in ("date", "dateTime"):
        if not 1 <= m <= 12:
            bad = True
        elif not 1 <= d <= X.month_len(y, m):
            bad = True
    if kind in ("time", "dateTime"):
        if h > 24 or mi > 59 or s > 59:
            bad = True
        elif h == 24 and (mi or s or f.strip(".0")):
            bad = True
    return bad


@harness("c06.parse")
def h_parse(ch: Chooser, kind: str, free: bool, fixed: dict):
    """Lexical string -> from_string, compared with the reference."""
    fx = dict(fixed)
    y = m = d = h = mi = s = 0
    f = ""
    if kind in ("date", "dateTime"):
        if "year" in fx:
            y = fx["year"]
            m = ch.pick(MONTHS, "month", free)
            d = ch.pick(DAYS, "day", free)
        else:
            y, m, d = _pick_date(ch, free)
    if kind in ("time", "dateTime"):
        h, mi, s, f = _pick_time(ch, free)
    off = ch.pick(OFFSETS, "offset", free)
    if kind == "date":
        text = f"{fmt_year(y)}-{m:02d}-{d:02d}{off}"
        cls, ref = XmlDate, X.parse_date(text)
    elif kind == "time":
        text = f"{h:02d}:{mi:02d}:{s:02d}{f}{off}"
        cls, ref = XmlTime, X.parse_time(text)
    else:
        text = f"{fmt_year(y)}-{m:02d}-{d:02d}T{h:02d}:{mi:02d}:{s:02d}{f}{off}"
        cls, ref = XmlDateTime, X.parse_datetime(text)
    case = {"leg": "parse", "type": cls.__name__, "text": text}
    res = call(cls.from_string, text)
    if ref is not None:
        fr = X.frac_to_ns(ref.get("frac", ""))
        if fr is None:
            return {"skip": True, "reason": "more than nanosecond precision"}
        exp = {k: v for k, v in ref.items() if k != "frac"}
        if kind != "date":
            exp["fractional_second"] = fr
        if res[0] == "exc":
            return dict(ok=False, case=case, bucket=f"parse/{kind}/rejects-valid",
                        detail=f"{cls.__name__}.from_string({text!r}) raised {res[1]!r}; XSD-valid, expected {exp}")
        got = res[1]._asdict()
        if got != exp or type(res[1]) is not cls:
            return dict(ok=False, case=case, bucket=f"parse/{kind}/wrong-components",
                        detail=f"{cls.__name__}.from_string({text!r}) = {got}, XSD assigns {exp}")
        return dict(ok=True, case=case, obs="valid", nontrivial=text)
    if _nonexistent(kind, y, m, d, h, mi, s, f):
        if res[0] == "ok":
            why = "date" if kind == "date" or (kind == "dateTime" and (not 1 <= m <= 12 or not 1 <= d <= X.month_len(y, m))) else "time"
            return dict(ok=False, case=case, bucket=f"parse/{kind}/accepts-nonexistent-{why}",
                        detail=f"{cls.__name__}.from_string({text!r}) accepted -> {res[1]!r}; denotes no real calendar date / time of day")
        return dict(ok=True, case=case, obs="rejected", nontrivial=text)
    # lexically malformed in another way (offset beyond 14:00 ...): the property states nothing
    return dict(ok=True, case=case, obs="undemanded-" + res[0], counters={"undemanded_lexical": 1})


YEAR_SPELLINGS = ["0001", "02000", "+2000", "200", "00001", "-0000", "12345", "012345", "20000", "-02000"]


@harness("c06.yearspell")
def h_yearspell(ch: Chooser):
    ys = ch.pick(YEAR_SPELLINGS, "yearspell", True)
    kind = ch.pick(["date", "dateTime", "gYear", "gYearMonth"], "kind", True)
    off = ch.pick(["", "Z", "-05:00"], "offset", True)
    text = {"date": f"{ys}-02-03{off}", "dateTime": f"{ys}-02-03T04:05:06{off}", "gYear": f"{ys}{off}",
            "gYearMonth": f"{ys}-02{off}"}[kind]
    case = {"leg": "yearspell", "kind": kind, "text": text}
    if kind == "date":
        ref, fn = X.parse_date(text), XmlDate.from_string
    elif kind == "dateTime":
        ref, fn = X.parse_datetime(text), XmlDateTime.from_string
    else:
        r = X.parse_period(text)
        ref, fn = (r[1] if r else None), XmlPeriod
    res = call(fn, text)
    if ref is None:
        return dict(ok=True, case=case, obs="undemanded-" + res[0], counters={"undemanded_lexical": 1})
    if res[0] == "exc":
        return dict(ok=False, case=case, bucket=f"parse/{kind}/rejects-valid",
                    detail=f"{text!r} is XSD-valid but raised {res[1]!r}")
    if res[1].year != ref["year"]:
        return dict(ok=False, case=case, bucket=f"parse/{kind}/wrong-components",
                    detail=f"{text!r}: year {res[1].year} != {ref['year']}")
    return dict(ok=True, case=case, obs="valid", nontrivial=text)


# ---------------------------------------------------------------------------------------
# formatting: value -> str -> valid + parses back

V_YEARS = [2023, 2000, 1900, 1, 0, -1, -10000, 9999, 10000, 123456]
V_MD = [(1, 1), (1, 31), (2, 28), (2, 29), (3, 1), (3, 31), (4, 30), (6, 15), (12, 31), (10, 9)]
V_TIMES = [(0, 0, 0), (12, 30, 45), (23, 59, 59), (24, 0, 0), (1, 2, 3)]
V_FS = [0, 1, 999999999, 500000000, 120000000, 123000000, 123400000, 123456000, 123456700, 123456789, 1000, 1000000,
        999999, 10]
V_OFF = [None, 0, 840, -840, 330, -599, 1, -1, 60]


def _valid_value(y, m, d, h, mi, s, fs):
    if not 1 <= d <= X.month_len(y, m):
        return False
    if h == 24 and (mi or s or fs):
        return False
    return True


@harness("c06.format")
def h_format(ch: Chooser, kind: str, free: bool):
    y = m = d = h = mi = s = fs = 0
    if kind in ("date", "dateTime"):
        y = ch.pick(V_YEARS, "year", free)
        m, d = ch.pick(V_MD, "monthday", free)
    if kind in ("time", "dateTime"):
        h, mi, s = ch.pick(V_TIMES, "time", free)
        fs = ch.pick(V_FS, "fs", free)
    off = ch.pick(V_OFF, "offset", free)
    if not _valid_value(y, m, d, h, mi, s, fs):
        return {"skip": True, "reason": "not a valid value"}
    if kind == "date":
        v = XmlDate(y, m, d, off)
        cls, refp, xk = XmlDate, X.parse_date, "date"
    elif kind == "time":
        v = XmlTime(h, mi, s, fs, off)
        cls, refp, xk = XmlTime, X.parse_time, "time"
    else:
        v = XmlDateTime(y, m, d, h, mi, s, fs, off)
        cls, refp, xk = XmlDateTime, X.parse_datetime, "dateTime"
    case = {"leg": "format", "value": repr(v)}
    r = call(str, v)
    if r[0] == "exc":
        return dict(ok=False, case=case, bucket=f"format/{kind}/raises", detail=f"str({v!r}) raised {r[1]!r}")
    text = r[1]
    case["text"] = text
    ref = refp(text)
    if ref is None:
        return dict(ok=False, case=case, bucket=f"format/{kind}/invalid-lexical",
                    detail=f"str({v!r}) = {text!r} is not a valid xs:{xk}")
    exp = {k: val for k, val in ref.items() if k != "frac"}
    if kind != "date":
        exp["fractional_second"] = X.frac_to_ns(ref["frac"])
    if exp != v._asdict():
        return dict(ok=False, case=case, bucket=f"format/{kind}/wrong-text",
                    detail=f"str({v!r}) = {text!r} which denotes {exp}")
    back = call(cls.from_string, text)
    if back[0] == "exc":
        return dict(ok=False, case=case, bucket=f"format/{kind}/not-reparsed",
                    detail=f"from_string(str({v!r})) raised {back[1]!r}")
    b = back[1]
    if tuple(b) != tuple(v) or not (b == v):
        return dict(ok=False, case=case, bucket=f"format/{kind}/roundtrip",
                    detail=f"from_string(str(v)) = {b!r} != {v!r}")
    return dict(ok=True, case=case, obs=str(len(text)), nontrivial=text)


# ---------------------------------------------------------------------------------------
# conversions to / from the standard library

TZS = [None, dt.timezone.utc, dt.timezone(dt.timedelta(hours=5, minutes=30)), dt.timezone(dt.timedelta(hours=-9, minutes=-59)),
       dt.timezone(dt.timedelta(hours=14)), dt.timezone(dt.timedelta(hours=-14)), dt.timezone(dt.timedelta(minutes=-1))]
C_DATES = [(1, 1, 1), (1900, 2, 28), (2000, 2, 29), (2023, 12, 31), (9999, 12, 31), (1970, 1, 1)]
C_TIMES = [(0, 0, 0, 0), (23, 59, 59, 999999), (12, 0, 0, 1), (1, 2, 3, 123000), (7, 8, 9, 100000)]


def _same_dt(a, b):
    """Same instant and same awareness/offset."""
    if (a.tzinfo is None) != (b.tzinfo is None):
        return False
    if a.tzinfo is not None and a.utcoffset() != b.utcoffset():
        return False
    return a.replace(tzinfo=None) == b.replace(tzinfo=None)


@harness("c06.convert")
def h_convert(ch: Chooser):
    leg = ch.pick(["datetime", "date", "time", "date-datetime", "xml-to-std"], "leg", True)
    case = {"leg": "convert/" + leg}
    if leg == "xml-to-std":
        # values finer than the standard library's microseconds: the result is the value cut to microseconds -- never later than
        # the value, and less than one microsecond earlier
        fs = ch.pick([0, 1, 499, 500, 999, 1000, 123456499, 123456500, 123456789, 999999499, 999999500, 999999999], "fraction", True)
        kind = ch.pick(["dateTime", "time"], "kind", True)
        off = ch.pick([None, 0, 330, -840], "offset", True)
        hms = ch.pick([(0, 0, 0), (23, 59, 59), (12, 30, 45)], "hms", True)
        v = XmlDateTime(2000, 12, 31, *hms, fs, off) if kind == "dateTime" else XmlTime(*hms, fs, off)
        case["obj"] = repr(v)
        b = call(v.to_datetime if kind == "dateTime" else v.to_time)
        if b[0] == "exc":
            return dict(ok=False, case=case, bucket=f"convert/xml-to-std/{kind}/raises", detail=f"{v!r}: {b[1]!r}")
        o = b[1]
        got = (o.hour, o.minute, o.second, o.microsecond) + ((o.year, o.month, o.day) if kind == "dateTime" else ())
        want = hms + (fs // 1000,) + ((2000, 12, 31) if kind == "dateTime" else ())
        exp_off = None if off is None else dt.timedelta(minutes=off)
        if got != want or o.utcoffset() != exp_off:
            return dict(ok=False, case=case, bucket=f"convert/xml-to-std/{kind}/instant-changed", detail=f"{v!r} -> {o!r}; expected the value cut to microseconds {want}")
        return dict(ok=True, case=case, obs="x2s", nontrivial=repr(v))
    if leg in ("datetime", "date-datetime"):
        d = ch.pick(C_DATES, "date", True)
        t = ch.pick(C_TIMES, "time", True) if leg == "datetime" else (0, 0, 0, 0)
        tz = ch.pick(TZS, "tz", True)
        obj = dt.datetime(*d, *t, tzinfo=tz)
        case["obj"] = repr(obj)
        cls = XmlDateTime if leg == "datetime" else XmlDate
        r = call(lambda: cls.from_datetime(obj))
        if r[0] == "exc":
            return dict(ok=False, case=case, bucket=f"convert/{leg}/raises", detail=f"from_datetime({obj!r}) raised {r[1]!r}")
        v = r[1]
        # components must be those of the object
        exp_off = None if tz is None else int(tz.utcoffset(None).total_seconds() // 60)
        if leg == "datetime":
            exp = (obj.year, obj.month, obj.day, obj.hour, obj.minute, obj.second, obj.microsecond * 1000, exp_off)
        else:
            exp = (obj.year, obj.month, obj.day, exp_off)
        if tuple(v) != exp:
            return dict(ok=False, case=case, bucket=f"convert/{leg}/from-wrong", detail=f"from_datetime({obj!r}) = {v!r}, expected {exp}")
        # the textual form must denote the same instant
        refp = X.parse_datetime if leg == "datetime" else X.parse_date
        ref = refp(str(v))
        if ref is None:
            return dict(ok=False, case=case, bucket=f"convert/{leg}/text-invalid", detail=f"str({v!r}) = {str(v)!r} invalid")
        b = call(v.to_datetime)
        if b[0] == "exc":
            return dict(ok=False, case=case, bucket=f"convert/{leg}/to-raises", detail=f"{v!r}.to_datetime() raised {b[1]!r}")
        if not _same_dt(b[1], obj):
            return dict(ok=False, case=case, bucket=f"convert/{leg}/instant-changed", detail=f"{obj!r} -> {v!r} -> {b[1]!r}")
        return dict(ok=True, case=case, obs=str(v), nontrivial=repr(obj))
    if leg == "date":
        d = ch.pick(C_DATES, "date", True)
        obj = dt.date(*d)
        case["obj"] = repr(obj)
        r = call(lambda: XmlDate.from_date(obj).to_date())
        if r[0] == "exc" or r[1] != obj:
            return dict(ok=False, case=case, bucket="convert/date/roundtrip", detail=f"{obj!r} -> {r[1]!r}")
        if tuple(XmlDate.from_date(obj)) != (obj.year, obj.month, obj.day, None):
            return dict(ok=False, case=case, bucket="convert/date/from-wrong", detail=f"{XmlDate.from_date(obj)!r}")
        return dict(ok=True, case=case, obs="d", nontrivial=repr(obj))
    t = ch.pick(C_TIMES, "time", True)
    tz = ch.pick(TZS, "tz", True)
    obj = dt.time(*t, tzinfo=tz)
    case["obj"] = repr(obj)
    r = call(lambda: XmlTime.from_time(obj))
    if r[0] == "exc":
        return dict(ok=False, case=case, bucket="convert/time/raises", detail=repr(r[1]))
    v = r[1]
    exp_off = None if tz is None else int(tz.utcoffset(None).total_seconds() // 60)
    if tuple(v) != (obj.hour, obj.minute, obj.second, obj.microsecond * 1000, exp_off):
        return dict(ok=False, case=case, bucket="convert/time/from-wrong", detail=f"from_time({obj!r}) = {v!r}")
    b = call(v.to_time)
    if b[0] == "exc" or b[1] != obj or (b[1].tzinfo is None) != (obj.tzinfo is None) or b[1].utcoffset() != obj.utcoffset():
        return dict(ok=False, case=case, bucket="convert/time/instant-changed", detail=f"{obj!r} -> {v!r} -> {b[1]!r}")
    return dict(ok=True, case=case, obs=str(v), nontrivial=repr(obj))


# ---------------------------------------------------------------------------------------
# equality and ordering vs the timeline


def _cmp_values(kind: str, tz: bool, big: bool):
    """A fixed, ordered list of values built to sit next to each other on the timeline."""
    out = []
    if kind == "time":
        base = [(0, 0, 0, 0), (0, 0, 0, 1), (0, 0, 1, 0), (0, 0, 59, 999999999), (0, 1, 0, 0), (0, 59, 59, 0), (1, 0, 0, 0),
                (11, 59, 59, 999999999), (12, 0, 0, 0), (12, 0, 0, 1), (12, 0, 0, 1000), (23, 59, 59, 999999999), (24, 0, 0, 0),
                (13, 0, 0, 0), (6, 30, 0, 0), (12, 30, 0, 0)]
        offs = [0, 60, -60, 330, 840, -840] if tz else [None]
        for b in base:
            for o in offs:
                out.append(XmlTime(*b, o))
        return out
    dates = [(2000, 12, 31), (2001, 1, 1), (2000, 1, 31), (2000, 2, 1), (2000, 2, 28), (2000, 2, 29), (2000, 3, 1), (1900, 2, 28),
             (1900, 3, 1), (2023, 6, 30), (2023, 7, 1), (1, 1, 1), (0, 12, 31), (0, 1, 1), (-1, 12, 31), (-1, 1, 1), (-1, 6, 15),
             (9999, 12, 31), (10000, 1, 1),
             # the end of February in negative years (leap and common, century and 400-year rules)
             (-1, 2, 28), (-1, 3, 1), (-4, 2, 29), (-4, 3, 1), (-100, 2, 28), (-100, 3, 1), (-400, 2, 29), (-400, 3, 1)]
    times = [(0, 0, 0, 0), (0, 0, 0, 1), (23, 0, 0, 0), (23, 59, 59, 999999999), (24, 0, 0, 0), (12, 0, 0, 0)]
    if big:
        dates += [(2024, 2, 29), (2024, 3, 1), (1999, 12, 31), (400, 2, 29), (-4, 2, 29), (-10000, 1, 1), (123456, 1, 1), (2000, 4, 30), (2000, 5, 1)]
        times += [(0, 0, 1, 0), (0, 1, 0, 0), (1, 0, 0, 0), (12, 0, 0, 1000)]
    offs = [0, 60, -60, 840] if tz else [None]
    if big and tz:
        offs += [-840, 330]
    for d in dates:
        for t in times:
            for o in offs:
                out.append(XmlDateTime(*d, *t, o))
    return out


def _tl(v):
    if isinstance(v, XmlTime):
        return X.time_of_day_ns(v.hour, v.minute, v.second, v.fractional_second, v.offset)
    return X.timeline_ns(v.year, v.month, v.day, v.hour, v.minute, v.second, v.fractional_second, v.offset)


_CMP_CACHE: dict = {}


@harness("c06.cmp")
def h_cmp(ch: Chooser, kind: str, tz: bool, big: bool, ai: int):
    key = (kind, tz, big)
    vals = _CMP_CACHE.get(key)
    if vals is None:
        vals = _CMP_CACHE[key] = _cmp_values(kind, tz, big)
    a = vals[ai]
    b = vals[ch.choose(len(vals), "b", True)]
    ta, tb = _tl(a), _tl(b)
    case = {"leg": "cmp", "a": repr(a), "b": repr(b), "timeline_a_ns": ta, "timeline_b_ns": tb}
    exp = {"eq": ta == tb, "ne": ta != tb, "lt": ta < tb, "le": ta <= tb, "gt": ta > tb, "ge": ta >= tb}
    r = call(lambda: {"eq": a == b, "ne": a != b, "lt": a < b, "le": a <= b, "gt": a > b, "ge": a >= b})
    if r[0] == "exc":
        return dict(ok=False, case=case, bucket=f"cmp/{kind}/raises", detail=repr(r[1]))
    got = r[1]
    if got != exp:
        bad = sorted(k for k in exp if got[k] != exp[k])
        which = "equality" if set(bad) <= {"eq", "ne", "le", "ge"} and ta != tb and got["eq"] else (
            "equality" if ta == tb else "order")
        return dict(ok=False, case=case, bucket=f"cmp/{kind}/{which}",
                    detail=f"{a!r} vs {b!r}: timeline says {exp}, library says {got} (wrong: {bad})")
    return dict(ok=True, case=case, obs=("=" if ta == tb else "<" if ta < tb else ">"),
                nontrivial=(repr(a), repr(b)) if a is not b else None)


# ---------------------------------------------------------------------------------------
# durations and periods

D_INT = [None, "0", "1", "99", "007"]
D_SEC = [None, "0", "1", "99", "1.5", "0.000000001", "12.120"]


@harness("c06.duration")
def h_duration(ch: Chooser):
    neg = ch.flag("neg", True)
    parts = [ch.pick(D_INT, n, True) for n in ("Y", "M", "D", "H", "Mi")]
    sec = ch.pick(D_SEC, "S", True)
    t_always = ch.flag("emptyT", True)  # also try the (invalid) trailing 'T' spelling
    y, mo, d, hh, mi = parts
    text = ("-" if neg else "") + "P" + (f"{y}Y" if y else "") + (f"{mo}M" if mo else "") + (f"{d}D" if d else "")
    tpart = (f"{hh}H" if hh else "") + (f"{mi}M" if mi else "") + (f"{sec}S" if sec else "")
    if tpart or t_always:
        text += "T" + tpart
    case = {"leg": "duration", "text": text}
    ref = X.parse_duration(text)
    r = call(XmlDuration, text)
    if ref is None:
        return dict(ok=True, case=case, obs="undemanded-" + r[0], counters={"undemanded_lexical": 1})
    if r[0] == "exc":
        return dict(ok=False, case=case, bucket="duration/rejects-valid", detail=f"XmlDuration({text!r}) raised {r[1]!r}")
    v = r[1]
    got = dict(negative=v.negative, years=v.years, months=v.months, days=v.days, hours=v.hours, minutes=v.minutes, seconds=v.seconds)
    exp = dict(ref)
    if exp["seconds"] is not None:
        exp["seconds"] = float(exp["seconds"])
    if got != exp or any(type(got[k]) is not type(exp[k]) for k in got):
        return dict(ok=False, case=case, bucket="duration/wrong-components", detail=f"{text!r}: {got} != {exp}")
    if str(v) != text or not X.is_valid("duration", str(v)):
        return dict(ok=False, case=case, bucket="duration/format", detail=f"str(XmlDuration({text!r})) = {str(v)!r}")
    b = call(XmlDuration, str(v))
    if b[0] == "exc" or b[1] != v:
        return dict(ok=False, case=case, bucket="duration/roundtrip", detail=f"{text!r}")
    return dict(ok=True, case=case, obs="ok", nontrivial=text)


P_YEARS = [2001, 1, 0, -1, 10000, -12345, 123456]
P_OFF = ["", "Z", "+05:30", "-14:00", "+14:00", "-00:00"]


@harness("c06.period")
def h_period(ch: Chooser):
    kind = ch.pick(["gYear", "gYearMonth", "gMonth", "gMonthDay", "gDay"], "kind", True)
    y = ch.pick(P_YEARS, "year", True) if kind in ("gYear", "gYearMonth") else None
    m = ch.pick(MONTHS, "month", True) if kind in ("gYearMonth", "gMonth", "gMonthDay") else None
    d = ch.pick([1, 28, 29, 30, 31, 0, 32, 9], "day", True) if kind in ("gMonthDay", "gDay") else None
    off = ch.pick(P_OFF, "offset", True)
    text = {"gYear": lambda: fmt_year(y), "gYearMonth": lambda: f"{fmt_year(y)}-{m:02d}", "gMonth": lambda: f"--{m:02d}",
            "gMonthDay": lambda: f"--{m:02d}-{d:02d}", "gDay": lambda: f"---{d:02d}"}[kind]() + off
    case = {"leg": "period", "kind": kind, "text": text}
    ref = X.parse_period(text)
    r = call(XmlPeriod, text)
    nonexistent = (m is not None and not 1 <= m <= 12) or (d is not None and (d < 1 or d > (X.month_len(None, m) if m and 1 <= m <= 12 else 31)))
    if ref is None:
        if nonexistent and r[0] == "ok":
            return dict(ok=False, case=case, bucket=f"period/{kind}/accepts-nonexistent",
                        detail=f"XmlPeriod({text!r}) accepted; no such month/day")
        return dict(ok=True, case=case, obs="rejected-or-undemanded", nontrivial=text if nonexistent else None)
    if ref[0] != kind:
        raise HarnessError(f"period generator/ref mismatch {text} {ref}")
    if r[0] == "exc":
        return dict(ok=False, case=case, bucket=f"period/{kind}/rejects-valid", detail=f"XmlPeriod({text!r}) raised {r[1]!r}")
    v = r[1]
    got = dict(year=v.year, month=v.month, day=v.day, offset=v.offset)
    if got != ref[1]:
        return dict(ok=False, case=case, bucket=f"period/{kind}/wrong-components", detail=f"{text!r}: {got} != {ref[1]}")
    s = str(v)
    r2 = X.parse_period(s)
    if r2 is None or r2 != ref:
        return dict(ok=False, case=case, bucket=f"period/{kind}/format", detail=f"str(XmlPeriod({text!r})) = {s!r}")
    b = call(XmlPeriod, s)
    if b[0] == "exc" or not (b[1] == v):
        return dict(ok=False, case=case, bucket=f"period/{kind}/roundtrip", detail=text)
    return dict(ok=True, case=case, obs=kind, nontrivial=text)


# ---------------------------------------------------------------------------------------


def run(tier: str, seed: int) -> int:
    t0 = time.time()
    thorough = tier == "thorough"
    tasks = []
    # parsing: date and time are always full products; dateTime is the full product in
    # thorough and deviation-bounded (<=3 non-default components) in quick.
    for yi, y in enumerate(YEARS):
        tasks.append(("c06.parse", dict(kind="date", free=True, fixed={"year": y}), None, ()))
    tasks.append(("c06.parse", dict(kind="time", free=True, fixed={}), None, ()))
    if thorough:
        for y in YEARS:
            tasks.append(("c06.parse", dict(kind="dateTime", free=True, fixed={"year": y}), None, ()))
    else:
        # every year of the alphabet, <= 3 non-default components each (the seed selects nothing)
        for y in YEARS:
            tasks.append(("c06.parse", dict(kind="dateTime", free=False, fixed={"year": y}), 3, ()))
    tasks.append(("c06.yearspell", {}, None, ()))
    for kind in ("date", "time"):
        tasks.append(("c06.format", dict(kind=kind, free=True), None, ()))
    tasks.append(("c06.format", dict(kind="dateTime", free=thorough), None if thorough else 3, ()))
    tasks.append(("c06.convert", {}, None, ()))
    tasks.append(("c06.duration", {}, None, ()))
    tasks.append(("c06.period", {}, None, ()))
    for kind in ("time", "dateTime"):
        for tz in (True, False):
            n = len(_cmp_values(kind, tz, thorough))
            for ai in range(n):
                tasks.append(("c06.cmp", dict(kind=kind, tz=tz, big=thorough, ai=ai), None, ()))
    stats = parallel(tasks, explore_task, chunk=4)
    confirm_violations(stats)
    return finish(
        PROP, tier, seed, "exploration", stats, t0,
        rule=("component products over boundary sets (years incl. negative/0/5-digit, months 0..13, days 0..32, hours 0..25, "
              "minutes/seconds 0/59/60, 0-10 fraction digits, offsets up to +15:00) rendered to lexical strings and judged by an "
              "independent XSD 1.1 reference; all ordered pairs of adjacent-on-the-timeline time/dateTime values; all subsets of "
              "duration components; all g* shapes. A case is non-trivial and distinct by its lexical text / value pair."),
        assumptions=["vmc/xsdref.py implements XSD 1.1 Part 2 lexical/value mappings correctly (integer arithmetic, proleptic Gregorian)",
                     "timezoned and un-timezoned values are never compared with each other (XSD order is partial there)",
                     "rejection of lexically malformed strings other than nonexistent dates/times is not demanded"],
        bound={"dateTime_parse": "full product" if thorough else "<=3 non-default components of 7", "date/time/duration/period": "full product",
               "cmp": "all ordered pairs"},
    )
