"""C12 -- code generation is reproducible.

Model checking of the environment's answers (E4): the tree under test's code generator is loaded
through the set-order / id() owning transform, and for every source set of the corpus every choice
vector within the deviation bound over (set-iteration permutation at every reached site, id()
direction) must produce byte-identical files.  Plus: real PYTHONHASHSEED sweep in fresh processes,
generating twice in one process, and API vs config-file vs CLI-flag routes.
"""
from __future__ import annotations

import hashlib
import io
import json
import os
import shutil
import subprocess
import tempfile
import sys
import time
from pathlib import Path

from .. import codegen as CG
from .. import setorder
from ..engine import (Chooser, HarnessError, Stats, call, confirm_violations, explore_task, explore_task_split, finish, h, harness, parallel,
                      split_deep)

import xsdata.codegen.transformer  # noqa: E402,F401  (loaded through the transform installed by vmc.run)
import xsdata.cli  # noqa: E402,F401

PROP = "C12"
REPO = os.environ.get("VERIF_REPO", "/repo")
FIX = os.path.join(REPO, "tests", "fixtures")

CYCLE_XSD = '''<?xml version="1.0"?>
<xs:schema xmlns:xs="http://www.w3.org/2001/XMLSchema" targetNamespace="urn:cyc" xmlns:c="urn:cyc" elementFormDefault="qualified">
  <xs:element name="root" type="c:A"/>
  <xs:complexType name="A"><xs:sequence><xs:element name="b" type="c:B" minOccurs="0"/><xs:element name="k" type="c:Kind"/><xs:element name="u" type="c:U" minOccurs="0"/></xs:sequence></xs:complexType>
  <xs:complexType name="B"><xs:sequence><xs:element name="c" type="c:C" minOccurs="0" maxOccurs="unbounded"/></xs:sequence><xs:attribute name="n" type="xs:int"/></xs:complexType>
  <xs:complexType name="C"><xs:complexContent><xs:extension base="c:B"><xs:sequence><xs:element name="a" type="c:A" minOccurs="0"/></xs:sequence></xs:extension></xs:complexContent></xs:complexType>
  <xs:simpleType name="Kind"><xs:restriction base="xs:string"><xs:enumeration value="x"/><xs:enumeration value="y"/></xs:restriction></xs:simpleType>
  <xs:simpleType name="U"><xs:union memberTypes="xs:int xs:boolean xs:string xs:decimal"/></xs:simpleType>
  <xs:element name="open"><xs:complexType><xs:sequence><xs:any namespace="urn:two urn:one ##local urn:three" processContents="lax" minOccurs="0" maxOccurs="unbounded"/></xs:sequence>
    <xs:anyAttribute namespace="urn:two urn:one" processContents="lax"/></xs:complexType></xs:element>
  <xs:element name="other"><xs:complexType><xs:choice maxOccurs="unbounded"><xs:element name="p" type="xs:string"/><xs:element name="q" type="c:Kind"/><xs:element ref="c:root"/></xs:choice></xs:complexType></xs:element>
</xs:schema>
'''
TWO_NS_A = '''<?xml version="1.0"?>
<xs:schema xmlns:xs="http://www.w3.org/2001/XMLSchema" targetNamespace="urn:na" xmlns:a="urn:na" xmlns:b="urn:nb" elementFormDefault="qualified">
  <xs:import namespace="urn:nb" schemaLocation="nb.xsd"/>
  <xs:element name="top"><xs:complexType><xs:sequence><xs:element ref="b:leaf" maxOccurs="unbounded"/><xs:element name="own" type="a:Own"/></xs:sequence></xs:complexType></xs:element>
  <xs:complexType name="Own"><xs:sequence><xs:element name="x" type="b:LeafType" minOccurs="0"/></xs:sequence><xs:attribute name="mode" type="b:Mode"/></xs:complexType>
</xs:schema>
'''
TWO_NS_B = '''<?xml version="1.0"?>
<xs:schema xmlns:xs="http://www.w3.org/2001/XMLSchema" targetNamespace="urn:nb" xmlns:b="urn:nb" elementFormDefault="qualified">
  <xs:element name="leaf" type="b:LeafType"/>
  <xs:complexType name="LeafType"><xs:simpleContent><xs:extension base="xs:string"><xs:attribute name="mode" type="b:Mode"/></xs:extension></xs:simpleContent></xs:complexType>
  <xs:simpleType name="Mode"><xs:restriction base="xs:token"><xs:enumeration value="on"/><xs:enumeration value="off"/></xs:restriction></xs:simpleType>
</xs:schema>
'''


HUB_XSD = '''<?xml version="1.0"?>
<xs:schema xmlns:xs="http://www.w3.org/2001/XMLSchema" elementFormDefault="qualified">
  <xs:element name="tree" type="TreeType"/>
  <xs:complexType name="TreeType"><xs:sequence><xs:element name="hub" type="HubType" maxOccurs="unbounded"/><xs:element name="part" type="PartClass" minOccurs="0"/></xs:sequence></xs:complexType>
  <xs:complexType name="LeafOne"><xs:sequence><xs:element name="up" type="HubType" minOccurs="0"/></xs:sequence></xs:complexType>
  <xs:complexType name="LeafTwo"><xs:sequence><xs:element name="up" type="HubType" minOccurs="0"/></xs:sequence></xs:complexType>
  <xs:complexType name="LeafThree"><xs:sequence><xs:element name="up" type="HubType" minOccurs="0"/><xs:element name="side" type="LeafOne" minOccurs="0"/></xs:sequence></xs:complexType>
  <xs:complexType name="HubType"><xs:sequence>
    <xs:element name="one" type="LeafOne" minOccurs="0" maxOccurs="unbounded"/><xs:element name="two" type="LeafTwo" minOccurs="0"/><xs:element name="three" type="LeafThree" minOccurs="0"/>
  </xs:sequence></xs:complexType>
  <xs:complexType name="PartClass"><xs:sequence><xs:element name="n" type="xs:int"/></xs:sequence></xs:complexType>
</xs:schema>
'''
SAME_MAIN = '''<?xml version="1.0"?>
<xs:schema xmlns:xs="http://www.w3.org/2001/XMLSchema" targetNamespace="urn:main" xmlns:m="urn:main" xmlns:b="urn:bill" xmlns:s="urn:ship" elementFormDefault="qualified">
  <xs:import namespace="urn:bill" schemaLocation="billing_v1.xsd"/>
  <xs:import namespace="urn:ship" schemaLocation="shipping_v2.xsd"/>
  <xs:element name="order"><xs:complexType><xs:sequence>
    <xs:element name="bill" type="b:Address"/><xs:element name="ship" type="s:Address"/><xs:element name="own" type="m:Address" minOccurs="0"/>
    <xs:element name="kind" type="s:Kind" minOccurs="0"/>
  </xs:sequence></xs:complexType></xs:element>
  <xs:complexType name="Address"><xs:sequence><xs:element name="note" type="xs:string"/></xs:sequence></xs:complexType>
</xs:schema>
'''
SAME_BILL = '''<?xml version="1.0"?>
<xs:schema xmlns:xs="http://www.w3.org/2001/XMLSchema" targetNamespace="urn:bill" xmlns:b="urn:bill" elementFormDefault="qualified">
  <xs:complexType name="Address"><xs:sequence><xs:element name="street" type="xs:string"/></xs:sequence><xs:attribute name="kind" type="b:Kind"/></xs:complexType>
  <xs:simpleType name="Kind"><xs:restriction base="xs:string"><xs:enumeration value="home"/><xs:enumeration value="work"/></xs:restriction></xs:simpleType>
</xs:schema>
'''
SAME_SHIP = '''<?xml version="1.0"?>
<xs:schema xmlns:xs="http://www.w3.org/2001/XMLSchema" targetNamespace="urn:ship" xmlns:s="urn:ship" elementFormDefault="qualified">
  <xs:complexType name="Address"><xs:sequence><xs:element name="dock" type="xs:int"/></xs:sequence><xs:attribute name="kind" type="s:Kind"/></xs:complexType>
  <xs:simpleType name="Kind"><xs:restriction base="xs:string"><xs:enumeration value="sea"/><xs:enumeration value="air"/></xs:restriction></xs:simpleType>
</xs:schema>
'''
# structure styles are a dimension of the synthetic source sets (module assignment and cross-module imports depend on them)
STYLES = ["filenames", "clusters", "namespaces", "single-package", "namespace-clusters"]
STYLED = ["cycle", "two-namespaces", "hub", "same-name"]


def _read(rel):
    with open(os.path.join(FIX, rel), "rb") as f:
        return f.read()


def corpus() -> dict[str, dict]:
    """name -> {sources: {relpath: bytes/str}, uris: [relpaths]}  (quick = first entries)."""
    c = {
        "cycle": dict(sources={"cycle.xsd": CYCLE_XSD}, uris=["cycle.xsd"]),
        "two-namespaces": dict(sources={"na.xsd": TWO_NS_A, "nb.xsd": TWO_NS_B}, uris=["na.xsd"]),
        "hub": dict(sources={"hub.xsd": HUB_XSD}, uris=["hub.xsd"]),
        "same-name": dict(sources={"main.xsd": SAME_MAIN, "billing_v1.xsd": SAME_BILL, "shipping_v2.xsd": SAME_SHIP}, uris=["main.xsd"]),
        # a directory of samples whose merged field order follows the order in which the documents are processed
        "sample-directory": dict(sources={f"doc_{n}.xml": f"<r><k{i}>1</k{i}><shared>x</shared><z{11 - i}>2</z{11 - i}></r>"
                                          for i, n in enumerate(["m", "b", "x", "a", "q", "d", "z", "c", "k", "e", "w", "f"])}, uris=None),
        "primer": dict(sources={"order.xsd": _read("primer/order.xsd")}, uris=["order.xsd"]),
        "books": dict(sources={"schema.xsd": _read("books/schema.xsd")}, uris=["schema.xsd"]),
        "compound": dict(sources={"schema.xsd": _read("compound/schema.xsd")}, uris=["schema.xsd"], options={"compound_fields.enabled": True}),
        "dtd": dict(sources={"complete_example.dtd": _read("dtd/complete_example.dtd")}, uris=["complete_example.dtd"]),
        "hello-wsdl": dict(sources={"hello.wsdl": _read("hello/hello.wsdl"), "hello.xsd": _read("hello/hello.xsd")}, uris=["hello.wsdl"]),
        "artists-xml": dict(sources={f"art00{i}.xml": _read(f"artists/art00{i}.xml") for i in (1, 2, 3)}, uris=[f"art00{i}.xml" for i in (1, 2, 3)]),
        "annotations": dict(sources={"model.xsd": _read("annotations/model.xsd"), "units.xsd": _read("annotations/units.xsd")}, uris=["model.xsd"]),
        "calculator-wsdl": dict(sources={"services.wsdl": _read("calculator/services.wsdl")}, uris=["services.wsdl"]),
        "series-json": dict(sources={f: _read(f"series/samples/{f}") for f in sorted(os.listdir(os.path.join(FIX, "series", "samples")))[:3] if f.endswith(".json")}, uris=None),
    }
    return c


def digest(files: dict) -> str:
    hsh = hashlib.sha256()
    for k in sorted(files):
        hsh.update(k.encode())
        hsh.update(b"\0")
        hsh.update(files[k].encode("utf-8"))
        hsh.update(b"\1")
    return hsh.hexdigest()[:16]


def gen(entry: dict, package: str, extra_options: dict | None = None, reset=True, keep_cwd=None, cache=None, run_cwd=None):
    opts = dict(entry.get("options") or {})
    opts.update(extra_options or {})
    return CG.generate(entry["sources"], entry.get("uris"), package=package, options=_resolve(opts), reset_caches=reset, keep_cwd=keep_cwd, cache=cache, run_cwd=run_cwd)


def _resolve(opts: dict) -> dict:
    from xsdata.models.config import DocstringStyle, StructureStyle
    out = {}
    for k, v in opts.items():
        if k == "structure_style" and isinstance(v, str):
            v = StructureStyle(v)
        if k == "docstring_style" and isinstance(v, str):
            v = DocstringStyle(v)
        out[k] = v
    return out


def first_diff(a: dict, b: dict) -> str:
    for k in sorted(set(a) | set(b)):
        if a.get(k) != b.get(k):
            if k not in a or k not in b:
                return f"file {k} only in one run"
            la, lb = a[k].splitlines(), b[k].splitlines()
            for i, (x, y) in enumerate(zip(la, lb)):
                if x != y:
                    return f"{k}:{i + 1}: {x!r} != {y!r}"
            return f"{k}: length {len(la)} != {len(lb)}"
    return ""


_BASE: dict = {}


def style_opts(style: str) -> dict:
    return {} if style in ("", "filenames") else {"structure_style": style}


def baseline(name: str, entry: dict, opt_key: str = ""):
    key = (name, opt_key)
    if key not in _BASE:
        setorder.STATE["enabled"] = False
        setorder.reset_ids(False)
        try:
            g = gen(entry, "pkgx", style_opts(opt_key))
        finally:
            setorder.STATE["enabled"] = True
        if g.error is not None:
            g.cleanup()
            raise HarnessError(f"corpus entry {name} ({opt_key or 'filenames'}) does not generate: {g.error!r}")
        _BASE[key] = (dict(g.files), g.log)
        g.cleanup()
    return _BASE[key]


@harness("c12.setorder")
def h_setorder(ch: Chooser, name: str, style: str = ""):
    entry = corpus()[name]
    base_files, _ = baseline(name, entry, style)
    desc = ch.flag("id-direction")
    setorder.reset_ids(desc)
    setorder.STATE["sites"].clear()
    g = gen(entry, "pkgx", style_opts(style))
    try:
        sites = dict(setorder.STATE["sites"])
        perm_points = [(p[0], p[3]) for p in ch.points if p[0].startswith("setorder@") and p[3]]
        case = {"source_set": name, "structure_style": style or "filenames", "id_direction": "descending" if desc else "ascending", "non_default_set_orders": [f"{l} -> permutation #{c}" for l, c in perm_points],
                "owned_iteration_sites": len(sites)}
        if g.error is not None:
            return dict(ok=False, case=case, bucket=f"setorder/{name}/generation-fails-under-another-order", detail=repr(g.error))
        if g.files != base_files:
            site = perm_points[0][0].split("@")[1].split("#")[0] if perm_points else "id()"
            return dict(ok=False, case=case, bucket=f"setorder/output-depends-on/{site}", detail=first_diff(base_files, g.files))
        return dict(ok=True, case=case, obs=digest(g.files), nontrivial=h((name, style, desc, tuple(perm_points))) if (perm_points or desc) else None,
                    states=[h((name, style, s)) for s in sites], transitions=sum(sites.values()), counters={"owned_set_iterations": sum(sites.values())})
    finally:
        g.cleanup()


@harness("c12.twice")
def h_twice(ch: Chooser, name: str):
    """Generate twice in one process (same directory, caches NOT reset in between)."""
    entry = corpus()[name]
    setorder.STATE["enabled"] = False
    try:
        g1 = gen(entry, "pkgx")
        files1 = dict(g1.files)
        # second run in the same working directory, on top of the first output
        root = "pkgx"
        for m in [m for m in sys.modules if m == root or m.startswith(root + ".")]:
            del sys.modules[m]
        g2 = gen(entry, "pkgx", reset=False, keep_cwd=g1.workdir)
        case = {"source_set": name, "leg": "twice-in-one-process"}
        try:
            if g2.error is not None:
                return dict(ok=False, case=case, bucket=f"twice/{name}/second-run-fails", detail=repr(g2.error))
            if g2.files != files1:
                return dict(ok=False, case=case, bucket="twice/second-run-differs", detail=first_diff(files1, g2.files))
            # the same again with the cache of parsed classes: the run that writes the cache and the run that reads it
            # both produce what a run without the cache produces
            cache_file = None
            try:
                for leg, mode in (("cache-written", "fresh"), ("cache-read", "reuse")):
                    for m in [m for m in sys.modules if m == root or m.startswith(root + ".")]:
                        del sys.modules[m]
                    g3 = gen(entry, "pkgx", reset=False, keep_cwd=g1.workdir, cache=mode)
                    cache_file = getattr(g3, "cache_file", None) or cache_file
                    c3 = {"source_set": name, "leg": leg}
                    if g3.error is not None:
                        if leg == "cache-read" and isinstance(g3.error, KeyError) and any(r.endswith(".wsdl") for r in entry["sources"]):
                            return dict(ok=False, case=c3, bucket="KF/wsdl-classes-read-from-the-cache-carry-stale-class-references", detail=repr(g3.error))
                        return dict(ok=False, case=c3, bucket=f"twice/{leg}/run-fails", detail=repr(g3.error))
                    if g3.files != files1:
                        return dict(ok=False, case=c3, bucket=f"twice/{leg}/differs-from-run-without-cache", detail=first_diff(files1, g3.files))
            finally:
                if cache_file is not None:
                    cache_file.unlink(missing_ok=True)
            # the same sources (absolute uris) while the process stands in another directory, which holds unrelated files under the
            # names the sources use for each other (schemaLocation / location are relative to the referring document, never to cwd)
            secondary = [r for r in entry["sources"] if entry.get("uris") and r not in entry["uris"]]
            if secondary:
                other = tempfile.mkdtemp(prefix="vmc_c12cwd_")
                try:
                    for r in secondary:
                        pth = os.path.join(other, r)
                        os.makedirs(os.path.dirname(pth), exist_ok=True)
                        with open(pth, "w") as fh:
                            fh.write('<?xml version="1.0"?>\n<xs:schema xmlns:xs="http://www.w3.org/2001/XMLSchema"><xs:element name="decoy" type="xs:string"/></xs:schema>\n')
                    for m in [m for m in sys.modules if m == root or m.startswith(root + ".")]:
                        del sys.modules[m]
                    g4 = gen(entry, "pkgx", reset=False, keep_cwd=g1.workdir, run_cwd=other)
                    c4 = {"source_set": name, "leg": "other-working-directory", "decoys": secondary}
                    if g4.error is not None:
                        return dict(ok=False, case=c4, bucket="twice/other-cwd/run-fails", detail=repr(g4.error))
                    out4 = {k: v for k, v in g4.files.items() if k not in secondary}
                    if out4 != files1:
                        return dict(ok=False, case=c4, bucket="twice/other-cwd/differs", detail=first_diff(files1, out4))
                finally:
                    shutil.rmtree(other, ignore_errors=True)
            return dict(ok=True, case=case, obs=digest(files1), nontrivial=h(("twice", name)))
        finally:
            g2.cleanup()
    finally:
        setorder.STATE["enabled"] = True


CONVENTIONS = [
    ("default", {}),
    ("class-snake", {"class_name.case": "snakeCase"}),
    ("class-prefix+field-pascal", {"class_name.safe_prefix": "K", "field_name.case": "pascalCase"}),
    ("module-mixed+constant-camel", {"module_name.case": "mixedCase", "constant_name.case": "camelCase"}),
]


def _resolve_conv(conv: dict) -> dict:
    from xsdata.models.config import NameCase
    return {k: NameCase(v) if k.endswith(".case") else v for k, v in conv.items()}


def gen_conv(entry: dict, conv: dict, reset=True, keep_cwd=None):
    opts = dict(entry.get("options") or {})
    return CG.generate(entry["sources"], entry.get("uris"), package="pkgx", options=_resolve(opts), conventions=_resolve_conv(conv), reset_caches=reset, keep_cwd=keep_cwd)


@harness("c12.sequence")
def h_sequence(ch: Chooser, name: str, pristine: dict):
    """Run the generator with one set of naming conventions and then with another in the same process: the second output must be what
    a pristine interpreter produces for it (digests computed in fresh processes by run())."""
    entry = corpus()[name]
    ai = ch.choose(len(CONVENTIONS), "first-conventions", free=True)
    bi = ch.choose(len(CONVENTIONS), "second-conventions", free=True)
    if ai == bi:
        return {"skip": True, "reason": "same conventions twice (covered by the twice leg)"}
    setorder.STATE["enabled"] = False
    try:
        a = gen_conv(entry, CONVENTIONS[ai][1])
        # same working directory, process-wide caches NOT reset; only the first run's output files are removed
        import shutil
        for rel in a.files:
            top = os.path.join(a.workdir, rel.split("/")[0])
            if os.path.isdir(top):
                shutil.rmtree(top, ignore_errors=True)
            elif os.path.exists(top):
                os.remove(top)
        for m in [m for m in sys.modules if m == "pkgx" or m.startswith("pkgx.")]:
            del sys.modules[m]
        b = gen_conv(entry, CONVENTIONS[bi][1], reset=False, keep_cwd=a.workdir)
        try:
            case = {"source_set": name, "first_run": CONVENTIONS[ai][0], "second_run": CONVENTIONS[bi][0]}
            want = pristine[CONVENTIONS[bi][0]]
            got = digest(b.files) if b.error is None else "ERROR " + repr(b.error)
            if got != want:
                return dict(ok=False, case=case, bucket=f"sequence/second-run-differs-from-pristine-process/{CONVENTIONS[bi][0]}",
                            detail=f"after a run with {CONVENTIONS[ai][0]!r} conventions the {CONVENTIONS[bi][0]!r} run gives {got}, a pristine interpreter gives {want}\n" +
                                   "\n".join(f"--- {k}\n{v[:600]}" for k, v in sorted(b.files.items()) if not k.endswith("__init__.py"))[:2500])
            return dict(ok=True, case=case, obs=got, nontrivial=h(("sequence", name, ai, bi)))
        finally:
            b.cleanup()
    finally:
        setorder.STATE["enabled"] = True


ROUTE_OPTIONS = [
    ("default", {}, []),
    ("frozen", {"format.frozen": True}, ["--frozen"]),
    ("slots+kw", {"format.slots": True}, ["--slots"]),
    ("clusters", {"structure_style": "clusters"}, ["--structure-style", "clusters"]),
    ("single-package", {"structure_style": "single-package"}, ["--structure-style=single-package"]),
    ("namespaces", {"structure_style": "namespaces"}, ["-ss", "namespaces"]),
    ("numpy", {"docstring_style": "NumPy"}, ["--docstring-style", "NumPy"]),
    ("unnest", {"unnest_classes": True}, ["--unnest-classes"]),
    ("compound", {"compound_fields.enabled": True}, ["--compound-fields"]),
    ("relative+generic", {"relative_imports": True, "generic_collections": True}, ["--relative-imports", "--generic-collections"]),
    ("line-length", {"max_line_length": 40}, ["--max-line-length", "40"]),
    ("no-eq", {"format.eq": False, "format.repr": False}, ["--no-eq", "--no-repr"]),
    ("wrapper", {"wrapper_fields": True}, ["--wrapper-fields"]),
]


@harness("c12.routes")
def h_routes(ch: Chooser, name: str):
    """API vs config file vs CLI flags for each single option deviation."""
    from click.testing import CliRunner
    from xsdata.cli import cli
    from xsdata.models.config import GeneratorConfig
    entry = corpus()[name]
    oi = ch.choose(len(ROUTE_OPTIONS), "option", free=True)
    oname, api_opts, cli_flags = ROUTE_OPTIONS[oi]
    if entry.get("options"):
        return {"skip": True, "reason": "corpus entry already carries options"}
    setorder.STATE["enabled"] = False
    try:
        case = {"source_set": name, "option": oname}
        a = gen(entry, "pkgx", api_opts)
        api_files, api_err = dict(a.files), a.error
        a.cleanup()
        results = {"api": (api_files, api_err)}
        for route in ("config-file", "cli-flags"):
            import tempfile
            import shutil
            wd = tempfile.mkdtemp(prefix="vmc_cg_")
            old = os.getcwd()
            try:
                for rel, text in entry["sources"].items():
                    p = Path(wd, rel)
                    p.parent.mkdir(parents=True, exist_ok=True)
                    p.write_bytes(text if isinstance(text, bytes) else text.encode("utf-8"))
                os.chdir(wd)
                CG.reset_process_caches()
                uris = entry.get("uris") or sorted(entry["sources"])
                src = uris[0] if len(uris) == 1 else "."
                if route == "config-file":
                    cfg = GeneratorConfig()
                    cfg.output.package = "pkgx"
                    cfg.output.update(**_resolve(api_opts))
                    os.makedirs("cfgdir", exist_ok=True)   # not next to the sources: *.xml files are sources too
                    with open("cfgdir/project.xsdata.xml", "w") as fp:
                        GeneratorConfig.write(fp, cfg)
                    args = ["generate", src, "--config", "cfgdir/project.xsdata.xml"]
                else:
                    args = ["generate", src, "--package", "pkgx"] + cli_flags
                if src == ".":
                    args += ["--extensions", ",".join(sorted({u.rsplit(".", 1)[-1] for u in uris}))]
                r = CliRunner().invoke(cli, args, catch_exceptions=True)
                files = {}
                for dp, _dn, fn in os.walk(wd):
                    for f in fn:
                        rel = os.path.relpath(os.path.join(dp, f), wd)
                        if rel.endswith(".py") and "__pycache__" not in rel:
                            files[rel] = open(os.path.join(dp, f), encoding="utf-8").read()
                results[route] = (files, r.exception if r.exit_code else None)
            finally:
                os.chdir(old)
                for m in [m for m in sys.modules if m == "pkgx" or m.startswith("pkgx.")]:
                    del sys.modules[m]
                while wd in sys.path:
                    sys.path.remove(wd)
                shutil.rmtree(wd, ignore_errors=True)
        for route in ("config-file", "cli-flags"):
            files, err = results[route]
            if (err is None) != (api_err is None):
                return dict(ok=False, case={**case, "route": route}, bucket=f"routes/{route}/one-route-fails/{oname}", detail=f"api: {api_err!r}; {route}: {err!r}")
            if api_err is None and files != api_files:
                return dict(ok=False, case={**case, "route": route}, bucket=f"routes/{route}/differs-from-api/{oname}", detail=first_diff(api_files, files))
        return dict(ok=True, case=case, obs=digest(api_files), nontrivial=h(("routes", name, oname)))
    finally:
        setorder.STATE["enabled"] = True


SEED_SCRIPT = r'''
import json, os, sys
sys.path.insert(0, {verif!r})
from vmc.props import c12
from vmc import setorder
setorder.STATE["enabled"] = False
out = {{}}
for name in {names!r}:
    g = c12.gen(c12.corpus()[name], "pkgx")
    out[name] = (c12.digest(g.files) if g.error is None else "ERROR " + repr(g.error))
    g.cleanup()
print("RESULT " + json.dumps(out))
'''


PRISTINE_SCRIPT = r'''
import json, os, sys
sys.path.insert(0, {verif!r})
from vmc.props import c12
from vmc import setorder
setorder.STATE["enabled"] = False
g = c12.gen_conv(c12.corpus()[{name!r}], dict(c12.CONVENTIONS)[{conv!r}])
print("RESULT " + json.dumps(c12.digest(g.files) if g.error is None else "ERROR " + repr(g.error)))
g.cleanup()
'''


def pristine_digests(names: list[str]) -> dict:
    """{name: {conventions name: digest}}, each from its own fresh interpreter (nothing generated before in that process)."""
    verif = os.path.dirname(os.path.dirname(os.path.dirname(os.path.abspath(__file__))))
    procs = {}
    for n in names:
        for cname, _ in CONVENTIONS:
            code = PRISTINE_SCRIPT.format(verif=verif, name=n, conv=cname)
            procs[(n, cname)] = subprocess.Popen([sys.executable, "-c", code], env=dict(os.environ), stdout=subprocess.PIPE, stderr=subprocess.PIPE, text=True, cwd=verif)
    out: dict = {}
    for (n, cname), p in procs.items():
        so, se = p.communicate(timeout=900)
        line = next((l for l in so.splitlines() if l.startswith("RESULT ")), None)
        if line is None:
            raise HarnessError(f"pristine process for {n}/{cname} failed:\n{se[-2000:]}")
        out.setdefault(n, {})[cname] = json.loads(line[7:])
    return out


def seed_sweep(names: list[str], seeds: list[int]) -> dict:
    """Fresh interpreter per real hash seed; returns {seed: {name: digest}}."""
    verif = os.path.dirname(os.path.dirname(os.path.dirname(os.path.abspath(__file__))))
    procs = {}
    for s in seeds:
        env = dict(os.environ)
        env["PYTHONHASHSEED"] = str(s)
        code = SEED_SCRIPT.format(verif=verif, names=names)
        procs[s] = subprocess.Popen([sys.executable, "-c", code], env=env, stdout=subprocess.PIPE, stderr=subprocess.PIPE, text=True, cwd=verif)
    out = {}
    for s, p in procs.items():
        so, se = p.communicate(timeout=900)
        line = next((l for l in so.splitlines() if l.startswith("RESULT ")), None)
        if line is None:
            raise HarnessError(f"seed sweep process for PYTHONHASHSEED={s} failed:\n{se[-2000:]}")
        out[s] = json.loads(line[7:])
    return out


def run(tier: str, seed: int) -> int:
    t0 = time.time()
    th = tier == "thorough"
    names = list(corpus())
    quick_names = names[:11]
    use = names if th else quick_names
    bound = 2 if th else 1
    if not setorder.TRANSFORMED:
        raise HarnessError("the set-order transform is not installed (vmc.run.SETORDER)")
    if "toposort" not in setorder.TRANSFORMED:
        raise HarnessError("the toposort stand-in is not loaded through the set-order transform")
    seq_names = [n for n in use if n in ("cycle", "same-name", "hub", "primer", "hello-wsdl", "artists-xml")]
    pristine = pristine_digests(seq_names)
    # baselines in the parent (also proves every corpus entry generates)
    for n in use:
        for st in (STYLES if n in STYLED else [""]):
            baseline(n, corpus()[n], "" if st == "filenames" else st)
    tasks = []
    for n in use:
        for st in (STYLES if n in STYLED else [""]):
            tasks.extend(split_deep(("c12.setorder", dict(name=n, style="" if st == "filenames" else st), bound, ()), short=2, rounds=2))
        tasks.append(("c12.twice", dict(name=n), 0, ()))
        tasks.append(("c12.routes", dict(name=n), 0, ()))
    for n in seq_names:
        tasks.append(("c12.sequence", dict(name=n, pristine=pristine[n]), 0, ()))
    stats = parallel(tasks, explore_task_split)
    # real hash seeds in fresh processes
    seeds = list(range(32)) if th else [0, 1, 2, 3]
    sweep = seed_sweep(use, seeds)
    ref = sweep[seeds[0]]
    # the in-process baseline (canonical order) must be among what real seeds produce
    for n in use:
        outs = {sweep[s][n] for s in seeds}
        stats.executions += len(seeds)
        stats.nontrivial.add(h(("seed", n)))
        for s in seeds:
            if sweep[s][n] != ref[n]:
                stats.add_violation({"harness": "c12.seeds", "params": {}, "choices": [], "labels": [], "case": {"source_set": n, "seeds": {str(k): v[n] for k, v in sweep.items()}},
                                     "bucket": f"hash-seed/output-differs/{n}", "detail": f"PYTHONHASHSEED={seeds[0]} -> {ref[n]}, PYTHONHASHSEED={s} -> {sweep[s][n]}"})
                break
        if digest(_BASE[(n, "")][0]) not in outs:
            stats.add_violation({"harness": "c12.seeds", "params": {}, "choices": [], "labels": [], "case": {"source_set": n},
                                 "bucket": f"hash-seed/owned-model-not-validated/{n}", "detail": "the canonical-order output is produced by no real hash seed"})
    confirm_violations(stats)
    return finish(
        PROP, tier, seed, "model_checking", stats, t0,
        rule=(f"{len(use)} source sets (xsd with cycles / two namespaces / unions / enums, upstream fixtures: xsd, dtd, wsdl, xml and json samples); the code generator modules of the tree are loaded "
              f"through an AST transform that owns every set(...) / set display / set comprehension iteration and id(): every choice vector with <= {bound} non-default answers over "
              "(permutation at every reached set-iteration site: all n! for n <= 4, else reverse / rotations / adjacent swaps; id() ascending or descending) must give byte-identical files; "
              f"PYTHONHASHSEED in {seeds[0]}..{seeds[-1]} in fresh processes; twice in one process on top of the first output; every ordered pair of {len(CONVENTIONS)} naming-convention sets run one after "
              f"the other in one process, the second compared with a pristine interpreter ({len(seq_names)} source sets); API vs config file vs CLI flags for 13 option deviations. The synthetic source sets "
              f"({', '.join(STYLED)}) are run under all {len(STYLES)} structure styles. "
              "states = distinct owned set-iteration sites reached, transitions = owned iterations."),
        assumptions=["files are compared before ruff (a no-op stand-in): byte identity of what xsdata itself renders",
                     "set algebra on owned sets stays owned; sets that never pass through a transformed expression (dict views, sets built in C or outside the listed modules) are covered only by the real hash-seed sweep",
                     "the toposort stand-in is loaded through the same transform (the real package iterates sets on the generator's behalf when sort=False)",
                     "include_header (embeds the current time) is excluded from the claim",
                     "the CLI route runs xsdata's own option mapping through a stand-in for click"],
        bound={"set_order_deviations": bound, "hash_seeds": len(seeds), "source_sets": use},
        extra={"transformed_modules": len(setorder.TRANSFORMED), "rewritten_set_and_id_sites": sum(setorder.TRANSFORMED.values()),
               "traces_validated_against_impl": stats.executions, "programs": len(use)},
    )
