"""C04 -- JSON / dictionary round-trip over generated models."""
from __future__ import annotations

import json
import re
import time
import warnings
from typing import List

from .. import gmodel as G
from ..engine import Chooser, call, confirm_violations, explore_task, finish, harness, parallel
from ..eq import diff, same
from .c01 import pick_instance
from .c01 import sig as _sig01

from xsdata.formats.dataclass.context import XmlContext
from xsdata.formats.dataclass.parsers import DictDecoder, JsonParser
from xsdata.formats.dataclass.parsers.config import ParserConfig
from xsdata.formats.dataclass.serializers import DictEncoder, JsonSerializer
from xsdata.formats.dataclass.serializers.config import SerializerConfig
from xsdata.formats.dataclass.serializers.dict import DictFactory

PROP = "C04"
# property: "binding models without untyped (anyType) primitive fields"
CATS = ["element", "attribute", "text", "model", "union", "elements", "wildcard", "attributes"]


def sig(spec, exprs, exc, d=None):
    return _sig01(spec, exprs, exc, d, use_named=False)


def native_walk(x, path="$"):
    """None if x consists of JSON-native values only, else the offending path."""
    if x is None or isinstance(x, (bool, int, float, str)):
        if type(x) not in (type(None), bool, int, float, str):
            return f"{path}: {type(x).__name__}"
        return None
    if isinstance(x, dict):
        for k, v in x.items():
            if type(k) is not str:
                return f"{path}: key {k!r}"
            r = native_walk(v, f"{path}.{k}")
            if r:
                return r
        return None
    if isinstance(x, (list, tuple)):
        for i, v in enumerate(x):
            r = native_walk(v, f"{path}[{i}]")
            if r:
                return r
        return None
    return f"{path}: {type(x).__name__} {x!r}"


def json_unrepresentable(spec: G.ModelSpec, exprs) -> str | None:
    if sum(1 for f in spec.fields if "samename" in f.tags) > 1:
        return "two fields with the same local name collide on one JSON key"
    for f, e in zip(spec.fields, exprs):
        if f.cat == "elements" and "XmlDate(" in e:
            return "compound choice that needs an intermediate simple type (documented JSON limitation)"
        if f.cat == "wildcard" and "Other(" in e:
            return "model instance in a wildcard: plain JSON carries neither its element name nor its type, and the decoder only tries the classes of the parent's typed element fields"
        if f.cat == "elements" and "Derived(" in e:
            return "subclass instance inside a compound field (documented: 'will not work for certain json roundtrips')"
    return None


def generic_values(exprs) -> bool:
    j = " ".join(exprs)
    return "AnyElement(" in j or "DerivedElement(" in j


def ambiguous_without_nones(exprs) -> bool:
    """Under the None-filtering factory a subclass instance whose own fields are all None
    encodes to the same dictionary as a base-class instance: not a distinct value there."""
    return "Derived()" in " ".join(exprs)


@harness("c04.rt")
def h_rt(ch: Chooser, vec: list, maxf: int, free_values: bool = True):
    spec = G.model_from_vector(vec, maxf, CATS)
    model = G.Model(spec)
    try:
        return _rt(ch, spec, model, free_values)
    finally:
        model.release()


def _rt(ch, spec, model, free_values):
    exprs = pick_instance(ch, spec, free_values)
    indent = ch.pick([None, 2], "cfg.indent")
    ida = ch.flag("cfg.ignore_default_attributes")
    as_list = ch.flag("as_list")
    case = {"model": model.source.split("XmlTime\n", 1)[-1].strip(), "instance": model.instance_source(exprs),
            "config": {"indent": indent, "ignore_default_attributes": ida}, "as_list": as_list}
    why = json_unrepresentable(spec, exprs)
    if why:
        return {"skip": True, "reason": why}
    b = call(lambda: XmlContext().build_recursive(model.root))
    if b[0] == "exc":
        return dict(ok=False, case=case, bucket="model-rejected/" + "+".join(sorted({f.cat for f in spec.fields})),
                    detail=f"XmlContext.build raised {b[1]!r} on a documented model")
    obj = model.instance(exprs)
    target = obj
    clazz = model.root
    if as_list:
        target = [obj, model.instance([G.field_values(spec, f)[0] for f in spec.fields])]
        clazz = List[model.root]
    ctx = XmlContext()
    cfg = SerializerConfig(indent=" " * indent if indent else None, ignore_default_attributes=ida)
    pcfg = ParserConfig(fail_on_converter_warnings=True)
    for fname, factory in (("dict", dict), ("filter_none", DictFactory.FILTER_NONE)):
        if fname == "filter_none" and ambiguous_without_nones(exprs):
            continue
        enc = DictEncoder(context=ctx, config=cfg, dict_factory=factory)
        r = call(enc.encode, target)
        c = {**case, "factory": fname}
        if r[0] == "exc":
            return dict(ok=False, case=c, bucket=f"encode-raises/{fname}/" + sig(spec, exprs, r[1]), detail=f"encode raised {r[1]!r}")
        data = r[1]
        c["encoded"] = repr(data)[:600]
        bad = native_walk(data)
        if bad:
            return dict(ok=False, case=c, bucket=f"not-json-native/{fname}/" + "+".join(sorted({f.cat for f in spec.fields})), detail=f"encoded form holds a non JSON value at {bad}")
        dj = call(json.dumps, data)
        if dj[0] == "exc":
            return dict(ok=False, case=c, bucket=f"json-dumps-fails/{fname}", detail=repr(dj[1]))
        if fname == "filter_none" and "None" in repr(data).replace("'None'", ""):
            # keys with None must be absent
            if _has_none(data):
                return dict(ok=False, case=c, bucket="filter-none-keeps-none", detail=repr(data)[:300])
        with warnings.catch_warnings():
            warnings.simplefilter("error")
            d = call(DictDecoder(context=ctx, config=pcfg).decode, data, clazz)
        if d[0] == "exc":
            m = re.search(r"properties\(\[([^\]]*)\]\)", str(d[1]))
            keys = set(re.findall(r"'(\w+)'", m.group(1))) if m else set()
            generic_keys = {"qname", "text", "tail", "children", "attributes", "value", "type"}
            # the object that could not be bound is a generic element that lost its None-valued keys
            if fname == "filter_none" and ("'children': [" in repr(data) or "'qname': " in repr(data)) and type(d[1]).__name__ == "ParserError" and keys and keys <= generic_keys and (
                    keys < {"qname", "text", "tail", "children", "attributes"} or keys < {"qname", "value", "type"}):
                return dict(ok=False, case=c, bucket="KF/filter-none-generic-element-not-recognised",
                            detail=f"decode raised {d[1]!r}\n{data!r}")
            return dict(ok=False, case=c, bucket=f"decode-raises/{fname}/" + sig(spec, exprs, d[1]), detail=f"decode of the encoder's own output raised {d[1]!r}\n{data!r}")
        if not same(d[1], target):
            df = diff(target[0] if as_list and not same(d[1][0], target[0]) else (target[1] if as_list else target),
                      d[1][0] if as_list and not same(d[1][0], target[0]) else (d[1][1] if as_list else d[1]))
            return dict(ok=False, case=c, bucket=f"roundtrip/{fname}/" + sig(spec, exprs, None, df), detail=f"{df}\n{data!r}")
        # text route
        js = JsonSerializer(context=ctx, config=cfg, dict_factory=factory)
        t = call(js.render, target)
        if t[0] == "exc":
            return dict(ok=False, case=c, bucket=f"json-render-raises/{fname}/" + sig(spec, exprs, t[1]), detail=repr(t[1]))
        c["json"] = t[1][:600]
        with warnings.catch_warnings():
            warnings.simplefilter("error")
            p = call(JsonParser(context=ctx, config=pcfg).from_string, t[1], clazz)
        if p[0] == "exc":
            return dict(ok=False, case=c, bucket=f"json-parse-raises/{fname}/" + sig(spec, exprs, p[1]), detail=f"{p[1]!r}\n{t[1]}")
        if not same(p[1], target):
            a0, b0 = (target, p[1]) if not as_list else next(((x, y) for x, y in zip(target, p[1]) if not same(x, y)), (target, p[1]))
            df = diff(a0, b0)
            return dict(ok=False, case=c, bucket=f"json-roundtrip/{fname}/" + sig(spec, exprs, None, df), detail=f"{df}\n{t[1]}")
    return dict(ok=True, case=case, obs=str(len(t[1])), nontrivial=(G.h(model.source), tuple(exprs), as_list))


def _has_none(x) -> bool:
    if isinstance(x, dict):
        return any(v is None or _has_none(v) for v in x.values())
    if isinstance(x, (list, tuple)):
        return any(_has_none(v) for v in x)
    return False


def run(tier: str, seed: int) -> int:
    t0 = time.time()
    th = tier == "thorough"
    maxf, dm, dv = (3, 3, 2) if th else (2, 3, 2)
    vecs = G.enumerate_models(dm, maxf, CATS, twins=True)
    tasks = []
    for v in vecs:
        tasks.append(("c04.rt", dict(vec=v, maxf=maxf, free_values=True), 0, ()))
        tasks.append(("c04.rt", dict(vec=v, maxf=maxf, free_values=False), dv, ()))
    stats = parallel(tasks, explore_task, chunk=8)
    confirm_violations(stats)
    return finish(
        PROP, tier, seed, "exploration", stats, t0,
        rule=(f"G-model binding models without anyType fields (<= {maxf} fields, <= {dm} non-default grammar answers); per model the full product of the value "
              f"alphabets, plus <= {dv} deviations among values / indent / ignore_default_attributes / list-of-models document; each case through "
              "{dict, filter_none} x {DictEncoder->DictDecoder, JsonSerializer->JsonParser}. Distinct non-trivial = distinct (model, instance, list?)."),
        assumptions=["structural equality with exact leaf types", "NaN/Infinity floats count as JSON-native (python json dumps them)",
                     "compound choices that would need intermediate simple types are excluded (documented JSON limitation)"],
        bound={"max_fields": maxf, "model_deviations": dm, "deviations": dv, "models": len(vecs)},
        extra={"programs": len(vecs)},
    )
