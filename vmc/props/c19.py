"""C19 -- a shared binding context is safe under concurrent use.

Stateless, preemption-bounded exploration of real threads on the real code (E3 + E1)."""
from __future__ import annotations

import os
import sys
import time
import types
import warnings

from ..engine import Chooser, HarnessError, Stats, call, confirm_violations, explore_task, finish, harness, parallel
from ..eq import same
from ..sched import Scheduler, SharedStateScan, profile_writes
from ..models import shared as M

from xsdata.formats.dataclass.context import XmlContext
from xsdata.formats.dataclass.parsers import DictDecoder, XmlParser
from xsdata.formats.dataclass.parsers.handlers import XmlEventHandler
from xsdata.formats.dataclass.serializers import XmlSerializer
from xsdata.formats.dataclass.serializers.config import SerializerConfig
from xsdata.formats.dataclass.serializers.writers import XmlEventWriter

PROP = "C19"

DOC_PLAIN = '<doc xmlns="urn:t"><item n="1"><v>a</v></item></doc>'
DOC_XSI = ('<doc xmlns="urn:t" xmlns:xsi="http://www.w3.org/2001/XMLSchema-instance">'
           '<item xsi:type="special"><v>a</v><extra>e</extra></item></doc>')
DOC_WILD = '<doc xmlns="urn:t"><x:thing xmlns:x="urn:x">w</x:thing><y:thing xmlns:y="urn:y"/></doc>'
DOC_A = '<a:parentA xmlns:a="urn:a"><a:c><a:p>1</a:p></a:c></a:parentA>'
DOC_SPECIAL_ROOT = '<special xmlns="urn:t"><v>s</v><extra>x</extra></special>'


def _forward_models():
    """Two classes whose annotations only resolve through the serializer's globalns (they are not module globals)."""
    from dataclasses import dataclass, field
    from typing import Optional

    @dataclass
    class FwdInner:
        x: Optional[str] = field(default=None, metadata={"type": "Attribute"})

    @dataclass
    class FwdOuter:
        inner: Optional["FwdInner"] = field(default=None, metadata={"type": "Element"})

    return FwdOuter, FwdInner


FWD_OUTER, FWD_INNER = _forward_models()


class Shared:
    def __init__(self):
        self.ctx = XmlContext()
        self.fwd_serializer = XmlSerializer(context=self.ctx, config=SerializerConfig(xml_declaration=False, globalns={"FwdInner": FWD_INNER, "Optional": __import__("typing").Optional}), writer=XmlEventWriter)
        self.parser = XmlParser(context=self.ctx, handler=XmlEventHandler)
        self.serializer = XmlSerializer(context=self.ctx, config=SerializerConfig(xml_declaration=False), writer=XmlEventWriter)
        self.decoder = DictDecoder(context=self.ctx)
        from xsdata.formats.dataclass.parsers.config import ParserConfig
        self.lenient = XmlParser(context=self.ctx, config=ParserConfig(fail_on_unknown_properties=False), handler=XmlEventHandler)


def op_parse_typed(s): return s.parser.from_string(DOC_PLAIN, M.Doc)
def op_parse_untyped(s): return s.parser.from_string(DOC_PLAIN)
def op_parse_xsi(s): return s.parser.from_string(DOC_XSI, M.Doc)
def op_parse_wild(s): return s.parser.from_string(DOC_WILD, M.Doc)
def op_parse_special_root(s): return s.parser.from_string(DOC_SPECIAL_ROOT)
def op_serialize(s): return s.serializer.render(M.Doc(item=M.Special(v="a", extra="e")))
def op_serialize_plain(s): return s.serializer.render(M.Doc(item=M.Item(v="b", n=2)))
def op_decode(s): return s.decoder.decode({"item": {"v": "a", "n": 1}, "other": []}, M.Doc)
def op_parse_a(s): return s.parser.from_string(DOC_A, M.ParentA)
def op_decode_untyped(s): return s.decoder.decode({"item": {"v": "a", "n": 1}, "other": []})
def op_decode_wild(s): return s.decoder.decode({"item": None, "other": [{"v": "w", "n": None}]}, M.Doc)
def op_parse_unknown_lenient(s): return s.lenient.from_string('<doc xmlns="urn:t"><item><v>a</v><nope>1</nope></item><zzz/></doc>', M.Doc)


def op_decode_union(s): return s.decoder.decode({"u": {"y": 2}, "count": 3}, M.UnionDoc)


def op_decode_bad_value(s):
    # lenient by default: a value that does not convert is kept as it is (with a warning)
    with warnings.catch_warnings():
        warnings.simplefilter("ignore")
        return s.decoder.decode({"item": {"v": "a", "n": "oops"}, "other": []}, M.Doc)


def op_decode_generic(s):
    # a generic element in a wildcard: recognised by the key set of AnyElement
    return s.decoder.decode({"item": None, "other": [{"qname": "{urn:x}thing", "text": "w", "tail": None, "children": [], "attributes": {}}]}, M.Doc)


def op_decode_derived(s):
    return s.decoder.decode({"item": None, "other": [{"qname": "{urn:t}item", "type": None, "value": {"v": "a", "n": 1}}]}, M.Doc)


def op_serialize_fwd(s): return s.fwd_serializer.render(FWD_OUTER(inner=FWD_INNER(x="q")))


def op_import_then_untyped(s):
    """A module appears (len(sys.modules) changes), then a lookup without target class."""
    name = f"vmc_dummy_{len(_DUMMIES)}"
    _DUMMIES.append(name)
    sys.modules[name] = types.ModuleType(name)
    return s.parser.from_string(DOC_PLAIN)


_DUMMIES: list[str] = []

OPS = {
    "parse_typed": op_parse_typed, "parse_untyped": op_parse_untyped, "parse_xsi": op_parse_xsi, "parse_wild": op_parse_wild,
    "parse_special_root": op_parse_special_root, "serialize": op_serialize, "serialize_plain": op_serialize_plain, "decode": op_decode,
    "parse_a": op_parse_a, "import_then_untyped": op_import_then_untyped,
    "decode_untyped": op_decode_untyped, "decode_wild": op_decode_wild, "parse_unknown_lenient": op_parse_unknown_lenient,
    "decode_union": op_decode_union, "decode_bad_value": op_decode_bad_value, "serialize_fwd": op_serialize_fwd,
    "decode_generic": op_decode_generic, "decode_derived": op_decode_derived,
}

# harnesses forced to collide (threads x operation lists); warm = operations run before the threads start
HARNESS_SETS = {
    "cold-untyped-vs-typed": dict(warm=[], threads=[["parse_untyped"], ["parse_typed"]]),
    "cold-untyped-x2": dict(warm=[], threads=[["parse_untyped"], ["parse_untyped"]]),
    "cold-xsi-x2": dict(warm=[], threads=[["parse_xsi"], ["parse_xsi"]]),
    "cold-xsi-vs-untyped": dict(warm=[], threads=[["parse_xsi"], ["parse_special_root"]]),
    "cold-parse-vs-serialize": dict(warm=[], threads=[["parse_typed"], ["serialize"]]),
    "cold-wild-x2": dict(warm=[], threads=[["parse_wild"], ["parse_wild"]]),
    "cold-decode-vs-parse": dict(warm=[], threads=[["decode"], ["parse_xsi"]]),
    "warm-import-vs-untyped": dict(warm=["parse_untyped"], threads=[["import_then_untyped"], ["parse_untyped"]]),
    "warm-import-vs-xsi": dict(warm=["parse_xsi"], threads=[["import_then_untyped"], ["parse_xsi"]]),
    "cold-two-ops-each": dict(warm=[], threads=[["parse_typed", "parse_untyped"], ["serialize_plain", "parse_xsi"]]),
    # iteration over the type index / cached metadata in one thread while the other looks up names that are not there
    "warm-decode-untyped-vs-wild": dict(warm=["parse_untyped"], threads=[["decode_untyped"], ["parse_wild"]]),
    "warm-decode-wild-vs-unknown": dict(warm=["parse_typed"], threads=[["decode_wild"], ["parse_unknown_lenient"]]),
    # one decoder: a best-match (union) decode next to a lenient decode of a value that does not convert
    "cold-decode-union-vs-bad-value": dict(warm=[], threads=[["decode_union"], ["decode_bad_value"]]),
    # two serializers of one class on a cold context (per-class metadata is built and memoised on first use)
    "cold-serialize-x2": dict(warm=[], threads=[["serialize"], ["serialize_plain"]]),
    # two decodes that both need the key sets of the generic element classes on a cold context
    "cold-decode-generic-vs-derived": dict(warm=[], threads=[["decode_generic"], ["decode_derived"]]),
    # a serializer that resolves annotations through its own globalns next to ordinary use of the same context
    "cold-serialize-globalns-vs-parse": dict(warm=[], threads=[["serialize_fwd"], ["parse_a"]]),
}
HARNESS_SETS_3 = {
    "cold-3-untyped-typed-xsi": dict(warm=[], threads=[["parse_untyped"], ["parse_typed"], ["parse_xsi"]]),
    "warm-3-import-untyped-xsi": dict(warm=["parse_untyped"], threads=[["import_then_untyped"], ["parse_untyped"], ["parse_xsi"]]),
}

PROFILE: dict = {}
_SCHED: Scheduler | None = None
_EXPECT: dict = {}


_PROC = None


def _lazy_child(_):
    for op in OPS:
        call(OPS[op], Shared())
    return sorted(m for m in sys.modules if m == "xsdata" or m.startswith("xsdata."))


def _lazy_modules():
    """Modules of the tree under test that are loaded once every operation has run (in a forked child: this process stays pristine)."""
    import multiprocessing as mp
    with mp.get_context("fork").Pool(1) as pool:
        return pool.map(_lazy_child, [0])[0]


def proc():
    """Process-wide state of the tree under test (module globals, class attributes, module-level instances, lru caches):
    found by a walk, part of the profile's roots, restored before every execution."""
    global _PROC
    if _PROC is None:
        import dataclasses
        from ..procstate import ProcessState
        models = [c for c in vars(M).values() if isinstance(c, type) and dataclasses.is_dataclass(c)] + [FWD_OUTER, FWD_INNER]
        _PROC = ProcessState(os.environ.get("VERIF_REPO", "/repo"), model_classes=models, modules=_lazy_modules())
    return _PROC


def _make_roots():
    proc().reset()
    sh = Shared()
    canon = {"ctx": sh.ctx, "parser": sh.parser, "serializer": sh.serializer, "decoder": sh.decoder, "fwd_serializer": sh.fwd_serializer}
    return {"canon": canon, "arg": sh, "cheap": proc().fingerprint}


def _profile_one(op: str):
    repo = os.environ.get("VERIF_REPO", "/repo")
    before = len(_DUMMIES)
    try:
        return profile_writes(repo, _make_roots, {op: OPS[op]})
    finally:
        for nm in _DUMMIES[before:]:
            sys.modules.pop(nm, None)
        del _DUMMIES[before:]


def _profile_after(pair):
    """Writes of operation y when it runs after operation x on the same objects: a store of a *different* value into an attribute
    that x left behind is invisible when y is profiled alone on fresh objects (it stores what is already there)."""
    x, y = pair
    repo = os.environ.get("VERIF_REPO", "/repo")
    before = len(_DUMMIES)

    def roots():
        r = _make_roots()
        call(OPS[x], r["arg"])
        return r
    try:
        return profile_writes(repo, roots, {y: OPS[y]})
    finally:
        for nm in _DUMMIES[before:]:
            sys.modules.pop(nm, None)
        del _DUMMIES[before:]


def scheduler() -> Scheduler:
    """Built once in the parent process (workers inherit it by fork)."""
    global _SCHED
    if _SCHED is None:
        from ..engine import pmap
        proc()
        # run every operation once alone first: lazy imports inside the library change
        # len(sys.modules), which the context uses as its staleness test
        for op in OPS:
            expected(op)
        for nm in _DUMMIES:
            sys.modules.pop(nm, None)
        _DUMMIES.clear()
        late = proc().new_library_modules()
        if late:
            raise HarnessError(f"modules of the tree under test imported only when first used (their state has no recorded start): {late}")
        PROFILE["process_state"] = proc().summary()
        repo = os.path.realpath(os.environ.get("VERIF_REPO", "/repo"))
        attrs: set = set()
        write_lines: dict = {}
        write_funcs: dict = {}
        pairs = sorted({(x, y) for cfg in list(HARNESS_SETS.values()) + list(HARNESS_SETS_3.values())
                        for i, ta in enumerate(cfg["threads"]) for j, tb in enumerate(cfg["threads"]) if i != j for x in ta for y in tb})
        PROFILE["profiled_alone"] = len(OPS)
        PROFILE["profiled_after_another_operation"] = len(pairs)
        for prof in pmap(_profile_one, list(OPS)) + pmap(_profile_after, pairs):
            attrs |= prof["attrs"]
            for f, l in prof["write_lines"].items():
                write_lines.setdefault(f, set()).update(l)
            for k, l in prof["write_funcs"].items():
                write_funcs.setdefault(k, set()).update(l)
        PROFILE.update(attrs=sorted(attrs), write_lines={os.path.relpath(f, repo): sorted(l) for f, l in write_lines.items()})
        gl = {n.rsplit(".", 1)[1] for n in proc().containers} & attrs
        PROFILE["process_wide_names_mutated"] = sorted(gl)
        scan = SharedStateScan(repo, only_attrs=attrs, global_names=gl)
        # a dynamic write whose line does not name one of those attributes syntactically is a write through
        # an alias (e.g. register_namespace(ns_map, ...)): every line of that function becomes a point
        alias: dict = {}
        for (f, line), flines in write_funcs.items():
            if line not in scan.lines.get(f, set()):
                alias.setdefault(f, set()).update(flines)
        for f, ls in alias.items():
            scan.lines.setdefault(f, set()).update(ls)
        PROFILE["alias_write_functions"] = {os.path.relpath(f, repo): sorted(l) for f, l in alias.items()}
        if not attrs:
            raise HarnessError("dynamic profile found no shared mutable state: the scheduler would explore nothing")
        _SCHED = Scheduler(scan)
    return _SCHED


def expected(op: str):
    """Result of the operation when run alone on fresh objects."""
    if op not in _EXPECT:
        proc().reset()
        r = call(OPS[op], Shared())
        _EXPECT[op] = r
    return _EXPECT[op]


def res_equal(a, b) -> bool:
    if a[0] != b[0]:
        return False
    if a[0] == "exc":
        return type(a[1]) is type(b[1])
    return same(a[1], b[1])


@harness("c19.sched")
def h_sched(ch: Chooser, name: str):
    cfg = HARNESS_SETS.get(name) or HARNESS_SETS_3[name]
    before = len(_DUMMIES)
    proc().reset()
    shared = Shared()
    for w in cfg["warm"]:
        r = call(OPS[w], shared)
        if not res_equal(r, expected(w)):
            raise HarnessError(f"warm-up op {w} does not behave as alone: {r!r}")
    exp = [[expected(op) for op in ops] for ops in cfg["threads"]]

    def body(ops):
        def run():
            out = []
            for op in ops:
                out.append(call(OPS[op], shared))
            return out
        return run

    sched = scheduler()
    try:
        results, trace = sched.run(ch, [body(ops) for ops in cfg["threads"]])
    finally:
        for nm in _DUMMIES[before:]:
            sys.modules.pop(nm, None)
        del _DUMMIES[before:]
    switches = sum(1 for a, b in zip(trace, trace[1:]) if a != b)
    case = {"harness": name, "threads": cfg["threads"], "warm": cfg["warm"], "schedule": "".join(map(str, trace)), "context_switches": switches}
    for ti, (r, e) in enumerate(zip(results, exp)):
        if r[0] != "ok":
            raise HarnessError(f"thread body raised {r[1]!r}")
        for oi, (got, want) in enumerate(zip(r[1], e)):
            if not res_equal(got, want):
                op = cfg["threads"][ti][oi]
                what = f"{type(got[1]).__name__}: {got[1]}" if got[0] == "exc" else repr(got[1])
                kind = type(got[1]).__name__ if got[0] == "exc" else "wrong-result"
                return dict(ok=False, case=case, bucket=f"{kind}/{op}",
                            detail=f"thread {ti} op {op}: {what[:300]}; alone it gives {str(want[1])[:200]!r}; schedule {case['schedule']}")
    # the shared objects must still work afterwards (nothing left half-built)
    for op in ("parse_untyped", "parse_xsi"):
        r = call(OPS[op], shared)
        if not res_equal(r, expected(op)):
            return dict(ok=False, case=case, bucket=f"corrupted-after/{op}", detail=f"after the run, {op} gives {r[1]!r}; schedule {case['schedule']}")
    hz = getattr(sched, "horizon_hits", 0)
    sched.horizon_hits = 0
    return dict(ok=True, case=case, obs="".join(map(str, trace)), nontrivial=(name, tuple(trace)) if switches else None,
                states=[(name, tuple(trace[:i])) for i in range(0)], transitions=0, counters={"scheduling_points": len(trace), "schedules_cut_at_horizon": hz})


def task(t):
    name, bound = t
    st = explore_task(("c19.sched", dict(name=name), bound, ()))
    # state/transition accounting: every schedule prefix is a state of the interleaving tree
    return st


def run(tier: str, seed: int) -> int:
    t0 = time.time()
    th = tier == "thorough"
    sch = scheduler()
    summary = sch.scan.summary()
    bound = 3 if th else 2
    from ..engine import split_deep, explore_task_split
    roots = [("c19.sched", dict(name=n), bound, ()) for n in HARNESS_SETS]
    if th:
        roots += [("c19.sched", dict(name=n), 2, ()) for n in HARNESS_SETS_3]
    tasks = []
    for r in roots:
        tasks.extend(split_deep(r, short=4, rounds=3))
    # big subtrees first
    tasks.sort(key=lambda t: len(t[3]))
    stats = parallel(tasks, explore_task_split)
    # schedules are the traces; count distinct prefixes as states
    states = set()
    trans = 0
    for o in stats.observations:
        pass
    confirm_violations(stats)
    npts = sum(len(v) for v in summary["files"].values())
    return finish(
        PROP, tier, seed, "model_checking", stats, t0,
        rule=("every schedule of the listed thread harnesses with at most the stated number of preemptions; a scheduling point is every executed line of the tree "
              "under test that reads or writes a shared mutable attribute (computed by AST scan of the current tree). Non-trivial = schedule with >= 1 context switch."),
        assumptions=["steps that touch only thread-local state commute with every step of other threads (partial-order argument)",
                     "process-wide state (module globals, class attributes, module-level instances; listed under process_wide_state) is restored to its "
                     "contents after import before every execution and every lru_cache is emptied: the threads start in a process that has imported the library and used nothing",
                     "line granularity: a preemption inside one source line (between bytecodes) is not explored in this tier",
                     "CPython GIL semantics; C-level lru_cache is internally consistent"],
        bound={"threads": "2 (thorough also 3)", "preemptions": bound, "harnesses": [r[1]["name"] for r in roots]},
        extra={"states": max(1, stats.counters.get("scheduling_points", 0)), "transitions": max(1, stats.counters.get("scheduling_points", 0)),
               "traces_validated_against_impl": stats.executions,
               "shared_state": PROFILE.get("attrs"), "dynamic_write_lines": PROFILE.get("write_lines"), "alias_write_functions": PROFILE.get("alias_write_functions"),
               "scheduling_point_lines": npts, "process_wide_state": PROFILE.get("process_state"), "process_wide_names_mutated": PROFILE.get("process_wide_names_mutated"),
               "explanation": "states/transitions = scheduling decisions taken over all explored schedules (stateless search: every trace is an implementation trace)"},
    )
