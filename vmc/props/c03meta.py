"""C03 leg 2: the serializer's output against the independent reference serializer."""
from __future__ import annotations

from .. import gmodel as G
from .. import infoset as I
from .. import refser
from ..engine import Chooser, call, harness
from .c01 import WRITERS, pick_instance, unrepresentable

from xsdata.formats.dataclass.context import XmlContext
from xsdata.formats.dataclass.serializers import XmlSerializer
from xsdata.formats.dataclass.serializers.config import SerializerConfig

MAPS = [None, {None: "urn:m"}, {"p": "urn:m"}, {"ns0": "urn:zzz"}, {"ns1": "urn:q", "u": "urn:unused"}, {None: "urn:o", "m": "urn:m"}]


def float_norm(tree):
    return tree


@harness("c03.meta")
def h_meta(ch: Chooser, vec: list, maxf: int, free_values: bool):
    from .c03 import match, diff_kind
    spec = G.model_from_vector(vec, maxf)
    model = G.Model(spec)
    try:
        exprs = pick_instance(ch, spec, free_values)
        ns_map = MAPS[ch.choose(len(MAPS), "ns_map")]
        ida = ch.flag("ignore_default_attributes")
        cfg = dict(indent=None, xml_declaration=False, ignore_default_attributes=ida)
        why = unrepresentable(spec, exprs, cfg, ns_map)
        if why:
            return {"skip": True, "reason": why}
        case = {"model": model.source.split("XmlTime\n", 1)[-1].strip(), "instance": model.instance_source(exprs), "ns_map": repr(ns_map), "ignore_default_attributes": ida}
        obj = model.instance(exprs)
        try:
            exp = refser.expected_tree(obj, ida)
        except refser.Unsupported as e:
            return {"skip": True, "reason": f"reference undefined: {e}"}
        for wname, writer in WRITERS:
            ser = XmlSerializer(context=XmlContext(), config=SerializerConfig(**cfg), writer=writer)
            r = call(ser.render, obj, dict(ns_map) if ns_map else None)
            c = {**case, "writer": wname}
            if r[0] == "exc":
                if any("sequence" in f.tags and (f.cat == "elements" or "tokens" in f.tags) for f in spec.fields):
                    return dict(ok=False, case=c, bucket="KF/sequence-group-with-token-list-or-compound-items", detail=repr(r[1]))
                return dict(ok=False, case=c, bucket=f"meta/{wname}/render-raises-{type(r[1]).__name__}/" + cats(spec), detail=repr(r[1]))
            c["xml"] = r[1]
            try:
                act = I.parse_scoped(r[1])
            except I.NotWellFormed as e:
                return dict(ok=False, case=c, bucket=f"meta/{wname}/not-well-formed/" + cats(spec), detail=f"{e}\n{r[1]}")
            m = match(exp, act, {})
            if m:
                if any("sequence" in f.tags and (f.cat == "elements" or "tokens" in f.tags) for f in spec.fields):
                    return dict(ok=False, case=c, bucket="KF/sequence-group-with-token-list-or-compound-items", detail=f"{m}\n{r[1]}")
                return dict(ok=False, case=c, bucket=f"meta/{wname}/{diff_kind(m)}/" + cats(spec, m), detail=f"{m}\nexpected {exp!r}\n{r[1]}")
        return dict(ok=True, case=case, obs="ok", nontrivial=(G.h(model.source), tuple(exprs), repr(ns_map), ida))
    finally:
        model.release()


def cats(spec, m: str = "") -> str:
    tags = set()
    for f in spec.fields:
        tags.add(f.cat)
        tags |= {t for t in f.tags if t in ("nillable", "tokens", "wrapper", "sequence", "xsi", "anytype", "union")}
    cls = [k for k, v in (("meta_ns", spec.meta_ns), ("meta_name", spec.meta_name), ("module_ns", spec.module_ns), ("nillable-class", spec.meta_nillable),
                          ("base", spec.base_split), ("elem_gen", spec.elem_gen), ("attr_gen", spec.attr_gen)) if v]
    return "+".join(sorted(tags)) + ("|" + "+".join(cls) if cls else "")


def tasks(thorough: bool):
    maxf, dm, dv = (3, 3, 2) if thorough else (2, 3, 1)
    vecs = G.enumerate_models(dm, maxf, twins=True)
    out = []
    for v in vecs:
        out.append(("c03.meta", dict(vec=v, maxf=maxf, free_values=True), 0, ()))
        out.append(("c03.meta", dict(vec=v, maxf=maxf, free_values=False), dv, ()))
    return out, len(vecs)
