"""C05 -- primitive values map to valid XSD lexical forms and back.

Bounded-exhaustive: value alphabets + small exhaustive sub-domains, lexical grammars up to
a component bound, every ordered pair / triple of candidate types, enum members.
Oracle: the independent XSD reference in vmc.xsdref.
"""
from __future__ import annotations

import itertools
import math
import time
from datetime import date, datetime, time as dtime
from decimal import Decimal
from enum import Enum
from fractions import Fraction
from xml.etree.ElementTree import QName

from .. import xsdref as X
from ..engine import Chooser, HarnessError, call, confirm_violations, explore_task, finish, harness, parallel

from xsdata.exceptions import ConverterError
from xsdata.formats.converter import converter
from xsdata.models.datatype import (XmlBase64Binary, XmlDate, XmlDateTime, XmlDuration, XmlHexBinary, XmlPeriod,
                                    XmlTime)
from xsdata.models.enums import DataType

PROP = "C05"

# ---------------------------------------------------------------------------------------
# value alphabets


def int_values(thorough):
    vs = list(range(-300, 301))
    for k in range(0, 71 if thorough else 66, 1):
        for d in (-1, 0, 1):
            vs += [2**k + d, -(2**k) + d]
    return sorted(set(vs))


def float_values(thorough):
    vs = [0.0, -0.0, float("inf"), float("-inf"), float("nan"), 5e-324, -5e-324, 2.2250738585072014e-308, 1.7976931348623157e308,
          1e16, 1e22, 1e23, 1e-5, 1e-4, 9999999999999998.0, 1e15, 123456789.123456789, 0.1, 0.30000000000000004, 1 / 3, 1e21,
          3.402823466e38, 3.4028235e38, 1.175494351e-38, -1.175494351e-38, 1.1754943e-38, 1.401298464324817e-45, 1e-7, 2.5e-323]
    es = list(range(-330, 311, 5 if thorough else 10)) + list(range(-8, 26))
    for m in range(-20, 21):
        for e in es:
            try:
                vs.append(float(f"{m}e{e}"))
            except OverflowError:  # pragma: no cover
                pass
    seen = set()
    out = []
    for v in vs:
        k = repr(v)
        if k not in seen:
            seen.add(k)
            out.append(v)
    return out


def decimal_values(thorough):
    vs = [Decimal("0"), Decimal("-0"), Decimal("1.50"), Decimal("1E+5"), Decimal("-1E-7"), Decimal("0.000"), Decimal("123456789012345678901234567890.123456789"),
          Decimal("0E+3"), Decimal("-0.0")]
    for m in ("1", "-1", "15", "150", "-12345", "1.5", "100"):
        for e in range(-30, 31, 1 if thorough else 3):
            vs.append(Decimal(f"{m}E{e}"))
    return vs


_BA = [0x00, 0x41, 0x7F, 0x80, 0xFF, 0x3E]


def bytes_values(thorough):
    vs = [b""]
    for n in (1, 2):
        for t in itertools.product(_BA, repeat=n):
            vs.append(bytes(t))
    for n in (3, 4, 57, 58):
        vs.append(bytes((_BA[i % 6] + i) % 256 for i in range(n)))
        vs.append(bytes([0xFB, 0xFF, 0xBE][i % 3] for i in range(n)))
    return vs


STR_VALUES = ["", "a", " a b ", "a&<>\"'b", "]]>", "\t", "\n", "x\ry", "\U0001F600", "1", "true", "  ", "{a}b"]

QN_VALUES = [QName("a"), QName("{urn:a}b"), QName("{urn:b}c-d.e"), QName("{http://www.w3.org/2001/XMLSchema}int"), QName("_x"),
             QName("{urn:a}\u00e9l\u00e9ment"), QName("\u03b1\u03b2\u03b3"), QName("{urn:b}x\u00b7y\u0300")]
QN_MAPS = [None, {}, {"p": "urn:a"}, {"p": "urn:b", "q": "urn:a"}, {None: "urn:a"}, {"ns0": "urn:zzz"}, {"xs": "http://www.w3.org/2001/XMLSchema"},
           # a conventional prefix that the user bound to something else, and generated-looking prefixes in use
           {"xs": "urn:vendor:types"}, {"xs": "urn:vendor:types", "xsi": "urn:a"}, {"ns1": "urn:zzz", "ns0": "urn:yyy"}]


class EStr(Enum):
    A = "a"
    B = "b c"
    C = ""
    D = " d "


class EInt(Enum):
    ONE = 1
    NEG = -5
    BIG = 2**64


class EFloat(Enum):
    A = 1.5
    NAN = float("nan")
    INF = float("inf")
    E = 1e22
    Z = -0.5


class EQName(Enum):
    A = QName("{urn:a}b")
    B = QName("c")


class ETokens(Enum):
    A = ("a", "b")
    B = ("a",)
    C = ("c", "d", "e")


class EIntTokens(Enum):
    A = (1, 2)
    B = (3,)


class EDec(Enum):
    A = Decimal("1.50")
    B = Decimal("2")


class EDate(Enum):
    A = XmlDate(2020, 1, 2)
    B = XmlDate(2020, 1, 3, 60)


ENUMS = [EStr, EInt, EFloat, EQName, ETokens, EIntTokens, EDec, EDate]

DT_VALUES = [
    (datetime(2020, 1, 2, 3, 4, 5), "%Y-%m-%dT%H:%M:%S"),
    (datetime(1999, 12, 31, 23, 59, 59, 123456), "%Y-%m-%dT%H:%M:%S.%f"),
    (datetime(2020, 1, 2), "%d/%m/%Y"),
    (datetime(2020, 1, 2, 3, 4), "%Y%m%d%H%M"),
    (date(2020, 2, 29), "%Y-%m-%d"),
    (date(1000, 1, 1), "%d.%m.%Y"),  # years < 1000: glibc strftime does not zero-pad %Y (platform, not xsdata)
    (date(9999, 12, 31), "%Y-%m-%d"),
    (dtime(23, 59, 59), "%H:%M:%S"),
    (dtime(1, 2), "%H:%M"),
    (dtime(1, 2, 3, 500000), "%H:%M:%S.%f"),
]


def same(a, b) -> bool:
    """Strict equality: same type, NaN-aware, sign of zero, Decimal exponent-insensitive."""
    if type(a) is not type(b):
        return False
    if isinstance(a, float):
        if math.isnan(a) or math.isnan(b):
            return math.isnan(a) and math.isnan(b)
        return a == b and math.copysign(1, a) == math.copysign(1, b)
    if isinstance(a, Decimal):
        if a.is_nan() or b.is_nan():
            return a.is_nan() and b.is_nan()
        return a == b
    if isinstance(a, QName):
        return a.text == b.text
    if isinstance(a, (XmlDate, XmlTime, XmlDateTime)):
        return tuple(a) == tuple(b)
    if isinstance(a, (list, tuple)):
        return len(a) == len(b) and all(same(x, y) for x, y in zip(a, b))
    return a == b


def lexical_kind(v):
    """(xsd kind for lexical validity, validity predicate) according to DataType.from_value."""
    return DataType.from_value(v)


def check_lexical(v, s: str, fmt=None):
    """Return None if s is a valid lexical form for v's datatype, else a reason."""
    dt_ = DataType.from_value(v)
    code = dt_.code
    if isinstance(v, bool):
        if code != "boolean" or not X.is_valid("boolean", s):
            return f"{s!r} not xs:boolean ({code})"
        return None
    if isinstance(v, int):
        if code not in X.INT_RANGES:
            return f"DataType.from_value({v}) = {code}, not an integer type"
        if not X.int_in(code, v):
            return f"DataType.from_value({v}) = xs:{code} but the value is outside its range"
        if not X.is_valid("integer", s) or int(s) != v:
            return f"{s!r} is not a valid xs:{code} for {v}"
        return None
    if isinstance(v, float):
        if code not in ("float", "double"):
            return f"DataType.from_value({v!r}) = {code}"
        if not X.is_valid("float", s):
            return f"{s!r} is not in the lexical space of xs:{code}"
        if code == "float" and not (math.isnan(v) or math.isinf(v)) and abs(v) > 3.4028235677973366e38:
            return f"xs:float named for {v!r} which is outside the float32 range"
        return None
    if isinstance(v, Decimal):
        if code != "decimal":
            return f"datatype {code}"
        if not v.is_finite():
            return "out-of-domain"  # xs:decimal has no NaN/INF; not a representable value
        if not X.is_valid("decimal", s) or X.decimal_value(s) != Fraction(v):
            return f"{s!r} is not a valid xs:decimal for {v!r}"
        return None
    if isinstance(v, bytes):
        kind = {"base16": "hexBinary", "base64": "base64Binary"}[fmt]
        if isinstance(v, (XmlHexBinary, XmlBase64Binary)) and code != kind:
            return f"datatype {code} for {type(v).__name__}"
        if not X.is_valid(kind, s):
            return f"{s!r} not xs:{kind}"
        val = X.hex_value(s) if kind == "hexBinary" else X.base64_value(s)
        if val != bytes(v):
            return f"{s!r} denotes {val!r}"
        return None
    if isinstance(v, XmlPeriod):
        r = X.parse_period(s)
        if r is None or r[0] != code:
            return f"{s!r} is not xs:{code}"
        return None
    if isinstance(v, (XmlDate, XmlTime, XmlDateTime, XmlDuration)):
        if not X.is_valid(code, s):
            return f"{s!r} is not xs:{code}"
        return None
    return None


# ---------------------------------------------------------------------------------------
# leg (a): value -> string -> value


@harness("c05.value")
def h_value(ch: Chooser, kind: str, thorough: bool, lo: int = 0, hi: int | None = None):
    kw = {}
    fmt = None
    if kind == "int":
        vals = _cache("int", thorough)
    elif kind == "float":
        vals = _cache("float", thorough)
    elif kind == "decimal":
        vals = _cache("decimal", thorough)
    elif kind == "bool":
        vals = [True, False]
    elif kind == "str":
        vals = STR_VALUES
    elif kind == "bytes":
        vals = _cache("bytes", thorough)
    elif kind == "xml":
        vals = XML_VALUES
    else:
        raise HarnessError(kind)
    vals = vals[lo:hi]
    v = vals[ch.choose(len(vals), "value", True)]
    tp = type(v)
    if kind == "bytes":
        fmt = ch.pick(["base16", "base64"], "format", True)
        wrap = ch.pick([bytes, XmlHexBinary, XmlBase64Binary], "wrapper", True)
        if (wrap is XmlHexBinary and fmt != "base16") or (wrap is XmlBase64Binary and fmt != "base64"):
            return {"skip": True, "reason": "wrapper/format mismatch"}
        v = wrap(v)
        tp = bytes
        kw["format"] = fmt
    case = {"leg": "value", "type": tp.__name__, "value": repr(v), **({"format": fmt} if fmt else {})}
    r = call(converter.serialize, v, **kw)
    if r[0] == "exc":
        return dict(ok=False, case=case, bucket=f"value/{kind}/serialize-raises", detail=f"serialize({v!r}) raised {r[1]!r}")
    s = r[1]
    case["text"] = s
    if not isinstance(s, str):
        return dict(ok=False, case=case, bucket=f"value/{kind}/serialize-not-str", detail=f"serialize({v!r}) = {s!r}")
    why = check_lexical(v, s, fmt)
    if why == "out-of-domain":
        why = None
        case["note"] = "no XSD spelling exists; round-trip only"
    if why:
        return dict(ok=False, case=case, bucket=f"value/{kind}/invalid-lexical", detail=f"serialize({v!r}) = {s!r}: {why}")
    b = call(converter.deserialize, s, [tp], **kw)
    if b[0] == "exc":
        return dict(ok=False, case=case, bucket=f"value/{kind}/not-read-back", detail=f"deserialize({s!r}, [{tp.__name__}]) raised {b[1]!r}")
    exp = bytes(v) if kind == "bytes" else v
    if not same(b[1], exp):
        return dict(ok=False, case=case, bucket=f"value/{kind}/roundtrip", detail=f"{v!r} -> {s!r} -> {b[1]!r}")
    # converter.test must agree that its own output is convertible (strict mode included)
    t = call(converter.test, s, [tp], strict=True, **kw)
    if t[0] == "exc" or t[1] is not True:
        return dict(ok=False, case=case, bucket=f"value/{kind}/test-rejects-own-output", detail=f"test({s!r}, [{tp.__name__}], strict=True) = {t[1]!r}")
    return dict(ok=True, case=case, obs=f"{tp.__name__}:{len(s)}", nontrivial=(tp.__name__, repr(v), fmt))


XML_VALUES = [
    XmlDate(2020, 1, 2), XmlDate(-1, 12, 31, 0), XmlDate(12345, 2, 28, -840),
    XmlTime(0, 0, 0), XmlTime(24, 0, 0, 0, 0), XmlTime(1, 2, 3, 120000000, 330), XmlTime(1, 2, 3, 1),
    XmlDateTime(2020, 1, 2, 3, 4, 5), XmlDateTime(0, 1, 1, 0, 0, 0, 0, 0), XmlDateTime(2020, 2, 29, 23, 59, 59, 999999999, 840),
    XmlDuration("P1D"), XmlDuration("-PT0.5S"), XmlDuration("P1Y2M3DT4H5M6.7S"),
    XmlPeriod("2001"), XmlPeriod("--02"), XmlPeriod("---31Z"), XmlPeriod("--02-29"), XmlPeriod("2001-10+05:30"), XmlPeriod("-0001"),
    # year zero, and fractions whose digit groups have leading zeros
    XmlPeriod("0000"), XmlPeriod("0000Z"), XmlPeriod("0000-05"),
    XmlTime(1, 2, 3, 123045000), XmlTime(0, 0, 0, 1000), XmlTime(0, 0, 0, 1001000), XmlDateTime(2020, 1, 2, 3, 4, 5, 123045000), XmlDateTime(2020, 1, 2, 3, 4, 5, 50),
]

_C: dict = {}


def _cache(kind, thorough):
    k = (kind, thorough)
    if k not in _C:
        _C[k] = {"int": int_values, "float": float_values, "decimal": decimal_values, "bytes": bytes_values}[kind](thorough)
    return _C[k]


@harness("c05.qname")
def h_qname(ch: Chooser):
    v = ch.pick(QN_VALUES, "qname", True)
    m = ch.pick(QN_MAPS, "map", True)
    m = None if m is None else dict(m)
    ch_map_before = None if m is None else dict(m)
    case = {"leg": "qname", "value": v.text, "ns_map": repr(m)}
    r = call(converter.serialize, v, ns_map=m)
    if r[0] == "exc":
        return dict(ok=False, case=case, bucket="qname/serialize-raises", detail=repr(r[1]))
    s = r[1]
    case["text"] = s
    case["ns_map_after"] = repr(m)
    if m is not None:
        # the map may grow, what it already said stays: other values were written with those bindings
        before = ch_map_before
        changed = {k: (before[k], m.get(k)) for k in before if m.get(k) != before[k]}
        if changed:
            return dict(ok=False, case=case, bucket="qname/rebinds-a-prefix-in-use", detail=f"serializing {v.text} changed existing bindings {changed}")
    ns, local = (v.text[1:].split("}") if v.text[0] == "{" else (None, v.text))
    if m is None:
        # no map: documented "{uri}local" form
        if s != v.text:
            return dict(ok=False, case=case, bucket="qname/no-map-form", detail=f"{v.text} -> {s!r}")
    else:
        # must be a lexical xs:QName whose prefix is bound IN THE MAP to the value's namespace
        if ":" in s:
            p, l = s.split(":", 1)
            if not X.is_valid("NCName", p) or not X.is_valid("NCName", l) or m.get(p) != ns or l != local:
                return dict(ok=False, case=case, bucket="qname/wrong-prefix", detail=f"{v.text} -> {s!r} under {m}")
        else:
            default = m.get(None) or m.get("")
            if s != local:
                return dict(ok=False, case=case, bucket="qname/wrong-local", detail=f"{v.text} -> {s!r}")
            if ns is None and default:
                return {"skip": True, "reason": "no-namespace QName under a default namespace is not representable"}
            if ns != (default or None):
                return dict(ok=False, case=case, bucket="qname/unprefixed-wrong-ns", detail=f"{v.text} -> {s!r} under {m}")
    b = call(converter.deserialize, s, [QName], ns_map=m)
    if b[0] == "exc" or not same(b[1], v):
        return dict(ok=False, case=case, bucket="qname/roundtrip", detail=f"{v.text} -> {s!r} -> {b[1]!r} under {m}")
    return dict(ok=True, case=case, obs=s, nontrivial=(v.text, repr(m)))


@harness("c05.enum")
def h_enum(ch: Chooser):
    en = ch.pick(ENUMS, "enum", True)
    members = list(en)
    mem = members[ch.choose(len(members), "member", True)]
    ws = ch.pick(["", " ", "\n\t"], "ws", True)
    case = {"leg": "enum", "member": f"{en.__name__}.{mem.name}", "value": repr(mem.value)}
    kw = {}
    if en is EQName:
        kw["ns_map"] = {"p": "urn:a"}
    # the documented way tokens enums are serialised: the value as a list
    val = mem.value
    r = call(converter.serialize, list(val) if isinstance(val, tuple) and not hasattr(val, "_fields") else mem, **kw)
    if r[0] == "exc":
        return dict(ok=False, case=case, bucket="enum/serialize-raises", detail=repr(r[1]))
    s = r[1]
    case["text"] = s
    if en is EStr and (ws or val != val.strip() or val == ""):
        if ws and val in ("", " d "):
            return {"skip": True, "reason": "whitespace around whitespace-significant enum string"}
    text = ws + s + ws
    b = call(converter.deserialize, text, [en], **kw)
    if b[0] == "exc":
        return dict(ok=False, case=case, bucket=f"enum/{en.__name__}/not-read-back", detail=f"deserialize({text!r}, [{en.__name__}]) raised {b[1]!r}")
    if b[1] is not mem:
        return dict(ok=False, case=case, bucket=f"enum/{en.__name__}/wrong-member", detail=f"{text!r} -> {b[1]!r}, expected {mem!r}")
    return dict(ok=True, case=case, obs=s, nontrivial=(en.__name__, mem.name, ws))


@harness("c05.enum.candidates")
def h_enum_candidates(ch: Chooser):
    """Candidate lists that hold two enumerations (and optionally str at the end): the first candidate, in the given order, that
    accepts the text on its own decides -- also when several candidates share one converter object."""
    e1 = ch.pick(ENUMS, "enum1", True)
    e2 = ch.pick(ENUMS, "enum2", True)
    if e1 is e2:
        return {"skip": True, "reason": "same enumeration twice"}
    tail = ch.pick([None, str], "tail", True)
    types = [e1, e2] + ([tail] if tail else [])
    src = ch.pick([e1, e2], "member-of", True)
    members = list(src)
    mem = members[ch.choose(len(members), "member", True)]
    kw = {"ns_map": {"p": "urn:a"}}
    val = mem.value
    r = call(converter.serialize, list(val) if isinstance(val, tuple) and not hasattr(val, "_fields") else mem, **kw)
    if r[0] == "exc":
        return {"skip": True, "reason": "member not serializable (c05.enum subject)"}
    text = r[1]
    case = {"leg": "enum-candidates", "types": [t.__name__ for t in types], "member": f"{src.__name__}.{mem.name}", "text": text}
    exp = None
    for t in types:
        one = call(converter.deserialize, text, [t], **kw)
        if one[0] == "ok":
            exp = one
            break
    got = call(converter.deserialize, text, types, **kw)
    if exp is None:
        if got[0] == "ok":
            return dict(ok=False, case=case, bucket="enum-candidates/accepts-what-no-candidate-accepts", detail=f"{text!r} with {case['types']} -> {got[1]!r}")
        return dict(ok=True, case=case, obs="none", nontrivial=(e1.__name__, e2.__name__, mem.name))
    if got[0] == "exc" or not same(got[1], exp[1]) or type(got[1]) is not type(exp[1]):
        return dict(ok=False, case=case, bucket="enum-candidates/wrong-winner", detail=f"{text!r} with {case['types']}: got {got[1]!r}, the first accepting candidate gives {exp[1]!r}")
    return dict(ok=True, case=case, obs=type(got[1]).__name__, nontrivial=(e1.__name__, e2.__name__, src.__name__, mem.name, tail is not None))


@harness("c05.dt")
def h_dt(ch: Chooser):
    v, fmt = ch.pick(DT_VALUES, "value", True)
    tp = type(v)
    case = {"leg": "format", "value": repr(v), "format": fmt}
    r = call(converter.serialize, v, format=fmt)
    if r[0] == "exc":
        return dict(ok=False, case=case, bucket="dt/serialize-raises", detail=repr(r[1]))
    s = r[1]
    case["text"] = s
    if s != v.strftime(fmt):
        return dict(ok=False, case=case, bucket="dt/format-ignored", detail=f"{v!r} with {fmt!r} -> {s!r}")
    b = call(converter.deserialize, s, [tp], format=fmt)
    if b[0] == "exc" or b[1] != v or type(b[1]) is not tp:
        return dict(ok=False, case=case, bucket="dt/roundtrip", detail=f"{v!r} -> {s!r} -> {b[1]!r}")
    return dict(ok=True, case=case, obs=s, nontrivial=(repr(v), fmt))


# ---------------------------------------------------------------------------------------
# leg (b): lexical forms

WSV = ["", " ", "\t\n", "\r ", "  \n"]


def _num_forms():
    signs = ["", "+", "-"]
    ints = ["0", "1", "007", "12", "18446744073709551616"]
    fracs = [None, "", "0", "5", "50", "05"]
    exps = [None, "E0", "e5", "E-5", "E+5", "e005", "E-400", "E400"]
    return signs, ints, fracs, exps


@harness("c05.lex.number")
def h_lex_number(ch: Chooser, target: str):
    signs, ints, fracs, exps = _num_forms()
    sg = ch.pick(signs, "sign", True)
    ip = ch.pick(ints + [""], "int", True)
    fp = ch.pick(fracs, "frac", True)
    ep = ch.pick(exps, "exp", True) if target == "float" else None
    pre = ch.pick(WSV, "pre", True)
    post = ch.pick(WSV, "post", True)
    body = sg + ip + ("" if fp is None else "." + fp) + (ep or "")
    text = pre + body + post
    kind = {"int": "integer", "float": "float", "decimal": "decimal"}[target]
    if not X.is_valid(kind, body):
        return {"skip": True, "reason": "not in the lexical space"}
    tp = {"int": int, "float": float, "decimal": Decimal}[target]
    case = {"leg": "lexical", "type": kind, "text": text}
    r = call(converter.deserialize, text, [tp])
    if r[0] == "exc":
        return dict(ok=False, case=case, bucket=f"lex/{kind}/rejects-valid", detail=f"deserialize({text!r}, [{tp.__name__}]) raised {r[1]!r}")
    got = r[1]
    if target == "int":
        ok = type(got) is int and got == int(body)
    elif target == "decimal":
        ok = type(got) is Decimal and Fraction(got) == X.decimal_value(body)
    else:
        ok = type(got) is float and same(got, X.float_value(body))
    if not ok:
        return dict(ok=False, case=case, bucket=f"lex/{kind}/wrong-value", detail=f"{text!r} -> {got!r}")
    return dict(ok=True, case=case, obs=repr(got), nontrivial=text)


SPECIAL = {
    "float": ["INF", "-INF", "+INF", "NaN"],
    "bool": ["true", "false", "1", "0"],
}


@harness("c05.lex.special")
def h_lex_special(ch: Chooser):
    target = ch.pick(["float", "bool"], "type", True)
    body = ch.pick(SPECIAL[target], "form", True)
    pre = ch.pick(WSV, "pre", True)
    post = ch.pick(WSV, "post", True)
    text = pre + body + post
    tp = {"float": float, "bool": bool}[target]
    case = {"leg": "lexical", "type": target, "text": text}
    r = call(converter.deserialize, text, [tp])
    if r[0] == "exc":
        return dict(ok=False, case=case, bucket=f"lex/{target}/rejects-valid", detail=f"{text!r} raised {r[1]!r}")
    exp = X.float_value(body) if target == "float" else X.boolean_value(body)
    if not same(r[1], exp):
        return dict(ok=False, case=case, bucket=f"lex/{target}/wrong-value", detail=f"{text!r} -> {r[1]!r}, XSD value {exp!r}")
    return dict(ok=True, case=case, obs=repr(r[1]), nontrivial=text)


B64_FORMS = ["", "aGk=", "aGk =", "aG k=", "a G k =", "aGVsbG8=", "aGVsbG8h", "QQ==", "Q Q = =", "QQ= =", "/+8=", "AAAA", "aGVs\nbG8h", "aGVsbG8h\n",
             "TWFuTWFuTWFuTWFuTWFuTWFuTWFuTWFuTWFuTWFuTWFuTWFuTWFuTWFuTWFuTWFuTWFuTWFuTWFu\nTWFu"]
HEX_FORMS = ["", "00", "0a", "0A", "fF", "deadBEEF", "0a0A"]


@harness("c05.lex.binary")
def h_lex_binary(ch: Chooser):
    fmt = ch.pick(["base64", "base16"], "format", True)
    body = ch.pick(B64_FORMS if fmt == "base64" else HEX_FORMS, "form", True)
    pre = ch.pick(WSV, "pre", True)
    post = ch.pick(WSV, "post", True)
    text = pre + body + post
    kind = "base64Binary" if fmt == "base64" else "hexBinary"
    norm = X.collapse(body)
    if not X.is_valid(kind, norm):
        return {"skip": True, "reason": "not in the lexical space"}
    case = {"leg": "lexical", "type": kind, "text": text}
    r = call(converter.deserialize, text, [bytes], format=fmt)
    if r[0] == "exc":
        return dict(ok=False, case=case, bucket=f"lex/{kind}/rejects-valid", detail=f"{text!r} raised {r[1]!r}")
    exp = X.base64_value(norm) if fmt == "base64" else X.hex_value(norm)
    if r[1] != exp or not isinstance(r[1], bytes):
        return dict(ok=False, case=case, bucket=f"lex/{kind}/wrong-value", detail=f"{text!r} -> {r[1]!r}, XSD value {exp!r}")
    return dict(ok=True, case=case, obs=repr(r[1]), nontrivial=text)


QN_FORMS = [("a", None, "a"), ("p:a", "urn:p", "a"), ("q:b-c.d", "urn:q", "b-c.d"), ("{urn:z}e", "urn:z", "e"), ("_x", None, "_x"), ("p:_x1", "urn:p", "_x1"),
            ("d", "DEFAULT", "d"), ("p:\u00e9l\u00e9ment", "urn:p", "\u00e9l\u00e9ment"), ("\u03b1\u03b2\u03b3", None, "\u03b1\u03b2\u03b3"),
            ("q:x\u00b7y\u0300", "urn:q", "x\u00b7y\u0300")]
QN_RMAPS = [{"p": "urn:p", "q": "urn:q"}, {"p": "urn:p", "q": "urn:q", None: "urn:dflt"}, {"p": "urn:p", "q": "urn:q", "": "urn:dflt2"}]


@harness("c05.lex.qname")
def h_lex_qname(ch: Chooser):
    body, ns, local = ch.pick(QN_FORMS, "form", True)
    mi = ch.choose(len(QN_RMAPS), "map", True)
    m = dict(QN_RMAPS[mi])
    pre = ch.pick(WSV, "pre", True)
    post = ch.pick(WSV, "post", True)
    text = pre + body + post
    case = {"leg": "lexical", "type": "QName", "text": text, "ns_map": repr(m)}
    default = m.get(None)
    if "" in m:
        return {"skip": True, "reason": "'' key is not how the parser spells the default namespace"} if ":" not in body and body[0] != "{" else _qn(case, text, m, ns, local)
    if ":" not in body and body[0] != "{":
        ns = default  # unprefixed QName values resolve against the default namespace (XSD 3.3.18)
    return _qn(case, text, m, ns, local)


def _qn(case, text, m, ns, local):
    r = call(converter.deserialize, text, [QName], ns_map=m)
    if r[0] == "exc":
        return dict(ok=False, case=case, bucket="lex/QName/rejects-valid", detail=f"{text!r} under {m} raised {r[1]!r}")
    exp = f"{{{ns}}}{local}" if ns else local
    if not isinstance(r[1], QName) or r[1].text != exp:
        return dict(ok=False, case=case, bucket="lex/QName/wrong-value", detail=f"{text!r} under {m} -> {r[1]!r}, expected {exp}")
    return dict(ok=True, case=case, obs=exp, nontrivial=(text, repr(m)))


XML_FORMS = [
    (XmlDate, "date", ["2020-01-02", "2020-01-02Z", "-0001-12-31+14:00", "12345-02-28"]),
    (XmlTime, "time", ["01:02:03", "24:00:00", "01:02:03.5Z", "01:02:03.123456789-05:30"]),
    (XmlDateTime, "dateTime", ["2020-01-02T03:04:05", "2020-02-29T24:00:00Z", "0000-01-01T00:00:00.000000001+00:00"]),
    (XmlDuration, "duration", ["P1D", "-P1Y2M3DT4H5M6.7S", "PT0S", "P0Y", "PT1.5S"]),
    (XmlPeriod, "period", ["2001", "2001-10", "--10", "--10-31", "---31", "2001Z", "--02-29+05:30", "-0001", "12345-01"]),
]


@harness("c05.lex.xml")
def h_lex_xml(ch: Chooser):
    tp, kind, forms = ch.pick(XML_FORMS, "type", True)
    body = ch.pick(forms, "form", True)
    pre = ch.pick(WSV, "pre", True)
    post = ch.pick(WSV, "post", True)
    text = pre + body + post
    case = {"leg": "lexical", "type": kind, "text": text}
    r = call(converter.deserialize, text, [tp])
    if r[0] == "exc":
        ws = "whitespace" if (pre or post) else "plain"
        return dict(ok=False, case=case, bucket=f"lex/{kind}/rejects-valid-{ws}", detail=f"deserialize({text!r}, [{tp.__name__}]) raised {r[1]!r}")
    b = call(tp.from_string if hasattr(tp, "from_string") else tp, body)
    if type(r[1]) is not tp or (tuple(r[1]) != tuple(b[1]) if hasattr(tp, "_fields") else not (r[1] == b[1])):
        return dict(ok=False, case=case, bucket=f"lex/{kind}/wrong-value", detail=f"{text!r} -> {r[1]!r} vs {b[1]!r}")
    return dict(ok=True, case=case, obs=repr(r[1]), nontrivial=text)


# ---------------------------------------------------------------------------------------
# leg (c): candidate type lists

DOC_ORDER = [int, bool, float, Decimal, datetime, date, dtime, XmlTime, XmlDate, XmlDateTime, XmlDuration, XmlPeriod, QName, str]
PRIO_TEXTS = ["1", "0", "true", "1.5", "1e5", "INF", "NaN", "abc", "a:b", "p:b", "2020-01-02", "01:02:03", "2020-01-02T03:04:05", "P1D", "2001", "--10",
              " 12 ", "", "-5", "2020-01", "1E+5", "+1", "0x10", "1_0"]


@harness("c05.priority")
def h_priority(ch: Chooser, n: int, first: int):
    idx = [first] + [ch.choose(len(DOC_ORDER), f"t{i}", True) for i in range(1, n)]
    if len(set(idx)) != n:
        return {"skip": True, "reason": "repeated type"}
    types = [DOC_ORDER[i] for i in idx]
    case = {"leg": "priority", "types": [t.__name__ for t in types]}
    r = call(converter.sort_types, types)
    exp_sorted = sorted(types, key=DOC_ORDER.index)
    if r[0] == "exc" or list(r[1]) != exp_sorted:
        return dict(ok=False, case=case, bucket="priority/sort-order", detail=f"sort_types({case['types']}) = {r[1]!r}; documented order gives {[t.__name__ for t in exp_sorted]}")
    ti = ch.choose(len(PRIO_TEXTS), "text", True)
    text = PRIO_TEXTS[ti]
    case["text"] = text
    kw = {"ns_map": {"p": "urn:p"}}
    # expected: the first type in documented order whose own converter accepts the text
    exp = None
    for t in exp_sorted:
        one = call(converter.deserialize, text, [t], **kw)
        if one[0] == "ok":
            exp = one
            break
    got = call(converter.deserialize, text, r[1], **kw)
    if exp is None:
        if got[0] == "ok":
            return dict(ok=False, case=case, bucket="priority/accepts-what-no-type-accepts", detail=f"{text!r} with {case['types']} -> {got[1]!r}")
        if not isinstance(got[1], ConverterError):
            return dict(ok=False, case=case, bucket="priority/wrong-error", detail=f"{text!r} with {case['types']} raised {got[1]!r}")
        return dict(ok=True, case=case, obs="none", nontrivial=(tuple(idx), ti))
    if got[0] == "exc" or not same(got[1], exp[1]):
        return dict(ok=False, case=case, bucket="priority/wrong-winner", detail=f"{text!r} with {case['types']}: got {got[1]!r}, first accepting type gives {exp[1]!r}")
    return dict(ok=True, case=case, obs=type(got[1]).__name__, nontrivial=(tuple(idx), ti))


def run(tier: str, seed: int) -> int:
    t0 = time.time()
    th = tier == "thorough"
    tasks = []
    for kind in ("int", "float", "decimal", "bytes"):
        n = len(_cache(kind, th))
        step = max(1, n // 8)
        for lo in range(0, n, step):
            tasks.append(("c05.value", dict(kind=kind, thorough=th, lo=lo, hi=lo + step), None, ()))
    for kind in ("bool", "str", "xml"):
        tasks.append(("c05.value", dict(kind=kind, thorough=th), None, ()))
    for name in ("c05.qname", "c05.enum", "c05.enum.candidates", "c05.dt", "c05.lex.special", "c05.lex.binary", "c05.lex.qname", "c05.lex.xml"):
        tasks.append((name, {}, None, ()))
    for target in ("int", "float", "decimal"):
        tasks.append(("c05.lex.number", dict(target=target), None, ()))
    for first in range(len(DOC_ORDER)):
        tasks.append(("c05.priority", dict(n=2, first=first), None, ()))
        tasks.append(("c05.priority", dict(n=3, first=first), None, ()))
    stats = parallel(tasks, explore_task)
    confirm_violations(stats)
    return finish(
        PROP, tier, seed, "exploration", stats, t0,
        rule=("value alphabets (all ints in [-300,300] and +-2^k+-1, floats m*10^e, Decimals with exponents -30..30, byte strings of length <=2 over "
              "6 bytes plus lengths 3,4,57,58, QNames x prefix maps, enum members of str/int/float/QName/token-list/Decimal/date value, every ordered pair of those enumerations as one candidate list (with and without str after them), date/time/datetime "
              "with formats) serialized, judged against the XSD lexical space named by DataType.from_value, and read back; lexical grammars "
              "(sign x integer part x fraction x exponent x surrounding whitespace, specials, base64 spacing/padding, hex case, QName spellings) "
              "deserialized and compared with the XSD value; every ordered pair and triple of the 14 documented types x 24 texts for priority. "
              "Distinct non-trivial = distinct (type, value/text, format/map)."),
        assumptions=["vmc/xsdref.py is a correct reading of XSD 1.1 lexical/value mappings",
                     "rejection of invalid lexical forms is not demanded (the property does not state it)",
                     "Decimal NaN/Infinity have no xs:decimal spelling: checked for round-trip only",
                     "surrounding whitespace is not applied to str (whitespace-preserving) nor to python date/time types with a user strptime format (own lexical space)",
                     "a no-namespace QName under a default namespace is not representable and is skipped"],
        bound={"types": 14, "priority_list_length": "2 and 3", "ints": "[-300,300] + powers of two up to 2^70" if th else "[-300,300] + powers of two up to 2^65"},
    )
