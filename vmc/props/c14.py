"""C14 -- parsers, serializers and the binding context are history-independent.

E2: explicit-state breadth-first search over operation histories on the real objects.  A state
is the history that reaches it; build(hist) creates fresh real objects and replays the history;
canon(state) is the generic walk of vmc.canon over every slot of the shared context, parsers,
serializers and cached metadata.  The invariant is checked on every transition: the result of
the operation on the shared instances equals its result on freshly created instances.
"""
from __future__ import annotations

import collections
import sys
import time
import types
import warnings

from .. import canon
from ..engine import HarnessError, Stats, call, finish, h, jsonable, pmap, write_replay
from ..eq import same
from ..models import shared as M

from xsdata.formats.dataclass.context import XmlContext
from xsdata.formats.dataclass.parsers import DictDecoder, JsonParser, XmlParser
from xsdata.formats.dataclass.parsers.config import ParserConfig
from xsdata.formats.dataclass.parsers.handlers import LxmlEventHandler, XmlEventHandler
from xsdata.formats.dataclass.serializers import DictEncoder, JsonSerializer, XmlSerializer
from xsdata.formats.dataclass.serializers.config import SerializerConfig
from xsdata.formats.dataclass.serializers.writers import XmlEventWriter

PROP = "C14"

LATE_SRC = '''
from dataclasses import dataclass, field
from typing import Optional
@dataclass
class Late:
    class Meta:
        name = "late"
        namespace = "urn:late"
    z: Optional[str] = field(default=None, metadata={"type": "Element"})
'''


def _forward_models():
    """Classes whose annotations do not resolve in their module: they need the serializer's globalns (FwdOuter) or fail (FwdOuter2)."""
    from dataclasses import dataclass, field
    from typing import Optional

    @dataclass
    class FwdInner:
        x: Optional[str] = field(default=None, metadata={"type": "Attribute"})

    @dataclass
    class FwdOuter:
        inner: Optional["FwdInner"] = field(default=None, metadata={"type": "Element"})

    @dataclass
    class FwdOuter2:
        inner: Optional["FwdInner"] = field(default=None, metadata={"type": "Element"})

    return FwdOuter, FwdOuter2, FwdInner


FWD_OUTER, FWD_OUTER2, FWD_INNER = _forward_models()
XSI = 'xmlns:xsi="http://www.w3.org/2001/XMLSchema-instance"'
DOC_HOLDER_X = f'<holderx xmlns="urn:t" {XSI}><b xsi:type="special2"><v>a</v><x>1</x></b></holderx>'
DOC_HOLDER_Y = f'<holdery xmlns="urn:t" {XSI}><b xsi:type="special2"><v>a</v><y>why</y></b></holdery>'


class Shared:
    def __init__(self):
        self.ctx = XmlContext()
        self.gserializer = XmlSerializer(context=self.ctx, config=SerializerConfig(xml_declaration=False, globalns={"FwdInner": FWD_INNER, "Optional": __import__("typing").Optional}), writer=XmlEventWriter)
        self.parser = XmlParser(context=self.ctx, handler=XmlEventHandler)
        self.lparser = XmlParser(context=self.ctx, handler=LxmlEventHandler)
        self.serializer = XmlSerializer(context=self.ctx, config=SerializerConfig(xml_declaration=False), writer=XmlEventWriter)
        self.json_parser = JsonParser(context=self.ctx)
        self.json_serializer = JsonSerializer(context=self.ctx)
        self.strict = XmlParser(context=self.ctx, config=ParserConfig(fail_on_converter_warnings=True), handler=XmlEventHandler)
        self.modules: list[str] = []

    def roots(self):
        return {"ctx": self.ctx, "parser": self.parser, "lparser": self.lparser, "serializer": self.serializer, "json_parser": self.json_parser,
                "json_serializer": self.json_serializer, "strict": self.strict, "gserializer": self.gserializer, "modules": tuple(self.modules)}

    def close(self):
        for m in self.modules:
            sys.modules.pop(m, None)


_LATE_MOD = None


def _late(s: Shared):
    """'Import' the late module: the module object is created once per process (one Late class
    ever) and only its presence in sys.modules changes."""
    global _LATE_MOD
    name = "vmc_late_module"
    if _LATE_MOD is None:
        _LATE_MOD = types.ModuleType(name)
        sys.modules[name] = _LATE_MOD
        exec(LATE_SRC, _LATE_MOD.__dict__)
    sys.modules[name] = _LATE_MOD
    if name not in s.modules:
        s.modules.append(name)


DOC_A = '<a:parentA xmlns:a="urn:a"><a:c><a:p>1</a:p></a:c></a:parentA>'
DOC_B = '<b:parentB xmlns:b="urn:b"><b:c><b:p>2</b:p></b:c></b:parentB>'
DOC_PLAIN = '<doc xmlns="urn:t"><item n="1"><v>a</v></item></doc>'
DOC_XSI = ('<doc xmlns="urn:t" xmlns:xsi="http://www.w3.org/2001/XMLSchema-instance">'
           '<item xsi:type="special"><v>a</v><extra>e</extra></item></doc>')
DOC_WILD_IN = '<doc xmlns="urn:t"><x:thing xmlns:x="urn:x">w</x:thing></doc>'
DOC_WILD_OUT = '<doc xmlns="urn:t"><thing>w</thing></doc>'
DOC_UNKNOWN = '<doc xmlns="urn:t"><item><v>a</v><nope/></item></doc>'
DOC_BADVAL = '<doc xmlns="urn:t"><item n="x"><v>a</v></item></doc>'
DOC_PFX1 = '<p:parentB xmlns:p="urn:b" xmlns:q="urn:q" q:k="p:v"/>'
DOC_PFX2 = '<q:parentB xmlns:q="urn:b" xmlns:p="urn:q" p:k="q:v"/>'
DOC_LATE = '<late xmlns="urn:late"><z>1</z></late>'
XSI_NS = 'xmlns:xsi="http://www.w3.org/2001/XMLSchema-instance"'
# the same prefix p bound to different namespaces in consecutive documents, used by xsi:type on the ROOT
DOC_ROOT_XSI_T = f'<p:item xmlns:p="urn:t" {XSI_NS} xsi:type="p:special"><p:v>a</p:v><p:extra>e</p:extra></p:item>'
DOC_ROOT_XSI_OTHER = f'<p:thing xmlns:p="urn:elsewhere" xmlns:t="urn:t" {XSI_NS} xsi:type="t:special"><t:v>b</t:v></p:thing>'
DOC_PFX_ELSEWHERE = '<p:parentB xmlns:p="urn:b" xmlns:t="urn:elsewhere" t:k="v"/>'
DOC_UNION_BAD = '<udoc xmlns="urn:t"><u><nothing/></u></udoc>'
DOC_UNION_OK = '<udoc xmlns="urn:t" count="3"><u><y>2</y></u></udoc>'
DOC_UNION_BADCOUNT = '<udoc xmlns="urn:t" count="abc"/>'

DUP_SRC = '''
from dataclasses import dataclass, field
from typing import Optional
@dataclass
class DocTwin:
    class Meta:
        name = "doc"
        namespace = "urn:t"
    twin: Optional[str] = field(default=None, metadata={"type": "Element"})
'''
_DUP_MOD = None


def _dup(s):
    """A later-imported module that defines another class with the qname {urn:t}doc."""
    global _DUP_MOD
    name = "vmc_dup_module"
    if _DUP_MOD is None:
        _DUP_MOD = types.ModuleType(name)
        sys.modules[name] = _DUP_MOD
        exec(DUP_SRC, _DUP_MOD.__dict__)
    sys.modules[name] = _DUP_MOD
    if name not in s.modules:
        s.modules.append(name)

SPECIAL_TWIN_SRC = '''
from dataclasses import dataclass, field
from typing import Optional
@dataclass
class SpecialTwin:
    class Meta:
        name = "special"
        namespace = "urn:t"
    unrelated: Optional[str] = field(default=None, metadata={"type": "Element"})
'''
_SPECIAL_TWIN_MOD = None


def _special_twin(s):
    """A later-imported module with an unrelated class of the qname {urn:t}special (next to Special, a subclass of Item)."""
    global _SPECIAL_TWIN_MOD
    name = "vmc_special_twin_module"
    if _SPECIAL_TWIN_MOD is None:
        _SPECIAL_TWIN_MOD = types.ModuleType(name)
        sys.modules[name] = _SPECIAL_TWIN_MOD
        exec(SPECIAL_TWIN_SRC, _SPECIAL_TWIN_MOD.__dict__)
    sys.modules[name] = _SPECIAL_TWIN_MOD
    if name not in s.modules:
        s.modules.append(name)


EXTZ_SRC = '''
from dataclasses import dataclass, field
from typing import Optional
from vmc.models.shared import BaseZ
@dataclass
class ExtZ(BaseZ):
    class Meta:
        name = "extz"
        namespace = "urn:t"
    e: Optional[str] = field(default=None, metadata={"type": "Element"})
'''
_EXTZ_MOD = None


def _extz(s):
    """A later-imported module with a SUBCLASS of BaseZ named like the unrelated class UnrelatedExtZ ({urn:t}extz)."""
    global _EXTZ_MOD
    name = "vmc_extz_module"
    if _EXTZ_MOD is None:
        _EXTZ_MOD = types.ModuleType(name)
        sys.modules[name] = _EXTZ_MOD
        exec(EXTZ_SRC, _EXTZ_MOD.__dict__)
    sys.modules[name] = _EXTZ_MOD
    if name not in s.modules:
        s.modules.append(name)


DOC_HOLDER_Z = f'<holderz xmlns="urn:t" {XSI}><b xsi:type="extz"><v>a</v><e>x</e></b></holderz>'

OPS = collections.OrderedDict([
    ("parse_A", lambda s: s.parser.from_string(DOC_A, M.ParentA)),
    ("parse_B", lambda s: s.parser.from_string(DOC_B, M.ParentB)),
    ("serialize_A", lambda s: s.serializer.render(M.ParentA(c=M.Plain(p="1")))),
    ("serialize_B", lambda s: s.serializer.render(M.ParentB(c=M.Plain(p="2")))),
    ("parse_untyped", lambda s: s.parser.from_string(DOC_PLAIN)),
    ("parse_xsi_lxml", lambda s: s.lparser.from_string(DOC_XSI, M.Doc)),
    ("parse_wild_in", lambda s: s.parser.from_string(DOC_WILD_IN, M.Doc)),
    ("parse_wild_out", lambda s: s.parser.from_string(DOC_WILD_OUT, M.Doc)),
    ("parse_unknown_fails", lambda s: s.parser.from_string(DOC_UNKNOWN, M.Doc)),
    ("parse_badvalue_strict_fails", lambda s: s.strict.from_string(DOC_BADVAL, M.Doc)),
    ("parse_prefix_p_is_b", lambda s: s.parser.from_string(DOC_PFX1, M.ParentB)),
    ("parse_prefix_q_is_b", lambda s: s.parser.from_string(DOC_PFX2, M.ParentB)),
    ("import_then_parse_late", lambda s: (_late(s), s.parser.from_string(DOC_LATE))[1]),
    ("parse_late_untyped", lambda s: s.parser.from_string(DOC_LATE)),
    ("json_decode_B", lambda s: s.json_parser.from_string('{"c": {"p": "2"}, "attrs": {}}', M.ParentB)),
    ("json_encode_A", lambda s: s.json_serializer.render(M.ParentA(c=M.Plain(p="1")))),
    ("serialize_doc_special", lambda s: s.serializer.render(M.Doc(item=M.Special(v="a", extra="e")))),
    ("parse_root_xsi_p_is_t", lambda s: s.parser.from_string(DOC_ROOT_XSI_T, M.Item)),
    ("parse_p_is_elsewhere", lambda s: s.parser.from_string(DOC_PFX_ELSEWHERE, M.ParentB)),
    ("parse_root_xsi_t_prefix", lambda s: s.parser.from_string(DOC_ROOT_XSI_OTHER, M.Item)),
    ("import_twin_then_parse_untyped", lambda s: (_dup(s), s.parser.from_string('<doc xmlns="urn:t"/>'))[1]),
    ("parse_union_fails", lambda s: s.parser.from_string(DOC_UNION_BAD, M.UnionDoc)),
    ("parse_union_ok", lambda s: s.parser.from_string(DOC_UNION_OK, M.UnionDoc)),
    ("parse_union_badcount_warns", lambda s: s.parser.from_string(DOC_UNION_BADCOUNT, M.UnionDoc)),
    ("serialize_anybox_ratio", lambda s: s.serializer.render(M.AnyBox(value=M.Ratio(0.5)))),
    ("serialize_ratiobox", lambda s: s.serializer.render(M.RatioBox(r=M.Ratio(0.5)))),
    # a serializer with its own globalns next to one without, on classes whose annotations need it
    ("serialize_fwd_with_globalns", lambda s: s.gserializer.render(FWD_OUTER(inner=FWD_INNER(x="q")))),
    ("serialize_fwd2_without_globalns_fails", lambda s: s.serializer.render(FWD_OUTER2(inner=FWD_INNER(x="q")))),
    # one xsi:type name in two unrelated hierarchies
    ("parse_holder_x_special2", lambda s: s.parser.from_string(DOC_HOLDER_X, M.HolderX)),
    ("parse_holder_y_special2", lambda s: s.parser.from_string(DOC_HOLDER_Y, M.HolderY)),
    # strings that select different choices of one compound field
    ("json_poly_date", lambda s: s.json_parser.from_string('{"v": ["2020-01-02"]}', M.Poly)),
    ("json_poly_datetime", lambda s: s.json_parser.from_string('{"v": ["2020-01-02T03:04:05"]}', M.Poly)),
    ("json_poly_decimal", lambda s: s.json_parser.from_string('{"v": ["1.50"]}', M.Poly)),
    ("json_poly_bool", lambda s: s.json_parser.from_string('{"v": ["true"]}', M.Poly)),
    # one lexical QName, two prefix bindings, an enumeration of QNames
    ("parse_qenum_p_is_a", lambda s: s.parser.from_string('<qdoc xmlns="urn:t" xmlns:p="urn:a"><q>p:x</q></qdoc>', M.QDoc)),
    ("parse_qenum_p_is_b", lambda s: s.parser.from_string('<qdoc xmlns="urn:t" xmlns:p="urn:b"><q>p:x</q></qdoc>', M.QDoc)),
    # one name as an attribute and as a child element of a class with an attribute map and a wildcard
    ("parse_open_code_attribute", lambda s: s.parser.from_string('<restricted xmlns="urn:t"><open code="1"/></restricted>', M.Restricted)),
    ("parse_open_code_element", lambda s: s.parser.from_string('<restricted xmlns="urn:t"><open><code xmlns="">1</code></open></restricted>', M.Restricted)),
    # a class shared by a nillable and a plain field
    ("serialize_nilholder", lambda s: s.serializer.render(M.NilHolder(c=M.Addr(p="1")))),
    ("serialize_plainholder_empty_child", lambda s: s.serializer.render(M.PlainHolder(c=M.Addr()))),
    ("parse_plainholder_nil_child", lambda s: s.parser.from_string(f'<plainholder xmlns="urn:t" {XSI}><c xsi:nil="true"/></plainholder>', M.PlainHolder)),
    # an xsi:type lookup and a root lookup for a qname that an unrelated, later imported class shares
    ("import_special_twin_then_parse_special_root", lambda s: (_special_twin(s), s.parser.from_string('<special xmlns="urn:t"><unrelated>u</unrelated></special>'))[1]),
    ("parse_special_root_untyped", lambda s: s.parser.from_string('<special xmlns="urn:t"><unrelated>u</unrelated></special>')),
    # ... and the other way round: the unrelated class first, the subclass imported later
    ("import_extz_then_parse_holder_xsi", lambda s: (_extz(s), s.parser.from_string(DOC_HOLDER_Z, M.HolderZ))[1]),
    ("parse_extz_root_untyped", lambda s: s.parser.from_string('<extz xmlns="urn:t"><v>a</v><e>x</e></extz>')),
])
OP_NAMES = list(OPS)


def run_op(name: str, s: Shared):
    with warnings.catch_warnings(record=True) as w:
        warnings.simplefilter("always")
        r = call(OPS[name], s)
    return r, tuple(sorted(str(x.category.__name__) for x in w))


def res_equal(a, b) -> bool:
    (ra, wa), (rb, wb) = a, b
    if ra[0] != rb[0] or wa != wb:
        return False
    if ra[0] == "exc":
        return type(ra[1]) is type(rb[1]) and str(ra[1]) == str(rb[1])
    return same(ra[1], rb[1])


def res_str(r) -> str:
    (kind, v), w = r
    return (f"{type(v).__name__}: {v}" if kind == "exc" else repr(v))[:300] + (f" warnings={w}" if w else "")


def fresh_result(name: str, modules: list[str]):
    """The operation on freshly created instances (in the same environment: same modules loaded)."""
    s = Shared()
    s.modules = list(modules)
    return run_op(name, s)


def build(hist: list[str]):
    """Fresh shared objects, history replayed.  Returns (shared, result of last op)."""
    s = Shared()
    last = None
    for name in hist:
        last = run_op(name, s)
    return s, last


def flat_state(s: Shared) -> dict:
    # the context records len(sys.modules) as its staleness marker: what matters is whether it is
    # current, not the absolute number (which depends on what else the process imported)
    return canon.flatten(s.roots(), rewrite={"sys_modules": lambda v: "current" if v == len(sys.modules) else ("unset" if v == 0 else "stale")})


def reset_env():
    sys.modules.pop("vmc_late_module", None)
    sys.modules.pop("vmc_dup_module", None)


PRISTINE: dict = {}


def res_sig(r) -> tuple:
    (kind, v), w = r
    return (kind, f"{type(v).__name__}: {v}" if kind == "exc" else repr(v), w)


def _pristine_one(item):
    """Runs in a process forked from the pristine parent for exactly one operation."""
    name, mods = item
    reset_env()
    s = Shared()
    for m in mods:
        if m == "vmc_late_module":
            _late(s)
        elif m == "vmc_dup_module":
            _dup(s)
    return (name, mods, res_sig(run_op(name, s)))


def compute_pristine():
    """Result of every operation on fresh objects in a process that has run NOTHING else (one
    forked child per operation), per set of late modules present.  Catches state leaking into
    process-wide singletons, which 'fresh instances created afterwards' would share."""
    import multiprocessing as mp
    items = []
    for mods in ((), ("vmc_late_module",), ("vmc_dup_module",), ("vmc_late_module", "vmc_dup_module"), ("vmc_dup_module", "vmc_late_module")):
        for name in OP_NAMES:
            items.append((name, mods))
    ctx = mp.get_context("fork")
    with ctx.Pool(16, maxtasksperchild=1) as pool:
        for name, mods, sig in pool.imap_unordered(_pristine_one, items, chunksize=1):
            PRISTINE[(name, tuple(sorted(mods)))] = PRISTINE.get((name, tuple(sorted(mods))), set()) | {sig}


def expand(hist: tuple):
    """All successors of one state: returns list of (op, digest, ok, detail)."""
    out = []
    for name in OP_NAMES:
        reset_env()
        s, _ = build(list(hist))
        try:
            got = run_op(name, s)
            exp = fresh_result(name, s.modules)
            ok = res_equal(got, exp)
            leak = ""
            if ok and PRISTINE:
                want = PRISTINE.get((name, tuple(sorted(s.modules))))
                if want is not None and res_sig(exp) not in want:
                    ok = False
                    leak = (f"after history {list(hist)}: {name} on FRESH instances gives {res_str(exp)}, but in a process that ran nothing else it gives "
                            f"{sorted(want)[0][1][:300]} (state leaked into a process-wide object)")
            flat = flat_state(s)
            dig = h(repr(sorted(flat.items())))
            detail = "" if ok else (leak or f"after history {list(hist)}: {name} on the shared instances gives {res_str(got)}; on fresh instances {res_str(exp)}")
            out.append((name, dig, ok, detail, len(flat)))
        finally:
            s.close()
            reset_env()
    return out


PLAIN_NS = {"parse_A": "urn:a", "serialize_A": "urn:a", "json_encode_A": None, "parse_B": "urn:b", "serialize_B": "urn:b", "json_decode_B": None}


def classify(hist: tuple, op: str, detail: str) -> str:
    """Root-cause bucket.  The analysed defect (metadata cache keyed by class only) is recognised
    by a predicate over the history AND the outcome: the first operation that touched the
    namespace-less Plain class did so under another parent namespace than the failing one, and
    the wrong outcome is Plain's element `p` landing in that first namespace."""
    first = next((PLAIN_NS[p] for p in hist if p in PLAIN_NS), "unset")
    if op in PLAIN_NS and first != "unset" and first != PLAIN_NS[op] and PLAIN_NS[op] is not None:
        want = PLAIN_NS[op]
        wrong_ns_in_output = (op.startswith("serialize") and (f"{{{first}}}" in detail or "<p>" in detail or (first and f'="{first}"' in detail)))
        wrong_ns_on_parse = op.startswith("parse") and ("Unknown property" in detail and ":p" in detail.replace("}p", ":p"))
        if wrong_ns_in_output or wrong_ns_on_parse:
            return "KF/metadata-cache-keyed-by-class-ignores-parent-namespace"
    if "process that ran nothing else" in detail:
        return f"{op}/fresh-differs-from-pristine-process"
    return f"{op}/shared-differs-from-fresh"


def run(tier: str, seed: int) -> int:
    t0 = time.time()
    depth = 4 if tier == "thorough" else 3
    compute_pristine()
    # finish the library's lazy imports before anything is compared
    expand(())
    # determinism of build/canon: same history twice -> same digest
    for probe in ((), ("parse_A",), ("parse_untyped", "import_then_parse_late")):
        a = [(x[0], x[1], x[2]) for x in expand(probe)]
        b = [(x[0], x[1], x[2]) for x in expand(probe)]
        if a != b:
            raise HarnessError(f"state canonicalisation is not deterministic for history {probe}")
    seen = {}
    reset_env()
    s0, _ = build([])
    d0 = h(repr(sorted(flat_state(s0).items())))
    seen[d0] = ()
    frontier = [()]
    transitions = 0
    violations = []
    stats = Stats()
    level = 0
    max_depth = 0
    flat_size = 0
    while frontier and level < depth:
        results = pmap(expand, frontier)
        nxt = []
        for hist, succ in zip(frontier, results):
            for (name, dig, ok, detail, nflat) in succ:
                transitions += 1
                flat_size = max(flat_size, nflat)
                stats.executions += 1
                stats.nontrivial.add(h((hist, name)))
                stats.observations.add(dig)
                if not ok:
                    stats.add_violation({"harness": "c14.history", "params": {}, "choices": [OP_NAMES.index(x) for x in hist + (name,)],
                                         "labels": list(hist + (name,)), "case": {"history": list(hist), "operation": name},
                                         "bucket": classify(hist, name, detail), "detail": detail})
                if dig not in seen:
                    seen[dig] = hist + (name,)
                    nxt.append(hist + (name,))
                    max_depth = max(max_depth, len(hist) + 1)
        if len(stats.samples) < 4 and nxt:
            stats.samples.append({"history": list(nxt[len(nxt) // 2]), "note": "a distinct canonical state reached by this history"})
        frontier = nxt
        level += 1
    stats.states = set(seen)
    stats.transitions = transitions
    stats.samples.append({"history": ["parse_A", "serialize_B"], "oracle": "result of serialize_B on shared instances == on fresh instances"})
    return finish(
        PROP, tier, seed, "model_checking", stats, t0,
        rule=(f"breadth-first search over histories of <= {depth} operations from a pool of {len(OP_NAMES)} (parse/serialize/decode/encode, succeeding and failing, over models "
              "chosen to collide on shared state) applied to one shared XmlContext + parsers + serializers; states are deduplicated by a canonical hash of every slot "
              "of those objects and of all cached XmlMeta/XmlVar; the invariant (shared result == fresh result) is evaluated on every transition."),
        assumptions=["canonical state = generic walk of all __slots__/__dict__ attributes (vmc/canon.py); merged states have equal futures because the walk covers every attribute",
                     "process-wide lru_caches (build_qname, split_qname) are pure and not part of the state",
                     "fresh-instance results are computed in the same environment (same modules imported)"],
        bound={"depth": depth, "operations": OP_NAMES},
        extra={"states": len(seen), "transitions": transitions, "traces_validated_against_impl": transitions, "max_depth": max_depth,
               "canonical_state_entries": flat_size,
               "explanation": "every transition executes the real operation on real objects rebuilt by replaying the history"},
    )


def replay(path: str) -> int:
    import json
    with open(path) as f:
        v = json.load(f)
    hist = tuple(v["labels"][:-1])
    name = v["labels"][-1]
    reset_env()
    s, _ = build(list(hist))
    got = run_op(name, s)
    exp = fresh_result(name, s.modules)
    s.close()
    print(f"history {list(hist)} then {name}:\n shared: {res_str(got)}\n fresh : {res_str(exp)}")
    if not res_equal(got, exp):
        print(f"VIOLATION property={PROP} replay={path}")
        return 1
    print("replay: property held on this case")
    return 0
