"""E3 -- controlled scheduler for real threads (DESIGN.md 2.3).

Real ``threading.Thread``s, one semaphore each, exactly one runnable at a time.  Scheduling
points are ``sys.monitoring`` LINE events at the lines of the tree under test that read or
write *shared mutable state*; which lines those are is computed from the current tree by an
AST scan (never hard-coded), so state added by an edit is picked up.

The schedule is an E1 choice sequence: canonical order of the enabled set is "the running thread
first if it is still enabled, then ascending ids"; switching away from a runnable thread costs
one preemption.  Every other line touches thread-local state only and commutes with all steps
of the other threads, so preempting there yields no new behaviour.
"""
from __future__ import annotations

import ast
import os
import sys
import threading
from typing import Callable

from .engine import Chooser, HarnessError

MUTATORS = {"clear", "append", "remove", "pop", "update", "setdefault", "insert", "add", "discard", "extend", "popitem", "sort", "reverse"}
TOOL = 4  # a free sys.monitoring tool id


def _chain_root_attr(node):
    """For an expression rooted at self.<attr> (through subscripts/attributes/calls) return attr."""
    while True:
        if isinstance(node, ast.Attribute):
            if isinstance(node.value, ast.Name) and node.value.id in ("self", "cls"):
                return node.attr
            node = node.value
        elif isinstance(node, ast.Subscript):
            node = node.value
        elif isinstance(node, ast.Call):
            node = node.func
        else:
            return None


class SharedStateScan:
    """Static scan of the tree under test for shared mutable instance attributes and module
    globals, and for every line that reads or writes one of them."""

    def __init__(self, repo: str, subdirs=("xsdata/formats", "xsdata/utils"), extra_attrs=(), only_attrs=None,
                 extra_lines: dict | None = None, global_names=()):
        """only_attrs: if given, scheduling lines are those referencing one of these attribute names
        (the names the dynamic profile saw changing on shared objects) that the static scan also
        classifies as mutated outside __init__; extra_lines: lines added verbatim (dynamic write
        functions)."""
        self.repo = repo
        self.only_attrs = set(only_attrs) if only_attrs is not None else None
        self.mutable_attrs: set[str] = set(extra_attrs)
        self.mutable_globals: dict[str, set[str]] = {}
        # names of module-level / class-level containers the dynamic profile saw changing: every function line naming one is a point
        self.global_names = set(global_names)
        self.lines: dict[str, set[int]] = {}
        files = []
        for sd in subdirs:
            for dp, _dn, fn in os.walk(os.path.join(repo, sd)):
                for f in fn:
                    if f.endswith(".py"):
                        files.append(os.path.join(dp, f))
        self.files = sorted(files)
        trees = {}
        for f in self.files:
            with open(f, encoding="utf-8") as fh:
                try:
                    trees[f] = ast.parse(fh.read(), f)
                except SyntaxError:
                    continue
        for f, tree in trees.items():
            self._find_mutable(f, tree)
        self.all_mutable_attrs = set(self.mutable_attrs)
        if self.only_attrs is not None:
            # dynamic profile names what is shared; keep names either analysis calls mutable
            self.mutable_attrs = set(self.only_attrs)
        for f, tree in trees.items():
            self._find_lines(f, tree)
        for f, ls in (extra_lines or {}).items():
            self.lines.setdefault(os.path.realpath(f), set()).update(ls)

    def _find_mutable(self, fname, tree):
        for cls_or_fn in ast.walk(tree):
            if not isinstance(cls_or_fn, (ast.FunctionDef, ast.AsyncFunctionDef)):
                continue
            fn = cls_or_fn
            if fn.name in ("__init__", "__post_init__"):
                continue
            for node in ast.walk(fn):
                targets = []
                if isinstance(node, ast.Assign):
                    targets = node.targets
                elif isinstance(node, (ast.AugAssign, ast.AnnAssign)):
                    targets = [node.target]
                elif isinstance(node, ast.Delete):
                    targets = node.targets
                for t in targets:
                    a = _chain_root_attr(t)
                    if a:
                        self.mutable_attrs.add(a)
                if isinstance(node, ast.Call) and isinstance(node.func, ast.Attribute) and node.func.attr in MUTATORS:
                    a = _chain_root_attr(node.func.value)
                    if a:
                        self.mutable_attrs.add(a)
                if isinstance(node, ast.Global):
                    self.mutable_globals.setdefault(fname, set()).update(node.names)

    def _find_lines(self, fname, tree):
        lines = set()
        globs = self.mutable_globals.get(fname, set())
        for fn in ast.walk(tree):
            if not isinstance(fn, (ast.FunctionDef, ast.AsyncFunctionDef)):
                continue
            if fn.name in ("__init__", "__post_init__", "__repr__", "__eq__", "__iter__"):
                continue
            for node in ast.walk(fn):
                if isinstance(node, ast.Attribute) and node.attr in self.mutable_attrs:
                    lines.add(node.lineno)
                elif isinstance(node, ast.Name) and (node.id in globs or node.id in self.global_names):
                    lines.add(node.lineno)
                elif isinstance(node, ast.Attribute) and node.attr in self.global_names:
                    lines.add(node.lineno)
        if lines:
            self.lines[os.path.realpath(fname)] = lines

    def summary(self):
        return {"mutable_attrs": sorted(self.mutable_attrs),
                "files": {os.path.relpath(f, self.repo): sorted(l) for f, l in sorted(self.lines.items())}}


class Scheduler:
    """Runs n thread bodies under a chooser-driven schedule.  One instance per process."""

    def __init__(self, scan: SharedStateScan):
        self.scan = scan
        self.points = {f: frozenset(l) for f, l in scan.lines.items()}
        self.mon = sys.monitoring
        self._installed = False
        self._tids: dict[int, int] = {}
        self._go: list[threading.Semaphore] = []
        self._ctl = threading.Semaphore(0)
        self._at: list = []
        self.active = False

    def install(self):
        if self._installed:
            return
        try:
            self.mon.use_tool_id(TOOL, "vmc-sched")
        except ValueError:
            pass
        self.mon.register_callback(TOOL, self.mon.events.LINE, self._on_line)
        self.mon.set_events(TOOL, self.mon.events.LINE)
        self._installed = True

    SITE_HITS = 3

    def uninstall(self):
        if self._installed:
            self.mon.set_events(TOOL, 0)
            self.mon.register_callback(TOOL, self.mon.events.LINE, None)
            self.mon.free_tool_id(TOOL)
            self._installed = False

    def _on_line(self, code, line):
        pts = self.points.get(code.co_filename)
        if pts is None:
            rp = os.path.realpath(code.co_filename)
            pts = self.points.get(rp)
            if pts is None:
                return self.mon.DISABLE
            self.points[code.co_filename] = pts
        if line not in pts:
            return self.mon.DISABLE
        if not self.active:
            return None
        i = self._tids.get(threading.get_ident())
        if i is None:
            return None
        # each static site offers a preemption at its first SITE_HITS dynamic occurrences per thread only: loops over shared
        # state do not multiply the schedule space (stated in the evidence)
        key = (i, code.co_filename, line)
        n = self._hits.get(key, 0)
        if n >= self.SITE_HITS:
            return None
        self._hits[key] = n + 1
        # scheduling point: hand control to the controller and wait for the baton
        self._at[i] = (os.path.basename(code.co_filename), line)
        self._ctl.release()
        self._go[i].acquire()
        return None

    def run(self, ch: Chooser, bodies: list[Callable[[], object]], max_steps: int = 20000):
        """Execute bodies[i]() in thread i under the schedule chosen through ``ch``.
        Returns (results, trace) where results[i] = ("ok", value) | ("exc", exception)."""
        n = len(bodies)
        self.install()
        self._go = [threading.Semaphore(0) for _ in range(n)]
        self._ctl = threading.Semaphore(0)
        self._at = [None] * n
        self._tids = {}
        self._hits = {}
        results: list = [None] * n
        done = [False] * n

        def runner(i):
            self._tids[threading.get_ident()] = i
            self._go[i].acquire()
            try:
                results[i] = ("ok", bodies[i]())
            except BaseException as e:  # noqa
                results[i] = ("exc", e)
            finally:
                done[i] = True
                self._tids.pop(threading.get_ident(), None)
                self._ctl.release()

        threads = [threading.Thread(target=runner, args=(i,), daemon=True) for i in range(n)]
        for t in threads:
            t.start()
        self.active = True
        trace = []
        current = None
        steps = 0
        try:
            while True:
                enabled = [i for i in range(n) if not done[i]]
                if not enabled:
                    break
                if current is not None and current in enabled:
                    order = [current] + [i for i in enabled if i != current]
                    if steps > max_steps:
                        # horizon: beyond it no preemption is offered any more (the running thread keeps the baton); counted, not fatal
                        k = 0
                        self.horizon_hits = getattr(self, "horizon_hits", 0) + (1 if steps == max_steps + 1 else 0)
                    else:
                        k = ch.choose(len(order), f"sched@{self._at[current]}", weight=1) if len(order) > 1 else 0
                else:
                    order = enabled
                    # the running thread finished (or nothing ran yet): picking another one is free
                    k = ch.choose(len(order), "sched@start/finish", free=True) if len(order) > 1 else 0
                nxt = order[k]
                trace.append(nxt)
                current = nxt
                self._go[nxt].release()
                if not self._ctl.acquire(timeout=60):
                    raise HarnessError(f"thread {nxt} did not reach a scheduling point within 60 s (hang or real blocking)")
                steps += 1
                if steps > 200 * max_steps:
                    raise HarnessError("schedule does not terminate (livelock between the threads?)")
        finally:
            self.active = False
            # let any straggler finish (only on harness error)
            for i in range(n):
                if not done[i]:
                    for _ in range(100000):
                        self._go[i].release()
                        if self._ctl.acquire(timeout=5) and done[i]:
                            break
        for t in threads:
            t.join(timeout=10)
        return results, trace


# --------------------------------------------------------------------------------------
# dynamic (alias-proof) write profile


def profile_writes(repo: str, make_roots: Callable[[], dict], ops: dict[str, Callable]) -> dict:
    """Run each operation alone with LINE events on every function of the tree under test and
    re-compute the canonical hash of the shared roots after every line.  A change is attributed
    to the line that is current in the innermost *active* frame of the tree (a frame stack is
    kept through PY_START / PY_RETURN / PY_YIELD / PY_RESUME / PY_UNWIND), so a store that happens
    after a nested call returned is attributed to the calling line.  Returns
    {"write_lines": {file: {line}}, "write_funcs": {(file, write line): {lines of the function containing it}},
     "attrs": {names of the attributes that were mutated}}."""
    from . import canon

    repo = os.path.realpath(repo)
    mon = sys.monitoring
    E = mon.events
    tool = 5
    write_lines: dict[str, set[int]] = {}
    func_lines: dict[tuple, set[int]] = {}
    attrs: set[str] = set()
    state = {"roots": None, "flat": None, "dig": None, "busy": False, "cheap": None, "fp": None}
    stack: list = []  # [code, line]
    fname_cache: dict[str, str | None] = {}

    def repo_file(code):
        f = fname_cache.get(code.co_filename, 0)
        if f == 0:
            rp = os.path.realpath(code.co_filename)
            f = rp if rp.startswith(repo + os.sep) else None
            fname_cache[code.co_filename] = f
        return f

    def check():
        """State is compared BEFORE the event that triggered the call takes effect, so a change is
        the work of the line currently on top of the stack."""
        if state["busy"] or state["roots"] is None:
            return
        state["busy"] = True
        try:
            flat = canon.flatten(state["roots"])
            dig = canon.digest(flat)
            if state["cheap"] is not None:
                # process-wide containers: a cheap fingerprint per container instead of a full walk
                fp = state["cheap"]()
                if fp != state["fp"]:
                    old = state["fp"] or {}
                    names = {k for k in set(fp) | set(old) if fp.get(k) != old.get(k)}
                    attrs.update(k.rsplit(".", 1)[-1] for k in names)
                    state["fp"] = fp
                    dig = (dig, "proc")   # forces the attribution below
            if dig != state["dig"]:
                if stack:
                    code, line = stack[-1]
                    f = repo_file(code)
                    write_lines.setdefault(f, set()).add(line)
                    func_lines.setdefault((f, line), set()).update(l for (_s, _e, l) in code.co_lines() if l is not None and l != code.co_firstlineno)
                attrs.update(canon.mutated_attrs(state["flat"], flat))
                state["flat"], state["dig"] = flat, canon.digest(flat)
        finally:
            state["busy"] = False

    def on_line(code, line):
        if repo_file(code) is None:
            return mon.DISABLE
        check()
        if stack and stack[-1][0] is code:
            stack[-1][1] = line
        else:
            stack.append([code, line])
        return None

    def on_start(code, offset):
        if repo_file(code) is None:
            return mon.DISABLE
        check()
        stack.append([code, code.co_firstlineno])
        return None

    def on_exit(code, offset, *a):
        if repo_file(code) is None:
            return None
        check()
        for i in range(len(stack) - 1, -1, -1):
            if stack[i][0] is code:
                del stack[i:]
                break
        return None

    mon.use_tool_id(tool, "vmc-profile")
    mon.register_callback(tool, E.LINE, on_line)
    mon.register_callback(tool, E.PY_START, on_start)
    mon.register_callback(tool, E.PY_RESUME, on_start)
    mon.register_callback(tool, E.PY_RETURN, on_exit)
    mon.register_callback(tool, E.PY_YIELD, on_exit)
    mon.register_callback(tool, E.PY_UNWIND, on_exit)
    mon.set_events(tool, E.LINE | E.PY_START | E.PY_RESUME | E.PY_RETURN | E.PY_YIELD | E.PY_UNWIND)
    try:
        for name, fn in ops.items():
            roots = make_roots()
            stack.clear()
            state.update(roots=None, flat=None, dig=None, cheap=None, fp=None)
            flat = canon.flatten(roots["canon"])
            cheap = roots.get("cheap")
            state.update(roots=roots["canon"], flat=flat, dig=canon.digest(flat), cheap=cheap, fp=cheap() if cheap else None)
            try:
                fn(roots["arg"])
            except Exception:
                pass
            check()
            state["roots"] = None
    finally:
        mon.set_events(tool, 0)
        for ev in (E.LINE, E.PY_START, E.PY_RESUME, E.PY_RETURN, E.PY_YIELD, E.PY_UNWIND):
            mon.register_callback(tool, ev, None)
        mon.free_tool_id(tool)
        mon.restart_events()
    return {"write_lines": write_lines, "write_funcs": func_lines, "attrs": attrs}
