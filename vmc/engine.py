"""E1 -- stateless deviation-bounded explorer over choice points, plus the run driver.

A *harness* is a deterministic function ``harness(ch, **params) -> Outcome`` that builds
and runs ONE case, asking ``ch.choose(n, label, free=...)`` wherever something can vary.
``explore`` re-runs the harness for every choice vector within the deviation bound
(choice 0 is the default answer and costs nothing; a non-default answer at a non-free
point costs ``weight``).  Nothing here samples: every vector inside the bound is run.

Outcome protocol (a dict):
  ok        : bool   -- oracle verdict for this execution
  skip      : bool   -- case outside the property's domain (counted, never alarmed)
  obs       : hashable/str -- observation (for "distinct observations" accounting)
  case      : json-able description of the decoded case (for samples / replay files)
  nontrivial: hashable or None -- key under which this case counts as a distinct
              non-trivial case (None = trivial)
  bucket    : str    -- root-cause signature of a violation (matched against known findings)
  detail    : str    -- human readable explanation of a violation
"""
from __future__ import annotations

import hashlib
import json
import multiprocessing as mp
import os
import sys
import time
import traceback
from dataclasses import dataclass, field
from typing import Any, Callable, Iterable

VERIF = os.path.dirname(os.path.dirname(os.path.abspath(__file__)))


class HarnessError(Exception):
    """The machinery itself is broken (nondeterminism, generator bug, cap hit): exit 2."""


class ReplayDivergence(HarnessError):
    pass


class Prune(Exception):
    """Raised by a harness to abandon a case that is outside the enumerated domain."""


class Chooser:
    __slots__ = ("prefix", "points", "cost", "bound")

    def __init__(self, prefix: Iterable[int] = (), bound: int | None = None):
        self.prefix = list(prefix)
        self.points: list[tuple[str, int, int, int]] = []  # label, arity, weight(0=free), chosen
        self.cost = 0
        self.bound = bound

    def choose(self, n: int, label: str = "", free: bool = False, weight: int = 1) -> int:
        if n <= 0:
            raise HarnessError(f"choice point {label!r} with arity {n}")
        i = len(self.points)
        if i < len(self.prefix):
            c = self.prefix[i]
            if c >= n:
                raise ReplayDivergence(
                    f"replayed choice {c} out of range at point {i} ({label!r}, arity {n})"
                )
        else:
            c = 0
        w = 0 if free else weight
        self.points.append((label, n, w, c))
        if c:
            self.cost += w
        return c

    def pick(self, seq, label: str = "", free: bool = False, weight: int = 1):
        return seq[self.choose(len(seq), label, free, weight)]

    def flag(self, label: str = "", free: bool = False, weight: int = 1) -> bool:
        return bool(self.choose(2, label, free, weight))

    @property
    def choices(self) -> list[int]:
        return [p[3] for p in self.points]

    def remaining(self) -> int | None:
        """Deviation budget left (None = unbounded).  Generators may use it to avoid
        offering alternatives that the explorer would not be allowed to take anyway."""
        return None if self.bound is None else self.bound - self.cost


def explore(run: Callable[[Chooser], Any], bound: int | None, on_exec: Callable[[Chooser, Any], None],
            root_prefix: Iterable[int] = (), max_execs: int | None = None) -> int:
    """Depth-first enumeration of every choice vector with cost <= bound.

    ``run(ch)`` executes the harness once.  Returns number of executions.
    Iterative (explicit stack) so deep choice sequences cannot hit the recursion limit.
    """
    n = 0
    stack: list[list[int]] = [list(root_prefix)]
    while stack:
        prefix = stack.pop()
        ch = Chooser(prefix, bound)
        out = run(ch)
        n += 1
        if max_execs is not None and n > max_execs:
            raise HarnessError(f"execution cap {max_execs} hit; not exhaustive")
        pts = ch.points
        if len(pts) < len(prefix):
            raise ReplayDivergence(f"prefix {prefix} longer than points reached ({len(pts)})")
        on_exec(ch, out)
        # cost of prefix part
        cost = 0
        costs = []
        for (_l, _n, w, c) in pts:
            costs.append(cost)
            if c:
                cost += w
        chs = ch.choices
        new = []
        for i in range(len(prefix), len(pts)):
            _l, ar, w, _c = pts[i]
            if ar <= 1:
                continue
            if bound is not None and costs[i] + w > bound:
                continue
            base = chs[:i]
            for alt in range(1, ar):
                new.append(base + [alt])
        # push in reverse so that simplest-first order is explored first
        stack.extend(reversed(new))
    return n


# --------------------------------------------------------------------------------------
# aggregation


@dataclass
class Stats:
    executions: int = 0
    skipped: int = 0
    nontrivial: set = field(default_factory=set)
    observations: set = field(default_factory=set)
    violations: list = field(default_factory=list)  # dicts
    samples: list = field(default_factory=list)
    counters: dict = field(default_factory=dict)
    states: set = field(default_factory=set)
    transitions: int = 0
    max_viol_per_bucket: int = 3
    _bucket_counts: dict = field(default_factory=dict)

    def count(self, key: str, n: int = 1):
        self.counters[key] = self.counters.get(key, 0) + n

    def add_violation(self, v: dict):
        b = v.get("bucket", "?")
        k = self._bucket_counts.get(b, 0)
        self._bucket_counts[b] = k + 1
        if k < self.max_viol_per_bucket:
            self.violations.append(v)

    def merge(self, o: "Stats"):
        self.executions += o.executions
        self.skipped += o.skipped
        self.nontrivial |= o.nontrivial
        self.observations |= o.observations
        for v in o.violations:
            self.add_violation(v)
        for b, k in o._bucket_counts.items():
            # add_violation above already counted the stored ones
            stored = sum(1 for v in o.violations if v.get("bucket", "?") == b)
            self._bucket_counts[b] = self._bucket_counts.get(b, 0) + (k - stored)
        if len(self.samples) < 12:
            self.samples.extend(o.samples[: 12 - len(self.samples)])
        for k, v in o.counters.items():
            self.counters[k] = self.counters.get(k, 0) + v
        self.states |= o.states
        self.transitions += o.transitions


def h(x: Any) -> str:
    """Short stable hash of a json-able / repr-able thing."""
    if not isinstance(x, (str, bytes)):
        x = repr(x)
    if isinstance(x, str):
        x = x.encode("utf-8", "surrogatepass")
    return hashlib.blake2b(x, digest_size=8).hexdigest()


def jsonable(x: Any, depth: int = 0) -> Any:
    if depth > 12:
        return repr(x)
    if x is None or isinstance(x, (bool, int, str)):
        return x
    if isinstance(x, float):
        return x if x == x and x not in (float("inf"), float("-inf")) else repr(x)
    if isinstance(x, bytes):
        return "bytes:" + x.hex()
    if isinstance(x, dict):
        return {str(k): jsonable(v, depth + 1) for k, v in x.items()}
    if isinstance(x, (list, tuple, set, frozenset)):
        return [jsonable(v, depth + 1) for v in x]
    return repr(x)


class Collector:
    """Per-worker collector turning harness outcomes into Stats."""

    def __init__(self, harness_name: str, params: dict, sample_every: int = 0):
        self.stats = Stats()
        self.harness_name = harness_name
        self.params = params
        self.sample_every = sample_every

    def __call__(self, ch: Chooser, out: dict):
        st = self.stats
        st.executions += 1
        if out is None:
            return
        if out.get("skip"):
            st.skipped += 1
            r = out.get("reason")
            if r:
                st.count("skip:" + r)
            for k, v in (out.get("counters") or {}).items():
                st.count(k, v)
            return
        nt = out.get("nontrivial")
        if nt is not None:
            st.nontrivial.add(nt if isinstance(nt, str) and len(nt) <= 16 else h(nt))
        obs = out.get("obs")
        if obs is not None:
            st.observations.add(obs if isinstance(obs, str) and len(obs) <= 16 else h(obs))
        for k, v in (out.get("counters") or {}).items():
            st.count(k, v)
        if out.get("states"):
            st.states.update(out["states"])
            st.transitions += out.get("transitions", 0)
        if not out.get("ok", True):
            st.add_violation({
                "harness": self.harness_name,
                "params": self.params,
                "choices": ch.choices,
                "labels": [p[0] for p in ch.points],
                "case": jsonable(out.get("case")),
                "bucket": out.get("bucket", "unclassified"),
                "detail": out.get("detail", ""),
            })
        elif len(st.samples) < 4 and nt is not None and (st.executions % 97 == 1 or len(st.samples) == 0):
            st.samples.append(jsonable(out.get("case")))


# --------------------------------------------------------------------------------------
# parallel driver

_WORKER_FN = None


def _worker_entry(task):
    try:
        return ("ok", _WORKER_FN(task))
    except HarnessError as e:
        return ("harness", f"{type(e).__name__}: {e}\n{traceback.format_exc()}")
    except BaseException as e:  # noqa
        return ("harness", f"unexpected {type(e).__name__}: {e}\n{traceback.format_exc()}")


def parallel(tasks: list, fn: Callable[[Any], Stats], procs: int | None = None, chunk: int = 1) -> Stats:
    """Run fn over tasks in forked long-lived workers; merge Stats."""
    global _WORKER_FN
    total = Stats()
    if not tasks:
        return total
    procs = procs or min(int(os.environ.get("VERIF_PROCS", "16")), max(1, len(tasks)))
    if procs <= 1 or os.environ.get("VERIF_SERIAL"):
        for t in tasks:
            total.merge(fn(t))
        return total
    _WORKER_FN = fn
    ctx = mp.get_context("fork")
    with ctx.Pool(procs) as pool:
        for kind, res in pool.imap_unordered(_worker_entry, tasks, chunksize=chunk):
            if kind != "ok":
                pool.terminate()
                raise HarnessError(res)
            total.merge(res)
    return total


# --------------------------------------------------------------------------------------
# known findings, replay files, evidence


def load_known() -> list[dict]:
    p = os.path.join(VERIF, "known_findings.json")
    if not os.path.exists(p):
        return []
    with open(p) as f:
        return json.load(f)["findings"]


def write_replay(prop: str, v: dict) -> str:
    d = os.path.join(VERIF, "replays", prop)
    os.makedirs(d, exist_ok=True)
    body = dict(v)
    body["property"] = prop
    name = h(json.dumps([v.get("harness"), v.get("params"), v.get("choices"), v.get("bucket")], sort_keys=True, default=repr))
    p = os.path.join(d, name + ".json")
    with open(p, "w") as f:
        json.dump(body, f, indent=1, default=repr)
    return p


def finish(prop: str, tier: str, seed: int, level: str, stats: Stats, t0: float, *, rule: str,
           assumptions: list[str], extra: dict | None = None, exhaustive: bool = True,
           bound: Any = None) -> int:
    """Write evidence, print KNOWN-FINDING / VIOLATION lines, return exit code."""
    known = [k for k in load_known() if k["property"] == prop]
    open_keys = {k["key"]: k for k in known if k.get("status") == "open"}
    by_bucket: dict[str, list] = {}
    for v in stats.violations:
        by_bucket.setdefault(v["bucket"], []).append(v)
    rc = 0
    unlisted = 0
    if os.environ.get("VERIF_DUMP"):
        with open(os.environ["VERIF_DUMP"], "w") as f:
            json.dump(stats.violations, f, indent=1, default=repr)
    for b, vs in sorted(by_bucket.items()):
        if b in open_keys:
            print(f"KNOWN-FINDING: property={prop} {open_keys[b]['what']} [bucket {b}, {stats._bucket_counts.get(b, len(vs))} cases]")
            continue
        unlisted += 1
        path = write_replay(prop, vs[0])
        print(f"VIOLATION property={prop} replay={path}")
        print(f"  bucket={b} cases={stats._bucket_counts.get(b, len(vs))}: {vs[0]['detail'][:600]}")
        rc = 1
    cov = {
        "evaluations": stats.executions,
        "distinct_nontrivial": len(stats.nontrivial),
        "rule": rule,
        "samples": stats.samples[:6] or ["(no sample recorded)"],
        "distinct_observations": len(stats.observations),
        "skipped_out_of_domain": stats.skipped,
        "exhaustive": exhaustive,
        "counters": dict(sorted(stats.counters.items())),
        "violation_buckets": {b: stats._bucket_counts.get(b, 0) for b in sorted(by_bucket)},
        "known_finding_buckets": sorted(b for b in by_bucket if b in open_keys),
    }
    if bound is not None:
        cov["bound"] = bound
    if stats.states:
        cov["states"] = len(stats.states)
        cov["transitions"] = stats.transitions
        cov["traces_validated_against_impl"] = stats.executions
    if extra:
        cov.update(extra)
    ev = {
        "property_id": prop,
        "tier": tier,
        "seed": seed,
        "level": level,
        "coverage": cov,
        "assumptions": assumptions,
        "wall_s": round(time.time() - t0, 2),
        "violations": unlisted,
    }
    # evidence/<id>.json describes runs on /repo; a run against another tree (VERIF_REPO=<scratch worktree>, used when seeded changes
    # are evaluated) writes next to the replays instead of overwriting it
    edir = "evidence" if os.path.realpath(os.environ.get("VERIF_REPO") or "/repo") == os.path.realpath("/repo") else os.path.join("replays", "evidence-other-tree")
    os.makedirs(os.path.join(VERIF, edir), exist_ok=True)
    with open(os.path.join(VERIF, edir, f"{prop}.json"), "w") as f:
        json.dump(ev, f, indent=1, default=repr)
    print(f"[{prop}] tier={tier} seed={seed} executions={stats.executions} nontrivial={len(stats.nontrivial)} "
          f"observations={len(stats.observations)} skipped={stats.skipped} "
          f"states={len(stats.states)} buckets={len(by_bucket)} unlisted={unlisted} wall={ev['wall_s']}s")
    return rc


def run_twice_same(fn: Callable[[], Any], what: str):
    a = fn()
    b = fn()
    if a != b:
        raise HarnessError(f"nondeterminism: {what}: {a!r} != {b!r}")
    return a


# --------------------------------------------------------------------------------------
# harness registry + generic task runner + replay

HARNESSES: dict[str, Callable] = {}


def harness(name: str):
    def deco(fn):
        HARNESSES[name] = fn
        return fn
    return deco


CURRENT: Chooser | None = None  # the chooser of the execution in progress (used by vmc.setorder)


def run_harness(name: str, params: dict, ch: Chooser):
    global CURRENT
    fn = HARNESSES[name]
    CURRENT = ch
    try:
        return fn(ch, **params)
    except Prune as e:
        return {"skip": True, "reason": str(e) or "pruned"}
    finally:
        CURRENT = None


def explore_task(task) -> Stats:
    """task = (harness_name, params, bound, root_prefix)."""
    name, params, bound, root = task
    col = Collector(name, params)
    explore(lambda ch: run_harness(name, params, ch), bound, col, root)
    return col.stats


def confirm_violations(stats: Stats):
    """Every stored violating execution is replayed twice; one that does not reproduce is kept and marked unstable."""
    for v in stats.violations:
        if v["harness"] not in HARNESSES:
            continue
        res = []
        for _ in range(2):
            ch = Chooser(v["choices"])
            out = run_harness(v["harness"], v["params"], ch)
            res.append(([p[0] for p in ch.points], bool(out.get("ok", True)), out.get("bucket")))
        if res[0] != res[1] or res[0][1] or res[0][2] != v["bucket"] or res[0][0] != v["labels"]:
            # The execution violated the property where it ran (a worker that had run other executions before) and does not do so
            # again here: its outcome depends on process-wide state the tree under test keeps between independent calls (every
            # harness builds its own objects).  That is reported, not hidden: a tree on which the property holds gives no violation
            # to begin with, so this branch cannot raise an alarm of its own.
            v["unstable"] = True
            v["detail"] = (str(v.get("detail", "")) + f"\n[not reproduced on replay in another process state: first={res[0][1:]} second={res[1][1:]}; "
                           "the outcome depends on what ran before in the same process]")


def replay_file(path: str) -> int:
    with open(path) as f:
        v = json.load(f)
    ch = Chooser(v["choices"])
    out = run_harness(v["harness"], v["params"], ch)
    print(json.dumps({"case": jsonable(out.get("case")), "ok": out.get("ok", True), "bucket": out.get("bucket"),
                      "detail": out.get("detail")}, indent=1, default=repr))
    if not out.get("ok", True):
        print(f"VIOLATION property={v.get('property')} replay={path}")
        return 1
    print("replay: property held on this case")
    return 0


def call(fn, *a, **k):
    """Call into the system under test; never lets its exceptions escape the harness."""
    try:
        return ("ok", fn(*a, **k))
    except RecursionError as e:
        return ("exc", e)
    except Exception as e:  # noqa
        return ("exc", e)


def exc_sig(e: BaseException) -> str:
    return f"{type(e).__name__}"


def split_first(task) -> list:
    """Split one exploration task into independent sub-tasks, one per first deviation, plus the
    default execution itself (for load balancing; the union is exactly the original task)."""
    name, params, bound, root = task
    ch = Chooser(list(root), bound)
    run_harness(name, params, ch)
    pts = ch.points
    chs = ch.choices
    out = [(name, params, bound, tuple(chs), True)]  # the default execution only
    cost = 0
    for i in range(len(root), len(pts)):
        _l, ar, w, c = pts[i]
        if ar > 1 and not (bound is not None and cost + w > bound):
            for alt in range(1, ar):
                out.append((name, params, bound, tuple(chs[:i] + [alt])))
        if c:
            cost += w
    return out


def explore_task_split(task) -> Stats:
    """Runs a task produced by split_first."""
    if len(task) == 5:
        name, params, bound, root, _only = task
        col = Collector(name, params)
        ch = Chooser(list(root), bound)
        col(ch, run_harness(name, params, ch))
        return col.stats
    return explore_task(task)


def pmap(fn: Callable, items: list, procs: int | None = None) -> list:
    """Plain parallel map in forked workers (results must be picklable)."""
    global _WORKER_FN
    if not items:
        return []
    procs = procs or min(int(os.environ.get("VERIF_PROCS", "16")), len(items))
    if procs <= 1 or os.environ.get("VERIF_SERIAL"):
        return [fn(x) for x in items]
    _WORKER_FN = fn
    ctx = mp.get_context("fork")
    out = []
    with ctx.Pool(procs) as pool:
        for kind, res in pool.imap(_worker_entry, items):
            if kind != "ok":
                pool.terminate()
                raise HarnessError(res)
            out.append(res)
    return out


def split_deep(task, short: int = 2, rounds: int = 2) -> list:
    """split_first applied again to sub-tasks whose prefix is still short (their subtrees are
    as large as the whole tree when the deviating point is free or early)."""
    tasks = split_first(task)
    for _ in range(rounds - 1):
        nxt = []
        for t in tasks:
            if len(t) == 4 and len(t[3]) <= short:
                nxt.extend(split_first(t))
            else:
                nxt.append(t)
        tasks = nxt
    return tasks
