"""Structural equality with exact leaf types (DESIGN.md 2.6): True != 1, "1" != 1, NaN-aware,
sign of zero, Decimal numerically, QName by text, NamedTuple date types by components."""
from __future__ import annotations

import dataclasses
import math
from decimal import Decimal
from enum import Enum
from xml.etree.ElementTree import QName


def same(a, b) -> bool:
    if type(a) is not type(b):
        return False
    if isinstance(a, float):
        if math.isnan(a) or math.isnan(b):
            return math.isnan(a) and math.isnan(b)
        return a == b and math.copysign(1, a) == math.copysign(1, b)
    if isinstance(a, Decimal):
        if a.is_nan() or b.is_nan():
            return a.is_nan() and b.is_nan()
        return a == b
    if isinstance(a, QName):
        return a.text == b.text
    if isinstance(a, Enum):
        return a is b
    if dataclasses.is_dataclass(a):
        for f in dataclasses.fields(a):
            if not f.compare:
                continue
            if not same(getattr(a, f.name), getattr(b, f.name)):
                return False
        return True
    if isinstance(a, tuple) and hasattr(a, "_fields"):
        return tuple.__eq__(a, b)
    if isinstance(a, (list, tuple)):
        return len(a) == len(b) and all(same(x, y) for x, y in zip(a, b))
    if isinstance(a, dict):
        return a.keys() == b.keys() and all(same(v, b[k]) for k, v in a.items())
    return a == b


def diff(a, b, path="") -> str:
    """First difference between two structures, for messages."""
    if type(a) is not type(b):
        return f"{path or '.'}: {type(a).__name__} {a!r} != {type(b).__name__} {b!r}"
    if dataclasses.is_dataclass(a) and not isinstance(a, type):
        for f in dataclasses.fields(a):
            if not same(getattr(a, f.name), getattr(b, f.name)):
                return diff(getattr(a, f.name), getattr(b, f.name), f"{path}.{f.name}")
        return ""
    if isinstance(a, (list, tuple)) and not hasattr(a, "_fields"):
        if len(a) != len(b):
            return f"{path}: length {len(a)} != {len(b)}: {a!r} != {b!r}"
        for i, (x, y) in enumerate(zip(a, b)):
            if not same(x, y):
                return diff(x, y, f"{path}[{i}]")
        return ""
    if isinstance(a, dict):
        if a.keys() != b.keys():
            return f"{path}: keys {sorted(a, key=repr)} != {sorted(b, key=repr)}"
        for k in a:
            if not same(a[k], b[k]):
                return diff(a[k], b[k], f"{path}[{k!r}]")
        return ""
    if not same(a, b):
        return f"{path or '.'}: {a!r} != {b!r}"
    return ""
