"""Generic canonical form of long-lived library objects (E2, DESIGN.md 2.2).

``flatten(roots)`` walks **all** ``__slots__`` / ``__dict__`` attributes of the given objects and
of everything reachable from them that is defined by xsdata (contexts, parsers, serializers,
XmlMeta / XmlVar, configs ...), with dict / set contents sorted and classes named, and returns
a flat ``{path: leaf-repr}`` mapping.  Because it is generic it also picks up state that a later
edit adds (a new cache attribute); an over-fine canon only costs time.
"""
from __future__ import annotations

import dataclasses
import enum
import types
from collections import defaultdict

ATOM = (str, bytes, int, float, bool, type(None), complex)


def _name(x) -> str:
    if isinstance(x, type):
        return f"<class {x.__module__}.{x.__qualname__}>"
    if isinstance(x, (types.FunctionType, types.BuiltinFunctionType, types.MethodType)):
        return f"<function {getattr(x, '__module__', '?')}.{getattr(x, '__qualname__', '?')}>"
    return repr(x)


def _attrs(obj):
    names = []
    for klass in type(obj).__mro__:
        sl = klass.__dict__.get("__slots__", ())
        if isinstance(sl, str):
            sl = (sl,)
        for s in sl:
            if s not in ("__dict__", "__weakref__") and s not in names:
                names.append(s)
    d = getattr(obj, "__dict__", None)
    if isinstance(d, dict):
        for k in d:
            if k not in names:
                names.append(k)
    return names


def _is_lib(obj) -> bool:
    m = type(obj).__module__ or ""
    return m.startswith("xsdata")


def flatten(roots: dict, max_depth: int = 12, rewrite: dict | None = None) -> dict:
    """rewrite: {attribute name: fn(value) -> value} applied to lib-object attributes before
    walking them (used to express an environment-relative value, e.g. a recorded
    len(sys.modules), relative to the environment instead of absolutely)."""
    out: dict = {}
    rewrite = rewrite or {}
    seen: dict[int, str] = {}

    def walk(x, path: str, depth: int):
        if isinstance(x, ATOM):
            out[path] = repr(x)
            return
        if isinstance(x, (type, types.FunctionType, types.BuiltinFunctionType, types.MethodType, types.ModuleType)):
            out[path] = _name(x)
            return
        if isinstance(x, enum.Enum):
            out[path] = f"{type(x).__name__}.{x.name}"
            return
        if depth > max_depth:
            out[path] = "<depth>"
            return
        if isinstance(x, (dict, defaultdict)):
            out[path + "#len"] = str(len(x))
            for k in sorted(x, key=_name):
                walk(x[k], f"{path}[{_name(k)}]", depth + 1)
            return
        if isinstance(x, (list, tuple)):
            out[path + "#len"] = str(len(x))
            for i, v in enumerate(x):
                walk(v, f"{path}[{i}]", depth + 1)
            return
        if isinstance(x, (set, frozenset)):
            out[path + "#set"] = repr(sorted(_name(v) for v in x))
            return
        oid = id(x)
        if oid in seen:
            out[path] = f"<ref {seen[oid]}>"
            return
        if _is_lib(x) or dataclasses.is_dataclass(x):
            seen[oid] = path
            out[path + "#type"] = _name(type(x))
            for a in _attrs(x):
                try:
                    v = getattr(x, a)
                except AttributeError:
                    out[f"{path}.{a}"] = "<unset>"
                    continue
                if a in rewrite:
                    v = rewrite[a](v)
                walk(v, f"{path}.{a}", depth + 1)
            return
        out[path] = f"<{type(x).__module__}.{type(x).__qualname__}>"

    for name, r in roots.items():
        walk(r, name, 0)
    return out


def digest(flat: dict) -> int:
    return hash(tuple(sorted(flat.items())))


def changed_attrs(a: dict, b: dict) -> set[str]:
    """Attribute names on the paths whose value differs between two flattened states."""
    import re
    names: set[str] = set()
    for k in set(a) | set(b):
        if a.get(k) != b.get(k):
            for m in re.finditer(r"\.([A-Za-z_][A-Za-z0-9_]*)", re.sub(r"\[[^\]]*\]", "", k)):
                names.add(m.group(1))
    return names


def mutated_attrs(a: dict, b: dict) -> set[str]:
    """Names of the attributes that were mutated between two flattened states: for every minimal
    changed path (no changed proper prefix) the last attribute name on it.  A new dictionary key
    shows as a change of the container's ``#len`` entry, so ``ctx.cache[<class X>].qname`` appearing
    is attributed to ``cache``, not to ``qname``."""
    import re
    changed = set()
    for k in set(a) | set(b):
        if a.get(k) != b.get(k):
            changed.add(re.sub(r"#(len|type|set)$", "", k))
    minimal = []
    for k in sorted(changed, key=len):
        if not any(k != m and k.startswith(m) and k[len(m)] in ".[" for m in minimal):
            minimal.append(k)
    names = set()
    for k in minimal:
        flat = re.sub(r"\[[^\]]*\]", "", k)
        m = re.findall(r"\.([A-Za-z_][A-Za-z0-9_]*)", flat)
        if m:
            names.add(m[-1])
    return names
