"""Independent reference for XML Schema 1.1 datatypes (lexical spaces and value mappings).

Written from the W3C XSD 1.1 Part 2 text, using only ``re`` and integer arithmetic; it never
imports xsdata.  Used as the oracle of C05/C06 and for typed normalisation elsewhere.
"""
from __future__ import annotations

import re
from decimal import Decimal
from fractions import Fraction

WS = " \t\n\r"


def collapse(s: str) -> str:
    return " ".join(x for x in re.split(r"[ \t\n\r]+", s) if x)


# ---------------------------------------------------------------------------------------
# calendar arithmetic (proleptic Gregorian, astronomical year numbering as in XSD 1.1:
# year 0000 is 1 BCE)


def is_leap(y: int) -> bool:
    return (y % 4 == 0 and y % 100 != 0) or y % 400 == 0


def month_len(y: int | None, m: int) -> int:
    if m == 2:
        return 29 if (y is None or is_leap(y)) else 28
    return 30 if m in (4, 6, 9, 11) else 31


def days_from_civil(y: int, m: int, d: int) -> int:
    """Days since 1970-01-01 (Howard Hinnant's algorithm; exact for any integer year)."""
    y -= m <= 2
    era = y // 400
    yoe = y - era * 400
    doy = (153 * (m + (-3 if m > 2 else 9)) + 2) // 5 + d - 1
    doe = yoe * 365 + yoe // 4 - yoe // 100 + doy
    return era * 146097 + doe - 719468


NS = 1_000_000_000


def timeline_ns(y, mo, d, h, mi, s, frac_ns, offset_min) -> int:
    """Integer nanoseconds on the UTC timeline (offset None is treated as given: caller
    must not mix timezoned and un-timezoned values)."""
    days = days_from_civil(y, mo, d)
    minutes = h * 60 + mi - (offset_min or 0)
    return (days * 86400 + minutes * 60 + s) * NS + frac_ns


def time_of_day_ns(h, mi, s, frac_ns, offset_min) -> int:
    return ((h * 60 + mi - (offset_min or 0)) * 60 + s) * NS + frac_ns


# ---------------------------------------------------------------------------------------
# lexical spaces (XSD 1.1 Part 2, section 3.3 / appendix D)

_YEAR = r"-?(?:[1-9][0-9]{3,}|0[0-9]{3})"
_MONTH = r"(?:0[1-9]|1[0-2])"
_DAY = r"(?:0[1-9]|[12][0-9]|3[01])"
_TZ = r"(?:Z|[+-](?:(?:0[0-9]|1[0-3]):[0-5][0-9]|14:00))"
_TIME = r"(?:(?:[01][0-9]|2[0-3]):[0-5][0-9]:[0-5][0-9](?:\.[0-9]+)?|24:00:00(?:\.0+)?)"

RE = {
    "dateTime": re.compile(rf"({_YEAR})-({_MONTH})-({_DAY})T({_TIME})({_TZ})?\Z"),
    "date": re.compile(rf"({_YEAR})-({_MONTH})-({_DAY})({_TZ})?\Z"),
    "time": re.compile(rf"({_TIME})({_TZ})?\Z"),
    "gYear": re.compile(rf"({_YEAR})({_TZ})?\Z"),
    "gYearMonth": re.compile(rf"({_YEAR})-({_MONTH})({_TZ})?\Z"),
    "gMonth": re.compile(rf"--({_MONTH})({_TZ})?\Z"),
    "gMonthDay": re.compile(rf"--({_MONTH})-({_DAY})({_TZ})?\Z"),
    "gDay": re.compile(rf"---({_DAY})({_TZ})?\Z"),
    "duration": re.compile(
        r"(-)?P(?:([0-9]+)Y)?(?:([0-9]+)M)?(?:([0-9]+)D)?"
        r"(?:T(?:([0-9]+)H)?(?:([0-9]+)M)?(?:([0-9]+(?:\.[0-9]+)?)S)?)?\Z"),
    "boolean": re.compile(r"(?:true|false|1|0)\Z"),
    "decimal": re.compile(r"[+-]?(?:[0-9]+(?:\.[0-9]*)?|\.[0-9]+)\Z"),
    "integer": re.compile(r"[+-]?[0-9]+\Z"),
    "float": re.compile(r"(?:[+-]?(?:[0-9]+(?:\.[0-9]*)?|\.[0-9]+)(?:[eE][+-]?[0-9]+)?|[+-]?INF|NaN)\Z"),
    "hexBinary": re.compile(r"(?:[0-9a-fA-F]{2})*\Z"),
    # base64Binary lexical space (with optional single spaces between characters, XSD 1.1 3.3.16.2)
    "base64Binary": re.compile(
        r"(?:(?:[A-Za-z0-9+/] ?){4})*(?:(?:[A-Za-z0-9+/] ?){2}[AEIMQUYcgkosw048] ?=|(?:[A-Za-z0-9+/] ?)[AQgw] ?= ?=)?\Z"),
    "NCName": re.compile(r"[^\W\d][\w.\-·\u0300-\u036f\u203f\u2040]*\Z"),
}


def tz_minutes(tz: str | None) -> int | None:
    if not tz:
        return None
    if tz == "Z":
        return 0
    sign = -1 if tz[0] == "-" else 1
    return sign * (int(tz[1:3]) * 60 + int(tz[4:6]))


def _time_parts(t: str):
    h, mi, rest = t[0:2], t[3:5], t[6:]
    if "." in rest:
        s, f = rest.split(".")
    else:
        s, f = rest, ""
    return int(h), int(mi), int(s), f


def frac_to_ns(f: str) -> int | None:
    """Fraction digits -> ns, or None if it needs more than nanosecond precision."""
    f = f.rstrip("0")
    if len(f) > 9:
        return None
    return int(f.ljust(9, "0")) if f else 0


def parse_datetime(s: str):
    """-> dict of components, or None if s is not in the lexical space / denotes no date."""
    m = RE["dateTime"].match(s)
    if not m:
        return None
    y, mo, d = int(m.group(1)), int(m.group(2)), int(m.group(3))
    if d > month_len(y, mo):
        return None
    h, mi, sec, f = _time_parts(m.group(4))
    return dict(year=y, month=mo, day=d, hour=h, minute=mi, second=sec, frac=f, offset=tz_minutes(m.group(5)))


def parse_date(s: str):
    m = RE["date"].match(s)
    if not m:
        return None
    y, mo, d = int(m.group(1)), int(m.group(2)), int(m.group(3))
    if d > month_len(y, mo):
        return None
    return dict(year=y, month=mo, day=d, offset=tz_minutes(m.group(4)))


def parse_time(s: str):
    m = RE["time"].match(s)
    if not m:
        return None
    h, mi, sec, f = _time_parts(m.group(1))
    return dict(hour=h, minute=mi, second=sec, frac=f, offset=tz_minutes(m.group(2)))


def parse_period(s: str):
    """-> (kind, dict) or None."""
    for kind in ("gDay", "gMonthDay", "gMonth", "gYearMonth", "gYear"):
        m = RE[kind].match(s)
        if not m:
            continue
        g = m.groups()
        out = dict(year=None, month=None, day=None, offset=tz_minutes(g[-1]))
        if kind == "gDay":
            out["day"] = int(g[0])
        elif kind == "gMonth":
            out["month"] = int(g[0])
        elif kind == "gMonthDay":
            out["month"], out["day"] = int(g[0]), int(g[1])
            if out["day"] > month_len(None, out["month"]):
                return None
        elif kind == "gYear":
            out["year"] = int(g[0])
        else:
            out["year"], out["month"] = int(g[0]), int(g[1])
        return kind, out
    return None


def parse_duration(s: str):
    m = RE["duration"].match(s)
    if not m:
        return None
    sign, y, mo, d, h, mi, sec = m.groups()
    if all(x is None for x in (y, mo, d, h, mi, sec)):
        return None
    if "T" in s and all(x is None for x in (h, mi, sec)):
        return None
    return dict(negative=sign == "-",
                years=None if y is None else int(y), months=None if mo is None else int(mo),
                days=None if d is None else int(d), hours=None if h is None else int(h),
                minutes=None if mi is None else int(mi), seconds=None if sec is None else Fraction(sec))


def duration_value(c: dict):
    """XSD value of a duration: (months, seconds as Fraction)."""
    months = (c["years"] or 0) * 12 + (c["months"] or 0)
    secs = ((c["days"] or 0) * 24 + (c["hours"] or 0)) * 3600 + (c["minutes"] or 0) * 60 + (c["seconds"] or 0)
    sg = -1 if c["negative"] else 1
    return sg * months, sg * secs


# ---------------------------------------------------------------------------------------
# simple numeric / binary types


def is_valid(kind: str, s: str) -> bool:
    if kind in ("dateTime",):
        return parse_datetime(s) is not None
    if kind == "date":
        return parse_date(s) is not None
    if kind == "time":
        return parse_time(s) is not None
    if kind in ("gYear", "gYearMonth", "gMonth", "gMonthDay", "gDay"):
        r = parse_period(s)
        return r is not None and r[0] == kind
    if kind == "duration":
        return parse_duration(s) is not None
    if kind == "string":
        return True
    return RE[kind].match(s) is not None


def decimal_value(s: str) -> Fraction:
    return Fraction(s)


def float_value(s: str, bits: int = 64) -> float:
    if s in ("INF", "+INF"):
        return float("inf")
    if s == "-INF":
        return float("-inf")
    if s == "NaN":
        return float("nan")
    return float(s)  # correctly rounded decimal->binary64 (IEEE), as XSD prescribes


def boolean_value(s: str) -> bool:
    return s in ("true", "1")


def hex_value(s: str) -> bytes:
    return bytes.fromhex(s)


_B64 = "ABCDEFGHIJKLMNOPQRSTUVWXYZabcdefghijklmnopqrstuvwxyz0123456789+/"


def base64_value(s: str) -> bytes:
    s = s.replace(" ", "")
    pad = s.count("=")
    bits = 0
    n = 0
    for ch in s.rstrip("="):
        bits = (bits << 6) | _B64.index(ch)
        n += 6
    bits >>= (n % 8)
    nbytes = n // 8
    return bits.to_bytes(nbytes, "big") if nbytes else b""


INT_RANGES = {
    "byte": (-2**7, 2**7 - 1), "short": (-2**15, 2**15 - 1), "int": (-2**31, 2**31 - 1),
    "long": (-2**63, 2**63 - 1), "unsignedByte": (0, 2**8 - 1), "unsignedShort": (0, 2**16 - 1),
    "unsignedInt": (0, 2**32 - 1), "unsignedLong": (0, 2**64 - 1), "integer": (None, None),
    "nonNegativeInteger": (0, None), "positiveInteger": (1, None), "nonPositiveInteger": (None, 0),
    "negativeInteger": (None, -1),
}


def int_in(kind: str, v: int) -> bool:
    lo, hi = INT_RANGES[kind]
    return (lo is None or v >= lo) and (hi is None or v <= hi)
