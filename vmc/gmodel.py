"""G-model: binding models as real @dataclass classes in synthetic modules (DESIGN.md 2.5).

A model is produced by a grammar walk over ``ch.choose``; it is rendered to *python source*
(which doubles as the human-readable form in samples / replay files), exec'd into a fresh
module and registered in sys.modules while a case runs.
"""
from __future__ import annotations

import sys
import types
from collections import OrderedDict
from dataclasses import dataclass, field
from typing import Any

from .engine import Chooser, HarnessError, Prune, explore, h

NS_M = "urn:m"
NS_O = "urn:o"

PRELUDE = '''\
import datetime
from dataclasses import dataclass, field
from decimal import Decimal
from enum import Enum
from typing import Any, Dict, List, Optional, Tuple, Union
from xml.etree.ElementTree import QName
from xsdata.formats.dataclass.models.generics import AnyElement, DerivedElement
from xsdata.models.datatype import XmlDate, XmlDateTime, XmlDuration, XmlPeriod, XmlTime
'''

HELPERS = {
    "Color": '''
class Color(Enum):
    RED = "red"
    GREEN_TEA = "green tea"
    N1 = "1"
''',
    "Num": '''
class Num(Enum):
    ONE = 1
    MINUS = -2
''',
    "QEnum": '''
class QEnum(Enum):
    A = QName("{urn:q}a")
    B = QName("b")
''',
    "Child": '''
@dataclass
class Child:
    v: Optional[str] = field(default=None, metadata={"type": "Element"})
    a: Optional[int] = field(default=None, metadata={"type": "Attribute"})
''',
    "Derived": '''
@dataclass
class Derived(Child):
    w: Optional[str] = field(default=None, metadata={"type": "Element"})


@dataclass
class Derived2(Derived):
    z: Optional[int] = field(default=None, metadata={"type": "Element"})
''',
    "CodeInt": '''
@dataclass
class CodeInt:
    code: Optional[int] = field(default=None, metadata={"type": "Element"})
''',
    "CodeStr": '''
@dataclass
class CodeStr:
    code: Optional[str] = field(default=None, metadata={"type": "Element"})
''',
    "NsChild": '''
@dataclass
class NsChild:
    class Meta:
        namespace = "urn:c"
    v: Optional[str] = field(default=None, metadata={"type": "Element"})
    q: Optional[QName] = field(default=None, metadata={"type": "Attribute"})
''',
    "Other": '''
@dataclass
class Other:
    x: Optional[int] = field(default=None, metadata={"type": "Element"})
''',
    "Wrap": '''
@dataclass
class Wrap:
    c: Optional[Child] = field(default=None, metadata={"type": "Element"})
    t: Optional[str] = field(default=None, metadata={"type": "Attribute"})
''',
    "AnyChild": '''
@dataclass
class AnyChild:
    any: List[object] = field(default_factory=list, metadata={"type": "Wildcard", "namespace": "##any"})
    k: Optional[str] = field(default=None, metadata={"type": "Attribute"})
''',
    "TextChild": '''
@dataclass
class TextChild:
    value: Optional[str] = field(default=None, metadata={"type": "Text"})
    lang: Optional[str] = field(default=None, metadata={"type": "Attribute"})
''',
}
INNER_HELPERS = {
    "Inner": '''
    @dataclass
    class Inner:
        v: Optional[str] = field(default=None, metadata={"type": "Element"})
        n: Optional[int] = field(default=None, metadata={"type": "Attribute"})
        leaf: Optional["Root.Inner.Leaf"] = field(default=None, metadata={"type": "Element"})

        @dataclass
        class Leaf:
            x: Optional[str] = field(default=None, metadata={"type": "Attribute"})
            shade: Optional["Root.Inner.Leaf.Shade"] = field(default=None, metadata={"type": "Attribute"})

            class Shade(Enum):
                DARK = "dark"
                LIGHT = "light"
''',
    "InnerColor": '''
    class InnerColor(Enum):
        RED = "red"
        BLUE = "blue"
''',
}
HELPER_DEPS = {"Derived": ["Child"], "Wrap": ["Child"]}
HELPER_ORDER = ["Color", "Num", "QEnum", "Child", "Derived", "NsChild", "Other", "Wrap", "AnyChild", "TextChild", "CodeInt", "CodeStr"]

# ---------------------------------------------------------------------------------------
# scalar type table: key -> (annotation, value expressions simplest first, format, helpers, tags)

CR_VALUES = ["'x\\ry'", "'\\r\\n'"]

SCALARS: "OrderedDict[str, dict]" = OrderedDict([
    ("str", dict(ann="str", vals=["'a'", "''", "' a b '", "'a&<>\"\\'b'", "']]>'", "'x\\ty\\nz'", "'\\U0001F600\\u00e9'", "'\\rx\\r\\ry\\r'", "'caf\\u00e9'"])),
    ("int", dict(ann="int", vals=["1", "0", "-1", "2**63"])),
    ("bool", dict(ann="bool", vals=["True", "False"])),
    ("float", dict(ann="float", vals=["1.5", "-0.0", "1e22", "float('inf')", "float('nan')"])),
    ("Decimal", dict(ann="Decimal", vals=["Decimal('1.50')", "Decimal('1E+5')", "Decimal('-0')"])),
    ("QName", dict(ann="QName", vals=["QName('a')", "QName('{urn:q}b')", "QName('{urn:m}c')"], tags={"qname"})),
    ("XmlDate", dict(ann="XmlDate", vals=["XmlDate(2020, 1, 2)", "XmlDate(-1, 12, 31, 0)"])),
    ("XmlDateTime", dict(ann="XmlDateTime", vals=["XmlDateTime(2020, 1, 2, 3, 4, 5)", "XmlDateTime(2020, 2, 29, 24, 0, 0, 0, -300)", "XmlDateTime(1, 1, 1, 0, 0, 0, 1, 0)", "XmlDateTime(2002, 1, 1, 12, 30, 0)"])),
    ("XmlTime", dict(ann="XmlTime", vals=["XmlTime(1, 2, 3)", "XmlTime(23, 59, 59, 999999999, 840)", "XmlTime(12, 0, 0)"])),
    ("XmlDuration", dict(ann="XmlDuration", vals=["XmlDuration('P1D')", "XmlDuration('-PT0.5S')"])),
    ("XmlPeriod", dict(ann="XmlPeriod", vals=["XmlPeriod('2001')", "XmlPeriod('--02-29Z')"])),
    ("bytes16", dict(ann="bytes", vals=["b'hi'", "b''", "b'\\x00\\xff'"], format="base16")),
    ("bytes64", dict(ann="bytes", vals=["b'hi'", "b''", "b'\\x00\\xff\\xfe'"], format="base64")),
    ("datetime", dict(ann="datetime.datetime", vals=["datetime.datetime(2020, 1, 2, 3, 4, 5)"], format="%Y-%m-%dT%H:%M:%S")),
    ("date", dict(ann="datetime.date", vals=["datetime.date(2020, 2, 29)"], format="%d/%m/%Y")),
    ("Color", dict(ann="Color", vals=["Color.RED", "Color.GREEN_TEA", "Color.N1"], helpers=["Color"], tags={"enum"})),
    ("Num", dict(ann="Num", vals=["Num.ONE", "Num.MINUS"], helpers=["Num"], tags={"enum"})),
    ("QEnum", dict(ann="QEnum", vals=["QEnum.A", "QEnum.B"], helpers=["QEnum"], tags={"enum", "qname"})),
    ("InnerColor", dict(ann="InnerColor", vals=["Root.InnerColor.RED", "Root.InnerColor.BLUE"], helpers=["InnerColor"], tags={"enum", "inner"})),
])
SCALAR_KEYS = list(SCALARS)
# token items must be non-empty and whitespace-free (XSD list item space)
TOKEN_SAFE = {"str": ["'a'", "'b'", "'c&d'"], "Color": ["Color.RED", "Color.N1"],
              "bytes16": ["b'hi'", "b'\\x00\\xff'"], "bytes64": ["b'hi'", "b'\\x00\\xff\\xfe'"]}


def token_vals(tkey: str) -> list[str]:
    if tkey in TOKEN_SAFE:
        return TOKEN_SAFE[tkey]
    return SCALARS[tkey]["vals"]


@dataclass
class FieldSpec:
    name: str
    ann: str
    default: str | None  # None = required (no default)
    meta: dict
    values: list[str]
    cat: str
    helpers: list[str] = field(default_factory=list)
    tags: set = field(default_factory=set)

    def source(self, kw_only: bool) -> str:
        meta = "{" + ", ".join(f"{k!r}: {v}" for k, v in self.meta.items()) + "}"
        init = "init=False, " if "init-false" in self.tags else ""
        if init:
            return f"    {self.name}: {self.ann} = field({init}default={self.default}, metadata={meta})"
        if self.default is None:
            return f"    {self.name}: {self.ann} = field(metadata={meta})"
        if self.default.startswith("factory:"):
            return f"    {self.name}: {self.ann} = field(default_factory={self.default[8:]}, metadata={meta})"
        return f"    {self.name}: {self.ann} = field(default={self.default}, metadata={meta})"


@dataclass
class ModelSpec:
    fields: list[FieldSpec]
    meta_name: str | None = None
    meta_ns: str | None = None       # None = absent
    module_ns: str | None = None
    meta_nillable: bool = False
    frozen: bool = False
    base_split: int = 0              # number of leading fields declared in a base class
    base_ns: str | None = None
    elem_gen: str | None = None
    attr_gen: str | None = None
    tags: set = field(default_factory=set)

    def helpers(self) -> list[str]:
        need = []
        for f in self.fields:
            for hname in f.helpers:
                for d in HELPER_DEPS.get(hname, []) + [hname]:
                    if d not in need:
                        need.append(d)
        return [x for x in HELPER_ORDER if x in need]

    def inner_helpers(self) -> list[str]:
        need = []
        for f in self.fields:
            for hname in f.helpers:
                if hname in INNER_HELPERS and hname not in need:
                    need.append(hname)
        return need

    def source(self) -> str:
        out = [PRELUDE]
        if self.elem_gen or self.attr_gen:
            out.append("from xsdata.utils import text as _text\n")
        if self.module_ns is not None:
            out.append(f"__NAMESPACE__ = {self.module_ns!r}\n")
        for hname in self.helpers():
            out.append(HELPERS[hname])
        deco = "@dataclass(kw_only=True" + (", frozen=True" if self.frozen else "") + ")"
        fields = self.fields
        if self.base_split:
            out.append(f"\n{deco}\nclass Base:")
            if self.base_ns is not None:
                out.append(f"    class Meta:\n        namespace = {self.base_ns!r}")
            for f in fields[: self.base_split]:
                out.append(f.source(True))
            fields = fields[self.base_split:]
            out.append(f"\n{deco}\nclass Root(Base):")
        else:
            out.append(f"\n{deco}\nclass Root:")
        metas = []
        if self.meta_name is not None:
            metas.append(f"        name = {self.meta_name!r}")
        if self.meta_ns is not None:
            metas.append(f"        namespace = {self.meta_ns!r}")
        if self.meta_nillable:
            metas.append("        nillable = True")
        if self.elem_gen:
            metas.append(f"        element_name_generator = _text.{self.elem_gen}")
        if self.attr_gen:
            metas.append(f"        attribute_name_generator = _text.{self.attr_gen}")
        if metas:
            out.append("    class Meta:\n" + "\n".join(metas))
        for hname in self.inner_helpers():
            out.append(INNER_HELPERS[hname].rstrip("\n"))
        for f in fields:
            out.append(f.source(True))
        post = [f for f in self.fields if "postinit" in f.tags]
        if post and not self.frozen:
            out.append("    def __post_init__(self):")
            for f in post:
                out.append(f"        self.{f.name} = 7")
        if not fields and not metas:
            out.append("    pass")
        return "\n".join(out) + "\n"


# ---------------------------------------------------------------------------------------
# the grammar


def _listvals(vals: list[str], tup: bool = False) -> list[str]:
    o, c = ("(", ",)") if tup else ("[", "]")
    v0 = vals[0]
    v1 = vals[1] if len(vals) > 1 else vals[0]
    v2 = vals[2] if len(vals) > 2 else v1
    if tup:
        return [f"({v0},)", "()", f"({v0}, {v1})", f"({v1}, {v2}, {v0})"]
    return [f"[{v0}]", "[]", f"[{v0}, {v1}]", f"[{v1}, {v2}, {v0}]"]


def gen_field(ch: Chooser, i: int, frozen: bool, cats: list[str], scalar_keys: list[str]) -> FieldSpec:
    name = f"f{i}"
    cat = ch.pick(cats, f"{name}.cat")
    L = "Tuple[%s, ...]" if frozen else "List[%s]"
    lf = "factory:tuple" if frozen else "factory:list"
    if cat == "element":
        tkey = ch.pick(scalar_keys, f"{name}.type")
        sc = SCALARS[tkey]
        arity = ch.pick(["required", "optional", "list"], f"{name}.arity")
        meta: dict = {"type": "'Element'"}
        tags = set(sc.get("tags", ()))
        tags.add("t:" + tkey)
        if sc.get("format"):
            meta["format"] = repr(sc["format"])
        nillable = ch.flag(f"{name}.nillable")
        ns = ch.pick([None, "", NS_O], f"{name}.ns")
        rename = ch.pick([False, True, "same"], f"{name}.rename")
        tokens = ch.flag(f"{name}.tokens") if arity == "list" else False
        toklist = ch.flag(f"{name}.tokenlist") if tokens else False
        wrapper = ch.flag(f"{name}.wrapper") if arity == "list" and not tokens else False
        seq = ch.flag(f"{name}.sequence")
        if nillable:
            meta["nillable"] = "True"
            tags.add("nillable")
        if ns is not None:
            meta["namespace"] = repr(ns)
        if rename == "same":
            meta["name"] = "'same'"
            tags.add("samename")
        elif rename:
            meta["name"] = repr(f"el-{i}.x")
        if seq:
            meta["sequence"] = "1"
            tags.add("sequence")
        vals = list(sc["vals"])
        if arity == "required":
            return FieldSpec(name, sc["ann"], None, meta, vals, cat, sc.get("helpers", []), tags)
        if arity == "optional":
            return FieldSpec(name, f"Optional[{sc['ann']}]", "None", meta, vals[:1] + ["None"] + vals[1:], cat, sc.get("helpers", []), tags | {"optional"})
        tags.add("list")
        if tokens:
            meta["tokens"] = "True"
            tags.add("tokens")
            tv = token_vals(tkey)
            if toklist:
                inner = _listvals(tv, frozen)
                ann = L % (L % sc["ann"])
                vals = _listvals([inner[0], inner[2], inner[3]], frozen)
                tags.add("tokenlist")
            else:
                ann = L % sc["ann"]
                vals = _listvals(tv, frozen)
            return FieldSpec(name, ann, lf, meta, vals, cat, sc.get("helpers", []), tags)
        if wrapper:
            meta["wrapper"] = repr(f"wrap{i}")
            tags.add("wrapper")
        return FieldSpec(name, L % sc["ann"], lf, meta, _listvals(vals, frozen), cat, sc.get("helpers", []), tags)
    if cat == "attribute":
        tkey = ch.pick(["str", "int", "bool", "Color", "QName", "XmlDate", "Decimal", "bytes16"], f"{name}.type")
        sc = SCALARS[tkey]
        variant = ch.pick(["optional", "required", "default", "tokens", "required-default"], f"{name}.variant")
        ns = ch.pick([None, NS_O, NS_M], f"{name}.ns")
        rename = ch.flag(f"{name}.rename")
        meta = {"type": "'Attribute'"}
        tags = set(sc.get("tags", ())) | {"t:" + tkey, "attr:" + variant}
        if sc.get("format"):
            meta["format"] = repr(sc["format"])
        if ns is not None:
            meta["namespace"] = repr(ns)
        if rename:
            meta["name"] = repr(f"at-{i}")
        vals = list(sc["vals"])
        if variant == "optional":
            return FieldSpec(name, f"Optional[{sc['ann']}]", "None", meta, vals[:1] + ["None"] + vals[1:], cat, sc.get("helpers", []), tags)
        if variant == "required":
            return FieldSpec(name, sc["ann"], None, meta, vals, cat, sc.get("helpers", []), tags)
        if variant == "default":
            return FieldSpec(name, sc["ann"], vals[0], meta, vals, cat, sc.get("helpers", []), tags)
        if variant == "required-default":
            meta["required"] = "True"
            return FieldSpec(name, sc["ann"], vals[0], meta, vals, cat, sc.get("helpers", []), tags)
        meta["tokens"] = "True"
        tags.add("tokens")
        return FieldSpec(name, L % sc["ann"], lf, meta, _listvals(token_vals(tkey), frozen), cat, sc.get("helpers", []), tags)
    if cat == "text":
        variant = ch.pick(["str-optional", "int-required", "tokens", "Color-optional", "QName-optional", "str-required", "default-type"], f"{name}.variant")
        meta = {"type": "'Text'"}
        tags = {"text"}
        if variant == "str-optional":
            # "" is not used as Text content: the infoset cannot distinguish it from no text
            return FieldSpec(name, "Optional[str]", "None", meta, ["'a'", "None", "' a b '", "'a&<>\"b'"], cat, [], tags)
        if variant == "str-required":
            return FieldSpec(name, "str", None, meta, ["'a'", "' a b '", "'x\\ty'"], cat, [], tags)
        if variant == "int-required":
            return FieldSpec(name, "int", None, meta, SCALARS["int"]["vals"], cat, [], tags)
        if variant == "tokens":
            meta["tokens"] = "True"
            return FieldSpec(name, L % "int", lf, meta, _listvals(SCALARS["int"]["vals"], frozen), cat, [], tags | {"tokens"})
        if variant == "Color-optional":
            return FieldSpec(name, "Optional[Color]", "None", meta, ["Color.RED", "None", "Color.GREEN_TEA"], cat, ["Color"], tags | {"enum"})
        if variant == "QName-optional":
            return FieldSpec(name, "Optional[QName]", "None", meta, ["QName('{urn:q}b')", "None", "QName('{urn:m}c')"], cat, [], tags | {"qname"})
        # a single field without "type" metadata is a Text field by default
        return FieldSpec(name, "Optional[str]", "None", {}, ["'a'", "None"], cat, [], tags | {"default-type"})
    if cat == "model":
        cls = ch.pick(["Child", "NsChild", "TextChild", "Inner", "AnyChild"], f"{name}.class")
        arity = ch.pick(["optional", "list", "required"], f"{name}.arity")
        nillable = ch.flag(f"{name}.nillable")
        ns = ch.pick([None, "", NS_O], f"{name}.ns")
        wrapper = ch.flag(f"{name}.wrapper") if arity == "list" else False
        seq = ch.flag(f"{name}.sequence")
        meta = {"type": "'Element'"}
        tags = {"model", "m:" + cls}
        helpers = [cls]
        if nillable:
            meta["nillable"] = "True"
            tags.add("nillable")
        if ns is not None:
            meta["namespace"] = repr(ns)
        if seq:
            meta["sequence"] = "1"
            tags.add("sequence")
        if cls == "Child":
            helpers.append("Derived")
            vals = ["Child(v='a')", "Child()", "Child(v='', a=5)", "Derived(v='a', w='b')", "Derived()", "Derived2(v='a', z=7)"]
            tags.add("xsi")
        elif cls == "NsChild":
            vals = ["NsChild(v='a')", "NsChild()", "NsChild(q=QName('{urn:c}z'))", "NsChild(v='b', q=QName('{urn:q}y'))"]
            tags.add("qname")
        elif cls == "AnyChild":
            vals = ["AnyChild(any=[AnyElement(qname='x', text='t')])", "AnyChild()", "AnyChild(any=[AnyElement(qname='x', text='t'), AnyElement(qname='{urn:w}y', text='', attributes={'k': 'v'})], k='z')"]
            tags.add("generic-child")
        elif cls == "Inner":
            vals = ["Root.Inner(v='a')", "Root.Inner()", "Root.Inner(v='', n=5)", "Root.Inner(leaf=Root.Inner.Leaf(x='q', shade=Root.Inner.Leaf.Shade.DARK))"]
            tags.add("inner")
        else:
            vals = ["TextChild(value='a')", "TextChild()", "TextChild(value=' b ', lang='en')"]
        if nillable:
            # an object without content in a nillable field IS the nil value (docs: "doesn't have any
            # meaningful content"): such instances are not distinct values of the model
            vals = [v for v in vals if not v.endswith("()")]
            if len(vals) < 3:
                vals = vals + vals[-1:]
        if arity == "optional":
            return FieldSpec(name, f"Optional[{cls}]", "None", meta, vals[:1] + ["None"] + vals[1:], cat, helpers, tags | {"optional"})
        if arity == "required":
            return FieldSpec(name, cls, None, meta, vals, cat, helpers, tags)
        if wrapper:
            meta["wrapper"] = repr(f"wrap{i}")
            tags.add("wrapper")
        return FieldSpec(name, L % cls, lf, meta, _listvals([vals[0], vals[1 if nillable else 2], vals[-1]], frozen), cat, helpers, tags | {"list"})
    if cat == "union":
        variant = ch.pick(["int-str", "models", "list-int-str", "float-bool", "model-str", "models-nested", "models-same-names"], f"{name}.variant")
        meta = {"type": "'Element'"}
        tags = {"union"}
        if variant == "int-str":
            # a str that spells an int is not representable in a Union[int, str] element
            return FieldSpec(name, "Optional[Union[int, str]]", "None", meta, ["1", "None", "'a'", "-5", "'1a'"], cat, [], tags)
        if variant == "list-int-str":
            return FieldSpec(name, L % "Union[int, str]", lf, meta, _listvals(["1", "'a'", "'b c'"], frozen), cat, [], tags | {"list"})
        if variant == "float-bool":
            return FieldSpec(name, "Optional[Union[bool, float]]", "None", meta, ["True", "None", "1.5", "False", "0.5"], cat, [], tags)
        if variant == "models":
            return FieldSpec(name, "Optional[Union[Child, Other]]", "None", meta, ["Child(v='a')", "None", "Other(x=1)", "Child(a=2)"], cat, ["Child", "Other"], tags | {"model", "clazz-union"})
        if variant == "models-same-names":
            # two models with the same child name and different primitive types: only the values tell them apart
            return FieldSpec(name, "Optional[Union[CodeInt, CodeStr]]", "None", meta, ["CodeInt(code=7)", "None", "CodeStr(code='seven')", "CodeStr(code='x y')"], cat,
                             ["CodeInt", "CodeStr"], tags | {"model", "clazz-union"})
        if variant == "models-nested":
            return FieldSpec(name, "Optional[Union[Wrap, Other]]", "None", meta, ["Wrap(c=Child(v='a', a=3))", "None", "Other(x=1)", "Wrap(c=Child(a=4), t='z')"], cat,
                             ["Child", "Wrap", "Other"], tags | {"model", "clazz-union"})
        return FieldSpec(name, "Optional[Union[Other, str]]", "None", meta, ["'a'", "None", "Other(x=1)"], cat, ["Other"], tags | {"model", "clazz-union"})
    if cat == "anytype":
        arity = ch.pick(["optional", "list"], f"{name}.arity")
        nillable = ch.flag(f"{name}.nillable")
        meta = {"type": "'Element'"}
        tags = {"anytype"}
        if nillable:
            meta["nillable"] = "True"
            tags.add("nillable")
        vals = ["'a'", "1", "True", "1.5", "Decimal('1.50')", "XmlDate(2020, 1, 2)", "QName('{urn:q}b')", "2**63", "XmlPeriod('--02')", "XmlDuration('P1D')",
                "0", "False", "0.0", "Decimal('0')"]
        if arity == "optional":
            return FieldSpec(name, "Optional[object]", "None", meta, vals[:1] + ["None"] + vals[1:], cat, [], tags | {"optional"})
        return FieldSpec(name, L % "object", lf, meta, _listvals(vals, frozen) + [f"[{vals[4]}, {vals[5]}, {vals[6]}]" if not frozen else f"({vals[4]}, {vals[5]}, {vals[6]})"], cat, [], tags | {"list"})
    if cat == "elements":
        variant = ch.pick(["prims-list", "models-list", "prims-single", "tokens-choice", "nillable-choice", "ns-choice", "wild-choice", "base-and-derived"], f"{name}.variant")
        tags = {"elements"}
        helpers: list[str] = []
        if variant in ("prims-list", "prims-single"):
            choices = "({'name': 's', 'type': str}, {'name': 'i', 'type': int}, {'name': 'b', 'type': bool})"
            ann = "Union[str, int, bool]"
            items = ["1", "True", "'a'", "'b'", "-1"]
        elif variant == "models-list":
            choices = "({'name': 'c', 'type': Child}, {'name': 'o', 'type': Other}, {'name': 'n', 'type': int})"
            ann = "Union[Child, Other, int]"
            items = ["Child(v='a')", "Other(x=1)", "1", "Derived(w='d')", "Child()"]
            helpers = ["Child", "Derived", "Other"]
            tags |= {"model", "xsi"}
        elif variant == "base-and-derived":
            # a choice for the base class listed before the choice for its subclass: an instance belongs to the choice of its own class
            choices = "({'name': 'c', 'type': Child}, {'name': 'd', 'type': Derived, 'namespace': 'urn:o'}, {'name': 'n', 'type': int})"
            ann = "Union[Child, Derived, int]"
            items = ["Derived(v='a', w='b')", "Child(v='a')", "1", "Derived()", "Child(a=5)"]
            helpers = ["Child", "Derived"]
            tags |= {"model", "xsi"}
        elif variant == "tokens-choice":
            choices = "({'name': 'ts', 'type': List[int], 'tokens': True}, {'name': 's', 'type': str})"
            ann = "Union[List[int], str]"
            # ('12' is a string that reads like a token list of the other choice)
            items = ["[1, 2]", "'a'", "[3]", "'12'", "[-1, 0, 1]"]
            tags.add("tokens")
        elif variant == "nillable-choice":
            choices = "({'name': 'ni', 'type': Optional[int], 'nillable': True}, {'name': 's', 'type': str})"
            ann = "Union[None, int, str]"
            items = ["1", "'a'", "None", "2", "'b'"]
            tags.add("nillable")
        elif variant == "ns-choice":
            choices = "({'name': 's', 'type': str, 'namespace': 'urn:o'}, {'name': 'i', 'type': int, 'namespace': ''}, {'name': 'd', 'type': XmlDate})"
            ann = "Union[str, int, XmlDate]"
            items = ["'a'", "1", "XmlDate(2020, 1, 2)", "'b'", "0"]
        else:
            choices = "({'name': 'i', 'type': int}, {'wildcard': True, 'type': object, 'namespace': '##other'})"
            ann = "Union[int, object]"
            items = ["1", "AnyElement(qname='{urn:w}x', text='t')", "2", "AnyElement(qname='{urn:w}y', text='', attributes={'k': 'v'})", "3"]
            tags.add("wildcard")
        meta = {"type": "'Elements'", "choices": choices}
        if variant == "prims-single":
            return FieldSpec(name, f"Optional[{ann}]", "None", meta, [items[0], "None", items[1], items[2]], cat, helpers, tags | {"optional"})
        seq = ch.flag(f"{name}.sequence")
        if seq:
            meta["sequence"] = "1"
            tags.add("sequence")
        return FieldSpec(name, L % ann, lf, meta, _listvals([items[0], items[1], items[2]], frozen) + ([f"[{', '.join(items)}]"] if not frozen else [f"({', '.join(items)})"]), cat, helpers, tags | {"list"})
    if cat == "wildcard":
        variant = ch.pick(["single", "list", "mixed"], f"{name}.variant")
        ns = ch.pick([None, "##any", "##other", "##local", "##targetNamespace", "urn:w"], f"{name}.ns")
        meta = {"type": "'Wildcard'"}
        tags = {"wildcard", "w:" + variant, "wns:" + str(ns)}
        if ns is not None:
            meta["namespace"] = repr(ns)
        # element alphabet by expanded-name class
        E = {
            "local": ["AnyElement(qname='x', text='t')", "AnyElement(qname='y', text='', attributes={'k': 'v'})",
                      "AnyElement(qname='z', text='', children=[AnyElement(qname='zz', text='u')])"],
            "w": ["AnyElement(qname='{urn:w}x', text='t')", "AnyElement(qname='{urn:w}y', text='', attributes={'{urn:w}k': 'v'})",
                  "AnyElement(qname='{urn:w}z', text='', children=[AnyElement(qname='{urn:v}zz', text='u', attributes={'a': '1'})])"],
            "m": ["AnyElement(qname='{urn:m}x', text='t')", "AnyElement(qname='{urn:m}y', text='', children=[AnyElement(qname='q', text='')])"],
        }
        return FieldSpec(name, {"single": "Optional[object]", "list": L % "object", "mixed": L % "object"}[variant],
                         "None" if variant == "single" else lf, {**meta, **({"mixed": "True"} if variant == "mixed" else {})},
                         ["<wild>"], cat, ["Other"], tags | {"wild-alphabet"})
    if cat == "attributes":
        ns = ch.pick([None, "##any", "##other", "##local"], f"{name}.ns")
        meta = {"type": "'Attributes'"}
        if ns is not None:
            meta["namespace"] = repr(ns)
        # keys limited to what the documented namespace constraint admits (an unconstrained map
        # admits unqualified names only)
        if ns == "##any":
            vals = ["{'k': 'v'}", "{}", "{'{urn:w}k': 'v', 'j': ''}", "{'k': ' a b '}"]
        elif ns == "##other":
            vals = ["{'{urn:w}k': 'v'}", "{}", "{'{urn:w}k': '', '{urn:v}j': 'x y'}"]
        else:
            vals = ["{'k': 'v'}", "{}", "{'k': '', 'j': 'a&\"b'}", "{'k': ' a b '}"]
        return FieldSpec(name, "Dict[str, str]", "factory:dict", meta, vals, cat, [], {"attributes", "ans:" + str(ns)})
    if cat == "special":
        # constructs that matter to the code serializer: fields excluded from __init__ and default factories
        # that return something non-empty
        variant = ch.pick(["list-default-factory", "init-false-attr", "init-false-postinit", "dict-default-factory", "ignore-value", "ignore-required", "ignore-mapping", "required-none"], f"{name}.variant")
        if variant == "required-none":
            # no default at all, and the value is None: not the same thing as a field that defaults to None
            return FieldSpec(name, "Optional[int]", None, {"type": "'Element'"}, ["None", "5", "0"], cat, [], {"special", "required"})
        if variant == "ignore-value":
            # fields the binding layer ignores are still part of the instance
            return FieldSpec(name, "Optional[int]", "None", {"type": "'Ignore'"}, ["5", "None", "0"], cat, [], {"special", "ignore"})
        if variant == "ignore-required":
            return FieldSpec(name, "str", None, {"type": "'Ignore'"}, ["'kept'", "''"], cat, [], {"special", "ignore", "required"})
        if variant == "ignore-mapping":
            # a mapping whose keys are not strings (key types need imports of their own)
            return FieldSpec(name, "Dict[object, object]", "factory:dict", {"type": "'Ignore'"},
                             ["{QName('{urn:q}k'): 1}", "{}", "{Decimal('1.5'): 'x', Color.RED: XmlDate(2020, 1, 2)}", "{XmlTime(12, 0, 0): [QName('a')]}"], cat, ["Color"], {"special", "ignore"})
        if variant == "list-default-factory":
            return FieldSpec(name, "List[str]", "factory:lambda: ['d1', 'd2']", {"type": "'Element'"}, ["['a']", "[]", "['d1', 'd2']", "['d1']"], cat, [], {"special", "list"})
        if variant == "dict-default-factory":
            return FieldSpec(name, "Dict[str, str]", "factory:lambda: {'k': 'v'}", {"type": "'Attributes'"}, ["{'a': 'b'}", "{}", "{'k': 'v'}"], cat, [], {"special"})
        if variant == "init-false-attr":
            return FieldSpec(name, "str", "'fixed'", {"type": "'Attribute'"}, ["<skip>"], cat, [], {"special", "init-false"})
        return FieldSpec(name, "Optional[int]", "None", {"type": "'Element'"}, ["<skip>"], cat, [], {"special", "init-false", "postinit"})
    raise HarnessError(cat)


CATS_ALL = ["element", "attribute", "text", "model", "union", "anytype", "elements", "wildcard", "attributes"]


def gen_model(ch: Chooser, max_fields: int, cats: list[str] | None = None, scalar_keys: list[str] | None = None,
              class_opts: bool = True, twin: bool = False) -> ModelSpec:
    cats = cats or CATS_ALL
    scalar_keys = scalar_keys or SCALAR_KEYS
    n = 1 + ch.choose(max_fields, "nfields")
    frozen = ch.flag("frozen") if class_opts else False
    fields = [gen_field(ch, i, frozen, cats, scalar_keys) for i in range(n)]
    if twin:
        # the same field once more under another name: two fields that are both non-default in the same ways (two lists of one
        # sequence group, two nillable unions, ...) without paying for every answer twice
        import copy
        if n != 1:
            raise Prune("twins are made of single-field models")
        t = copy.deepcopy(fields[0])
        t.name = "f1"
        for key in ("name", "wrapper"):
            if key in t.meta:
                t.meta[key] = repr(eval(t.meta[key]) + "2")  # noqa: S307 - our own literal
        fields.append(t)
    spec = ModelSpec(fields, frozen=frozen)
    if class_opts:
        spec.meta_ns = ch.pick([None, NS_M, ""], "meta_ns")
        spec.meta_name = ch.pick([None, "r-t"], "meta_name")
        spec.module_ns = ch.pick([None, "urn:mod"], "module_ns")
        spec.meta_nillable = ch.flag("meta_nillable")
        spec.base_split = ch.choose(2, "base") if n >= 1 else 0
        if spec.base_split:
            spec.base_ns = ch.pick([None, NS_O], "base_ns")
        spec.elem_gen = ch.pick([None, "camel_case", "kebab_case"], "elem_gen")
        spec.attr_gen = ch.pick([None, "screaming_snake_case"], "attr_gen")
    validate(spec)
    return spec


def validate(spec: ModelSpec) -> None:
    """By-construction exclusions of models that the documentation does not support (each with
    its reason).  Anything that passes must build; a build error is then a violation."""
    cats = [f.cat for f in spec.fields]
    if any("postinit" in f.tags for f in spec.fields) and (spec.frozen or spec.base_split):
        raise Prune("__post_init__ assignment needs a mutable, unsplit class")
    if spec.base_split and any("inner" in f.tags for f in spec.fields):
        raise Prune("inner classes are declared in the class that uses them (no base split)")
    if cats.count("text") > 1:
        raise Prune("more than one Text field (documented XmlContextError)")
    if cats.count("wildcard") > 1:
        raise Prune("two wildcards: the first absorbs everything (ambiguous model)")
    if cats.count("attributes") > 1:
        raise Prune("two attribute maps: ambiguous model")
    for f in spec.fields:
        if "default-type" in f.tags and len(spec.fields) != 1:
            raise Prune("implicit typing needs exactly one undefined field")
    if "text" in cats and any(c not in ("text", "attribute", "attributes") for c in cats):
        raise Prune("character data next to child elements is mixed content, which the documented model expresses "
                    "with a mixed Wildcard, not with a Text field")
    mixed = any("w:mixed" in f.tags for f in spec.fields)
    if mixed and len(spec.fields) > 1 and any(f.cat not in ("attribute", "attributes", "wildcard") for f in spec.fields):
        raise Prune("mixed wildcard absorbs all child content; sibling element fields are not addressable")
    # same element qname in two fields / attribute collisions are ambiguous models
    same = [f for f in spec.fields if "samename" in f.tags]
    if same:
        if any("list" in f.tags or "tokens" in f.tags or "wrapper" in f.tags for f in same):
            raise Prune("repeated element name is modelled with single-occurrence fields (a list field absorbs every occurrence)")
        if len({repr(f.meta.get("namespace")) for f in same}) > 1:
            pass
    elems = [f for f in spec.fields if f.cat == "elements"]
    if len(elems) > 1:
        raise Prune("two compound fields with the same choice names")
    if elems and any(f.cat in ("wildcard",) for f in spec.fields) and "wildcard" in elems[0].tags:
        raise Prune("wildcard choice next to a wildcard field")
    seqs = [f for f in spec.fields if "sequence" in f.tags]
    if len(seqs) == 1 and len(spec.fields) > 1:
        pass  # a sequence group of one is allowed
    rn = [f for f in spec.fields if f.meta.get("name") and f.cat == "attribute"]
    _ = rn


# ---------------------------------------------------------------------------------------
# materialisation

_MOD_CACHE: "OrderedDict[str, types.ModuleType]" = OrderedDict()
_MOD_CACHE_MAX = 64


class Model:
    def __init__(self, spec: ModelSpec):
        self.spec = spec
        self.source = spec.source()
        key = h(self.source)
        self.modname = f"vmc_m_{key}"
        mod = _MOD_CACHE.get(self.modname)
        if mod is None:
            mod = types.ModuleType(self.modname)
            mod.__dict__["__name__"] = self.modname
            sys.modules[self.modname] = mod
            try:
                exec(compile(self.source, f"<{self.modname}>", "exec"), mod.__dict__)
            except Exception as e:
                sys.modules.pop(self.modname, None)
                raise HarnessError(f"generated model does not compile: {e!r}\n{self.source}")
            _MOD_CACHE[self.modname] = mod
            while len(_MOD_CACHE) > _MOD_CACHE_MAX:
                old, _m = _MOD_CACHE.popitem(last=False)
                sys.modules.pop(old, None)
        else:
            _MOD_CACHE.move_to_end(self.modname)
            sys.modules[self.modname] = mod
        self.module = mod
        self.root = mod.Root

    def release(self):
        sys.modules.pop(self.modname, None)

    def ev(self, expr: str) -> Any:
        return eval(expr, self.module.__dict__)

    def instance(self, exprs: list[str]):
        kw = {f.name: self.ev(e) for f, e in zip(self.spec.fields, exprs) if e != "<skip>"}
        return self.root(**kw)

    def instance_source(self, exprs: list[str]) -> str:
        return "Root(" + ", ".join(f"{f.name}={e}" for f, e in zip(self.spec.fields, exprs) if e != "<skip>") + ")"


def wild_values(spec: ModelSpec, f: FieldSpec) -> list[str]:
    """Value alphabet of a wildcard field: only elements whose expanded name the documented
    namespace constraint admits (an unconstrained wildcard admits unqualified names only
    when the class has no namespace, else the class namespace -- it inherits like an element)."""
    ns = next(t[4:] for t in f.tags if t.startswith("wns:"))
    variant = next(t[2:] for t in f.tags if t.startswith("w:"))
    parent = spec.meta_ns or None
    if spec.base_split and f in spec.fields[: spec.base_split] and spec.base_ns is not None:
        parent = spec.base_ns or None

    def admits(uri):
        if ns == "None":
            return uri == parent
        if ns == "##any":
            return True
        if ns == "##other":
            return uri != parent
        if ns == "##local":
            return uri is None
        if ns == "##targetNamespace":
            return uri == parent if parent else True
        return uri == ns

    pool = []
    for uri, lst in ((None, ["AnyElement(qname='x', text='t')", "AnyElement(qname='y', text='', attributes={'k': 'v'})",
                             "AnyElement(qname='z', text='', children=[AnyElement(qname='zz', text='u')])"]),
                     ("urn:w", ["AnyElement(qname='{urn:w}x', text='t')", "AnyElement(qname='{urn:w}y', text='', attributes={'{urn:w}k': 'v'})",
                                "AnyElement(qname='{urn:w}z', text='', children=[AnyElement(qname='{urn:v}zz', text='u', attributes={'a': '1'})])"]),
                     (NS_M, ["AnyElement(qname='{urn:m}x', text='t')", "AnyElement(qname='{urn:m}y', text='', children=[AnyElement(qname='q', text='')])"]),
                     (NS_O, ["AnyElement(qname='{urn:o}x', text='t')"])):
        if admits(uri):
            pool += lst
    if admits(parent) and not parent and variant in ("single", "list") and spec.module_ns is None:
        # (with a module __NAMESPACE__ the class's lookup name is {module ns}Other, which an unqualified element is not)
        # a child that the wildcard binds to a known model class (located by element name)
        pool.append("Other(x=1)")
    if not pool:
        raise Prune("wildcard admits nothing from the alphabet")
    frozen = spec.frozen
    if variant == "single":
        # several sibling elements under one single-valued wildcard are held by an anonymous generic element
        several = [f"AnyElement(children=[{pool[0]}, {pool[1]}])"] if len(pool) > 1 else []
        return [pool[0], "None"] + pool[1:3] + several + (["Other(x=1)"] if "Other(x=1)" in pool else [])
    if variant == "list":
        return _listvals(pool, frozen)
    # mixed: text interleaved with elements
    # canonical form of mixed content: leading text first, later text is the tail of the element before it
    a, b = pool[0], pool[1] if len(pool) > 1 else pool[0]
    at = a[:-1] + ", tail='u')"
    bt = b[:-1] + ", tail=' v ')"
    if frozen:
        return [f"({a},)", "()", f"('t', {a})", f"({at}, {bt})", "('only text',)", f"(' t ', {at}, {b})"]
    return [f"[{a}]", "[]", f"['t', {a}]", f"[{at}, {bt}]", "['only text']", f"[' t ', {at}, {b}]"]


def field_values(spec: ModelSpec, f: FieldSpec) -> list[str]:
    if "wild-alphabet" in f.tags:
        return wild_values(spec, f)
    return f.values


def enumerate_models(bound: int, max_fields: int, cats=None, scalar_keys=None, class_opts=True, twins: bool = False) -> list[list[int]]:
    """All model choice vectors with <= bound deviations (outer exploration)."""
    out: list[list[int]] = []

    def run(ch):
        try:
            gen_model(ch, max_fields, cats, scalar_keys, class_opts)
            return True
        except Prune:
            return False

    def on(ch, ok):
        if ok:
            out.append(ch.choices)

    explore(run, bound, on)
    # every single-field model once more as a pair of equal fields (vector + TWIN marker)
    tw = []
    for v in (out if twins else []):
        # (a pair of fields with one non-default answer each is an ordinary two-field model within the bound already)
        if max_fields >= 2 and v and v[0] == 0 and sum(1 for c in v if c) >= 2:
            try:
                gen_model(Chooser(v), max_fields, cats, scalar_keys, class_opts, twin=True)
            except Prune:
                continue
            tw.append(list(v) + [TWIN])
    return out + tw


TWIN = -1


def model_from_vector(vec: list[int], max_fields: int, cats=None, scalar_keys=None, class_opts=True) -> ModelSpec:
    twin = bool(vec) and vec[-1] == TWIN
    base = list(vec[:-1]) if twin else list(vec)
    ch = Chooser(base)
    spec = gen_model(ch, max_fields, cats, scalar_keys, class_opts, twin=twin)
    if ch.choices != base:
        raise HarnessError(f"model vector does not replay: {vec} -> {ch.choices}")
    return spec
