"""Independent XML infoset: two parsers that are not xsdata's writers (expat, strict libxml2)
turn text into a canonical tree  (qname, ((attr-qname, value), ...), [str | tree, ...]).

Also: an explicit-prefix document writer used by generators (never lxml.tostring) and helpers.
"""
from __future__ import annotations

import xml.parsers.expat as expat
from typing import Any

from lxml import etree

XSI = "http://www.w3.org/2001/XMLSchema-instance"
XS = "http://www.w3.org/2001/XMLSchema"
XMLNS = "http://www.w3.org/XML/1998/namespace"


class NotWellFormed(Exception):
    pass


def _q(name: str) -> str:
    # expat namespace-aware names are "uri local" (separator space)
    if " " in name:
        uri, local = name.split(" ", 1)
        return "{" + uri + "}" + local
    return name


def parse_expat(data: bytes | str, keep_ns_decls: bool = False):
    """-> canonical tree.  Raises NotWellFormed."""
    if isinstance(data, str):
        data = data.encode("utf-8")
        # an encoding declaration other than utf-8 in a str document is the caller's problem
    p = expat.ParserCreate(namespace_separator=" ")
    p.buffer_text = True
    p.ordered_attributes = True
    root: list = []
    stack: list = []
    nsdecl: list = []

    def start(name, attrs):
        a = {}
        for i in range(0, len(attrs), 2):
            k = _q(attrs[i])
            if k in a:
                raise NotWellFormed(f"duplicate expanded attribute {k}")
            a[k] = attrs[i + 1]
        node = [_q(name), a, []]
        if keep_ns_decls:
            node.append(list(nsdecl))
        nsdecl.clear()
        if stack:
            stack[-1][2].append(node)
        else:
            root.append(node)
        stack.append(node)

    def end(name):
        stack.pop()

    def chars(data):
        if stack:
            ch = stack[-1][2]
            if ch and isinstance(ch[-1], str):
                ch[-1] += data
            else:
                ch.append(data)

    def startns(prefix, uri):
        nsdecl.append((prefix, uri))

    p.StartElementHandler = start
    p.EndElementHandler = end
    p.CharacterDataHandler = chars
    p.StartNamespaceDeclHandler = startns
    try:
        p.Parse(data, True)
    except expat.ExpatError as e:
        raise NotWellFormed(f"expat: {e}")
    if not root:
        raise NotWellFormed("no root element")
    return _freeze(root[0])


def parse_scoped(data: bytes | str):
    """expat tree that keeps, per element, the namespace declarations made on it:
    node = [qname, {attr: value}, [str | node], [(prefix|None, uri)]] ; also checked by libxml2."""
    if isinstance(data, str):
        data = data.encode("utf-8")
    parse_lxml(data)  # second opinion on well-formedness
    p = expat.ParserCreate(namespace_separator=" ")
    p.buffer_text = True
    p.ordered_attributes = True
    root: list = []
    stack: list = []
    nsdecl: list = []

    def start(name, attrs):
        a = {}
        for i in range(0, len(attrs), 2):
            k = _q(attrs[i])
            if k in a:
                raise NotWellFormed(f"duplicate expanded attribute {k}")
            a[k] = attrs[i + 1]
        node = [_q(name), a, [], list(nsdecl)]
        nsdecl.clear()
        (stack[-1][2] if stack else root).append(node)
        stack.append(node)

    def chars(d):
        if stack:
            ch = stack[-1][2]
            if ch and isinstance(ch[-1], str):
                ch[-1] += d
            else:
                ch.append(d)

    p.StartElementHandler = start
    p.EndElementHandler = lambda name: stack.pop()
    p.CharacterDataHandler = chars
    p.StartNamespaceDeclHandler = lambda prefix, uri: nsdecl.append((prefix, uri))
    try:
        p.Parse(data, True)
    except expat.ExpatError as e:
        raise NotWellFormed(f"expat: {e}")
    if not root:
        raise NotWellFormed("no root element")
    return root[0]


def _freeze(node):
    q, a, ch = node[0], node[1], node[2]
    kids = []
    for c in ch:
        if isinstance(c, str):
            if c:
                kids.append(c)
        else:
            kids.append(_freeze(c))
    return (q, tuple(sorted(a.items())), tuple(kids))


_STRICT = None


def parse_lxml(data: bytes | str):
    global _STRICT
    if _STRICT is None:
        _STRICT = etree.XMLParser(recover=False, resolve_entities=False, remove_comments=True, remove_pis=True,
                                  strip_cdata=True, no_network=True, huge_tree=False)
    if isinstance(data, str):
        data = data.encode("utf-8")
    try:
        root = etree.fromstring(data, _STRICT)
    except etree.XMLSyntaxError as e:
        raise NotWellFormed(f"libxml2: {e}")
    return _from_lxml(root)


def _from_lxml(el):
    kids: list = []
    if el.text:
        kids.append(el.text)
    for c in el:
        if not isinstance(c.tag, str):
            # comment / PI: its tail is still text of the parent
            if c.tail:
                if kids and isinstance(kids[-1], str):
                    kids[-1] += c.tail
                else:
                    kids.append(c.tail)
            continue
        kids.append(_from_lxml(c))
        if c.tail:
            kids.append(c.tail)
    # merge adjacent strings
    merged: list = []
    for k in kids:
        if isinstance(k, str) and merged and isinstance(merged[-1], str):
            merged[-1] += k
        else:
            merged.append(k)
    return (el.tag, tuple(sorted((k, v) for k, v in el.attrib.items())), tuple(merged))


def canonical(data: bytes | str):
    """Both independent parsers must accept and agree; returns the tree."""
    a = parse_expat(data)
    b = parse_lxml(data)
    if a != b:
        raise NotWellFormed(f"independent parsers disagree: expat={a!r} libxml2={b!r}")
    return a


def strip_ws(tree, only_between_children: bool = True):
    """Drop whitespace-only text nodes next to child elements (indentation)."""
    q, a, kids = tree
    has_el = any(not isinstance(k, str) for k in kids)
    out = []
    for k in kids:
        if isinstance(k, str):
            if has_el and not k.strip():
                continue
            out.append(k)
        else:
            out.append(strip_ws(k))
    return (q, a, tuple(out))


def tree_str(tree, depth=0) -> str:
    q, a, kids = tree
    s = "  " * depth + q + (" " + " ".join(f"{k}={v!r}" for k, v in a) if a else "")
    for k in kids:
        s += "\n" + ("  " * (depth + 1) + repr(k) if isinstance(k, str) else tree_str(k, depth + 1))
    return s


# ---------------------------------------------------------------------------------------
# explicit-prefix writer for generated documents


def esc_text(s: str) -> str:
    return s.replace("&", "&amp;").replace("<", "&lt;").replace(">", "&gt;").replace("\r", "&#13;")


def esc_attr(s: str) -> str:
    return (s.replace("&", "&amp;").replace("<", "&lt;").replace('"', "&quot;").replace("\t", "&#9;")
            .replace("\n", "&#10;").replace("\r", "&#13;"))


class El:
    """A concrete document node: explicit prefixes, explicit xmlns declarations."""

    __slots__ = ("prefix", "local", "nsdecls", "attrs", "kids")

    def __init__(self, name: str, nsdecls: dict | None = None, attrs: list | None = None, kids: list | None = None):
        self.prefix, _, self.local = name.rpartition(":")
        self.nsdecls = dict(nsdecls or {})  # prefix ('' = default) -> uri
        self.attrs = list(attrs or [])     # [(prefixed-name, value)]
        self.kids = list(kids or [])       # str | El | ("raw", text)

    @property
    def name(self):
        return f"{self.prefix}:{self.local}" if self.prefix else self.local

    def write(self) -> str:
        out = ["<", self.name]
        for p, u in self.nsdecls.items():
            out.append(f' xmlns{":" + p if p else ""}="{esc_attr(u)}"')
        for k, v in self.attrs:
            out.append(f' {k}="{esc_attr(v)}"')
        if not self.kids:
            out.append("/>")
            return "".join(out)
        out.append(">")
        for k in self.kids:
            if isinstance(k, str):
                out.append(esc_text(k))
            elif isinstance(k, tuple):
                out.append(k[1])
            else:
                out.append(k.write())
        out.append(f"</{self.name}>")
        return "".join(out)

    def copy(self):
        return El(self.name, dict(self.nsdecls), list(self.attrs), [k.copy() if isinstance(k, El) else k for k in self.kids])

    def iter(self):
        yield self
        for k in self.kids:
            if isinstance(k, El):
                yield from k.iter()

    def expected(self, scope: dict | None = None):
        """The canonical tree this concrete document denotes (own namespace resolution)."""
        scope = dict(scope or {})
        scope.update(self.nsdecls)
        uri = scope.get(self.prefix or "", "")
        q = f"{{{uri}}}{self.local}" if uri else self.local
        attrs = []
        for k, v in self.attrs:
            p, _, l = k.rpartition(":")
            if p == "xml":
                attrs.append((f"{{{XMLNS}}}{l}", v))
            elif p:
                attrs.append((f"{{{scope[p]}}}{l}", v))
            else:
                attrs.append((l, v))
        kids: list = []
        for k in self.kids:
            if isinstance(k, El):
                kids.append(k.expected(scope))
            elif isinstance(k, str):
                if k:
                    if kids and isinstance(kids[-1], str):
                        kids[-1] += k
                    else:
                        kids.append(k)
            # raw markup (comments, PIs, CDATA...) is the caller's business
        return (q, tuple(sorted(attrs)), tuple(kids))


def from_text(data: str | bytes) -> El:
    """Parse a document into the concrete El form, keeping prefixes and xmlns declarations
    exactly as written (expat, non-namespace mode)."""
    if isinstance(data, str):
        data = data.encode("utf-8")
    p = expat.ParserCreate()
    p.buffer_text = True
    p.ordered_attributes = True
    root: list = []
    stack: list = []

    def start(name, attrs):
        ns = {}
        at = []
        for i in range(0, len(attrs), 2):
            k, v = attrs[i], attrs[i + 1]
            if k == "xmlns":
                ns[""] = v
            elif k.startswith("xmlns:"):
                ns[k[6:]] = v
            else:
                at.append((k, v))
        el = El(name, ns, at, [])
        if stack:
            stack[-1].kids.append(el)
        else:
            root.append(el)
        stack.append(el)

    def end(name):
        stack.pop()

    def chars(d):
        if stack:
            k = stack[-1].kids
            if k and isinstance(k[-1], str):
                k[-1] += d
            else:
                k.append(d)

    p.StartElementHandler = start
    p.EndElementHandler = end
    p.CharacterDataHandler = chars
    try:
        p.Parse(data, True)
    except expat.ExpatError as e:
        raise NotWellFormed(f"expat: {e}")
    return root[0]
