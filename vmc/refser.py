"""Reference serializer (DESIGN.md 2.6): an independent reading of the documented class / field
metadata (docs/models/classes.md, fields.md, types.md) straight from ``dataclasses.fields()`` and
``Meta``.  It never touches XmlMeta / XmlVar / XmlContext / EventGenerator.  It maps
(model class, instance) to the expected tree in the form used by props.c03.match:

    (qname, {attr-qname: text | ("QNAME", ns, local) | ("OPT", text)}, [text | QNAME-tuple | tree])

Defined for the constructs the G-model grammar produces; anything else raises Unsupported.
Left open on purpose (the docs leave them open): prefix choice, placement of xmlns.
"""
from __future__ import annotations

import base64
import dataclasses
import datetime
import math
import sys
import typing
from decimal import Decimal
from enum import Enum
from xml.etree.ElementTree import QName

XSI = "http://www.w3.org/2001/XMLSchema-instance"
XS = "http://www.w3.org/2001/XMLSchema"


class Unsupported(Exception):
    pass


def q(ns, local):
    return f"{{{ns}}}{local}" if ns else local


def split_ns(qname: str):
    return qname[1:].partition("}")[0] if qname and qname[0] == "{" else None


def qname_placeholder(v: QName):
    t = v.text
    if t[0] == "{":
        ns, _, local = t[1:].partition("}")
        return ("QNAME", ns, local)
    return ("QNAME", None, t)


def lexical(v, fmt=None):
    """Independent XSD lexical mapping of a python value."""
    from xsdata.models.datatype import XmlDate, XmlDateTime, XmlDuration, XmlPeriod, XmlTime  # value classes only
    if isinstance(v, Enum):
        return lexical(v.value, fmt)
    if isinstance(v, bool):
        return "true" if v else "false"
    if isinstance(v, int):
        return str(v)
    if isinstance(v, float):
        if math.isnan(v):
            return "NaN"
        if math.isinf(v):
            return "INF" if v > 0 else "-INF"
        r = repr(v)
        if "e" in r:
            m, e = r.split("e")
            return f"{m}E{int(e)}" if not e.lstrip("+-").startswith("0") or True else r
        return r
    if isinstance(v, Decimal):
        if v.is_infinite():
            return "INF" if v > 0 else "-INF"
        return format(v, "f")
    if isinstance(v, QName):
        return qname_placeholder(v)
    if isinstance(v, (XmlDate, XmlDateTime, XmlTime, XmlDuration, XmlPeriod)):
        return str(v)
    if isinstance(v, (datetime.datetime, datetime.date, datetime.time)):
        return v.strftime(fmt)
    if isinstance(v, bytes):
        if fmt == "base16":
            return v.hex().upper()
        if fmt == "base64":
            return base64.b64encode(v).decode()
        raise Unsupported("bytes without format")
    if isinstance(v, str):
        return v
    raise Unsupported(type(v).__name__)


def float_text_equal(a: str, b: str) -> bool:
    try:
        return float(a) == float(b) or (a == b)
    except ValueError:
        return a == b


XS_TYPE = {bool: "boolean", str: "string", Decimal: "decimal"}


def anytype_datatype(v):
    from xsdata.models.datatype import XmlDate, XmlDateTime, XmlDuration, XmlPeriod, XmlTime
    if isinstance(v, bool):
        return "boolean"
    if isinstance(v, int):
        if -32768 <= v <= 32767:
            return "short"
        if -2**31 <= v <= 2**31 - 1:
            return "int"
        if -2**63 <= v <= 2**63 - 1:
            return "long"
        return "integer"
    if isinstance(v, float):
        return ("float", "double")
    if isinstance(v, Decimal):
        return "decimal"
    if isinstance(v, QName):
        return "QName"
    if isinstance(v, XmlDate):
        return "date"
    if isinstance(v, XmlDateTime):
        return "dateTime"
    if isinstance(v, XmlTime):
        return "time"
    if isinstance(v, XmlDuration):
        return "duration"
    if isinstance(v, XmlPeriod):
        if v.year is not None:
            return "gYearMonth" if v.month else "gYear"
        if v.month:
            return "gMonthDay" if v.day else "gMonth"
        return "gDay"
    if isinstance(v, str):
        return None
    raise Unsupported(f"anyType value {type(v).__name__}")


def is_model(x) -> bool:
    return dataclasses.is_dataclass(x) and not isinstance(x, type)


def class_meta(cls):
    return cls.__dict__.get("Meta")


def class_name(cls, elem_gen):
    m = class_meta(cls)
    name = getattr(m, "name", None) if m else None
    gen = getattr(m, "element_name_generator", None) if m else None
    gen = gen or elem_gen
    return name or (gen(cls.__name__) if gen else cls.__name__)


def class_namespace(cls, parent_ns):
    m = class_meta(cls)
    if m is not None and hasattr(m, "namespace"):
        return m.namespace or None
    return parent_ns


def target_namespace(cls):
    m = class_meta(cls)
    ns = getattr(m, "target_namespace", None) if m else None
    if ns is not None:
        return ns or None
    mod = sys.modules.get(cls.__module__)
    ns = getattr(mod, "__NAMESPACE__", None)
    if ns is not None:
        return ns or None
    return (getattr(m, "namespace", None) if m else None) or None


def declared_in(cls, fname):
    for base in cls.__mro__:
        if fname in base.__dict__.get("__annotations__", {}):
            return base
    return cls


class Ref:
    def __init__(self, ignore_default_attributes: bool = False):
        self.ida = ignore_default_attributes

    # ------------------------------------------------------------------ classes
    def render(self, obj):
        cls = type(obj)
        from xsdata.formats.dataclass.models.generics import DerivedElement
        if isinstance(obj, DerivedElement):
            raise Unsupported("root DerivedElement")
        ns = class_namespace(cls, None)
        return self.element_for_model(obj, q(ns, class_name(cls, None)), parent_ns=None, extra_attrs={}, field_nillable=False)

    def element_for_model(self, obj, qname, parent_ns, extra_attrs, field_nillable):
        cls = type(obj)
        m = class_meta(cls)
        elem_gen = getattr(m, "element_name_generator", None) if m else None
        attr_gen = getattr(m, "attribute_name_generator", None) if m else None
        cns = class_namespace(cls, parent_ns)          # default namespace of this class's own fields
        attrs = dict(extra_attrs)
        kids: list = []
        hints = typing.get_type_hints(cls)
        flds = [f for f in dataclasses.fields(cls) if f.metadata.get("type") != "Ignore"]
        untyped = [f for f in flds if "type" not in f.metadata]
        has_text = any(f.metadata.get("type") == "Text" for f in flds)
        default_type = "Text" if len(untyped) == 1 and not has_text else "Element"
        # sequence groups: contiguous run from the first to the last field with that number
        i = 0
        order: list = []
        content = [f for f in flds if f.metadata.get("type", default_type) not in ("Attribute", "Attributes")]
        while i < len(content):
            f = content[i]
            seq = f.metadata.get("sequence")
            if seq is None:
                order.append(("one", f))
                i += 1
                continue
            j = max(k for k in range(i, len(content)) if content[k].metadata.get("sequence") == seq)
            order.append(("group", content[i:j + 1]))
            i = j + 1
        # a field declared in a base class that has its own Meta.namespace belongs to that namespace
        self._fns = getattr(self, "_fns", {})
        fns = {}
        for f in flds:
            decl = declared_in(cls, f.name)
            d = cns
            if decl is not cls and class_meta(decl) is not None and hasattr(class_meta(decl), "namespace"):
                d = class_meta(decl).namespace or None
            fns[f.name] = d
        for f in flds:
            xt = f.metadata.get("type", default_type)
            value = getattr(obj, f.name)
            if xt == "Attribute":
                self.attribute(attrs, f, value, attr_gen)
            elif xt == "Attributes":
                for k, v in (value or {}).items():
                    attrs[k] = v
        saved = getattr(self, "cur_class_ns", None)
        self.cur_class_ns = split_ns(qname)   # nested classes inherit the namespace of the enclosing element's tag
        try:
            self._emit(order, kids, cls, obj, fns, elem_gen, default_type, hints, cns)
        finally:
            self.cur_class_ns = saved
        nillable = field_nillable or bool(getattr(m, "nillable", False) if m else False)
        if nillable and not kids:
            attrs[q(XSI, "nil")] = "true"
        return (qname, attrs, kids)

    def _emit(self, order, kids, cls, obj, fns, elem_gen, default_type, hints, cns):
        for kind, item in order:
            if kind == "one":
                f = item
                self.content_field(kids, cls, f, getattr(obj, f.name), fns[f.name], elem_gen, default_type, hints, class_ns=cns)
            else:
                group = item
                vals = [getattr(obj, f.name) for f in group]
                j = 0
                rolling = True
                while rolling:
                    rolling = False
                    for f, v in zip(group, vals):
                        # a tokens field holds ONE list value (one element with space-separated items) unless it is a list of lists
                        one_token_list = bool(f.metadata.get("tokens")) and not (v and isinstance(v[0], (list, tuple)) and not hasattr(v[0], "_fields"))
                        if isinstance(v, (list, tuple)) and not hasattr(v, "_fields") and not one_token_list:
                            if j < len(v):
                                rolling = True
                                self.content_field(kids, cls, f, v[j], fns[f.name], elem_gen, default_type, hints, single_of_list=True, class_ns=cns)
                        elif j == 0:
                            rolling = True
                            self.content_field(kids, cls, f, v, fns[f.name], elem_gen, default_type, hints, class_ns=cns)
                    j += 1

    # ------------------------------------------------------------------ attributes
    def attribute(self, attrs, f, value, attr_gen):
        if value is None or (isinstance(value, (list, tuple)) and not hasattr(value, "_fields") and not value):
            return
        name = f.metadata.get("name") or (attr_gen(f.name) if attr_gen else f.name)
        ns = f.metadata.get("namespace") or None
        if self.ida:
            # docs: "ignore optional attributes with default values": an attribute that is not marked
            # required and still holds its declared default is left out
            d = self._default(f)
            if d is not None and not f.metadata.get("required", False) and self._same_default(d, value):
                return
        fmt = f.metadata.get("format")
        if isinstance(value, (list, tuple)) and not hasattr(value, "_fields"):
            attrs[q(ns, name)] = self.tokens(value, fmt)
        else:
            attrs[q(ns, name)] = lexical(value, fmt)

    def _default(self, f):
        if f.default is not dataclasses.MISSING:
            return f.default
        if f.default_factory is not dataclasses.MISSING:
            return f.default_factory()
        return None

    def _same_default(self, d, value):
        try:
            return d == value and type(d) is type(value)
        except Exception:
            return False

    def tokens(self, values, fmt):
        parts = [lexical(v, fmt) for v in values]
        if any(isinstance(p, tuple) for p in parts):
            return ("QTOKENS", parts)
        return " ".join(parts)

    # ------------------------------------------------------------------ element content
    def content_field(self, kids, cls, f, value, cns, elem_gen, default_type, hints, single_of_list=False, class_ns=None):
        """cns: default namespace of this field (declaring class); class_ns: namespace of the enclosing
        element's class, which nested model classes without Meta.namespace inherit."""
        md = f.metadata
        xt = md.get("type", default_type)
        nillable = md.get("nillable", False)
        if xt == "Text":
            if value is None:
                return
            if isinstance(value, (list, tuple)) and not hasattr(value, "_fields"):
                t = self.tokens(value, md.get("format")) if value else None
            else:
                t = lexical(value, md.get("format"))
            if t not in (None, ""):
                kids.append(t)
            return
        if xt == "Wildcard":
            self.wildcard(kids, value, cns, md)
            return
        name = md.get("name") or (elem_gen(f.name) if elem_gen else f.name)
        ns = md.get("namespace")
        ns = (ns or None) if ns is not None else cns
        if xt == "Elements":
            self.compound(kids, md, value, cns, single_of_list)
            return
        if xt != "Element":
            raise Unsupported(xt)
        if value is None and not nillable:
            return
        wrapper = md.get("wrapper")
        target = kids
        if wrapper:
            wkids: list = []
            kids.append((q(ns, wrapper), {}, wkids))
            target = wkids
        tokens = md.get("tokens", False)
        hint = str(hints.get(f.name))
        is_list_field = ("List[" in hint or "Tuple[" in hint or "list[" in hint or "tuple[" in hint)
        if tokens:
            if value is None:
                target.append((q(ns, name), {q(XSI, "nil"): "true"}, []))
                return
            if not value and not nillable:
                return
            if value and isinstance(value[0], (list, tuple)) and not hasattr(value[0], "_fields"):
                for v in value:
                    target.append(self.primitive_element(q(ns, name), v, md, nillable, tokens=True))
            else:
                target.append(self.primitive_element(q(ns, name), value, md, nillable, tokens=True))
            return
        if is_list_field and not single_of_list and isinstance(value, (list, tuple)) and not hasattr(value, "_fields"):
            for v in value:
                self.one_element(target, q(ns, name), v, md, cns, hint, nillable, type_args(hints.get(f.name)))
            return
        self.one_element(target, q(ns, name), value, md, cns, hint, nillable, type_args(hints.get(f.name)))

    def one_element(self, target, qname, v, md, cns, hint, nillable, decl_types):
        from xsdata.formats.dataclass.models.generics import AnyElement, DerivedElement
        if isinstance(v, (AnyElement, DerivedElement)):
            raise Unsupported("generic value in element field")
        if is_model(v):
            extra = {}
            if type(v) not in decl_types:
                tq = q(target_namespace(type(v)), class_name(type(v), None))
                if tq != qname:
                    extra[q(XSI, "type")] = ("QNAME", target_namespace(type(v)), class_name(type(v), None))
            target.append(self.element_for_model(v, qname, parent_ns=self.cur_class_ns, extra_attrs=extra, field_nillable=nillable))
            return
        anytype = "object" in hint
        target.append(self.primitive_element(qname, v, md, nillable, anytype=anytype))

    def primitive_element(self, qname, v, md, nillable, tokens=False, anytype=False):
        attrs = {}
        fmt = md.get("format")
        if v is None:
            return (qname, {q(XSI, "nil"): "true"}, [])
        if tokens:
            t = self.tokens(v, fmt) if v else None
        else:
            t = lexical(v, fmt)
        if nillable and not v and v is not None:
            # falsy non-None value in a nillable field: the docs do not say whether xsi:nil accompanies
            # the empty element; accept both (C01 has the corresponding known finding)
            attrs[q(XSI, "nil")] = ("OPT", "true")
        if anytype and v != "":
            dt = anytype_datatype(v)
            if dt is not None:
                attrs[q(XSI, "type")] = ("QNAME-ANYOF", XS, dt if isinstance(dt, tuple) else (dt,))
        kids = [] if t in (None, "") else [t]
        return (qname, attrs, kids)

    # ------------------------------------------------------------------ compound / wildcard
    def compound(self, kids, md, value, cns, single_of_list):
        choices = md.get("choices", ())
        items = value if (isinstance(value, (list, tuple)) and not hasattr(value, "_fields") and not single_of_list) else [value]
        if value is None and not single_of_list:
            return
        for v in items:
            ch = self.find_choice(choices, v)
            if ch is None:
                raise Unsupported(f"no choice for {type(v).__name__}")
            from xsdata.formats.dataclass.models.generics import AnyElement
            if ch.get("wildcard"):
                self.wildcard(kids, v, cns, ch)
                continue
            name = ch.get("name")
            ns = ch.get("namespace")
            ns = (ns or None) if ns is not None else cns
            if is_model(v):
                extra = {}
                decl = ch["type"]
                if type(v) is not decl:
                    tq = q(target_namespace(type(v)), class_name(type(v), None))
                    if tq != q(ns, name):
                        extra[q(XSI, "type")] = ("QNAME", target_namespace(type(v)), class_name(type(v), None))
                kids.append(self.element_for_model(v, q(ns, name), parent_ns=self.cur_class_ns, extra_attrs=extra, field_nillable=ch.get("nillable", False)))
            else:
                kids.append(self.primitive_element(q(ns, name), v, ch, ch.get("nillable", False), tokens=bool(ch.get("tokens"))))

    def find_choice(self, choices, v):
        if v is None or (isinstance(v, (list, tuple)) and not v):
            for c in choices:
                if c.get("nillable") and bool(c.get("tokens")) == isinstance(v, (list, tuple)):
                    return c
            return None
        from xsdata.formats.dataclass.models.generics import AnyElement
        if isinstance(v, AnyElement):
            for c in choices:
                if c.get("wildcard"):
                    return c
            return None
        exact = None
        derived = None
        for c in choices:
            if c.get("wildcard"):
                continue
            types_ = type_args(c["type"])
            is_tok = bool(c.get("tokens"))
            if is_tok != (isinstance(v, (list, tuple)) and not hasattr(v, "_fields")):
                continue
            probe = type(v[0]) if is_tok else type(v)
            if probe in types_:
                return c
            if derived is None and any(isinstance(t, type) and dataclasses.is_dataclass(t) and issubclass(probe, t) for t in types_):
                derived = c
        return exact or derived

    def wildcard(self, kids, value, cns, md):
        from xsdata.formats.dataclass.models.generics import AnyElement, DerivedElement
        if value is None:
            return
        items = value if isinstance(value, (list, tuple)) and not hasattr(value, "_fields") else [value]
        for v in items:
            if isinstance(v, str):
                if v:
                    kids.append(v)
            elif isinstance(v, AnyElement):
                self.any_element(kids, v, cns)
            elif isinstance(v, DerivedElement):
                raise Unsupported("DerivedElement in wildcard")
            elif is_model(v):
                ns = class_namespace(type(v), self.cur_class_ns)
                kids.append(self.element_for_model(v, q(ns, class_name(type(v), None)), parent_ns=self.cur_class_ns, extra_attrs={}, field_nillable=False))
            else:
                raise Unsupported(f"wildcard value {type(v).__name__}")

    def any_element(self, kids, v, cns):
        attrs = dict(v.attributes)
        sub: list = []
        if v.text:
            sub.append(v.text)
        for c in v.children:
            self.wildcard(sub, c, cns, {})
        if v.qname:
            kids.append((v.qname, attrs, sub))
        else:
            kids.extend(sub)
        if v.tail:
            kids.append(v.tail)


def type_args(tp):
    args = typing.get_args(tp)
    if not args:
        return (tp,)
    out = []
    for a in args:
        out.extend(type_args(a))
    return tuple(out)


def expected_tree(obj, ignore_default_attributes=False):
    return Ref(ignore_default_attributes).render(obj)
