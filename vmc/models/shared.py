"""Fixed binding models used by the C14 (history) and C19 (schedule) harnesses.  They are chosen
to collide on the context's shared state: a child class without Meta.namespace used under two
parents in different namespaces, xsi:type lookups, wildcard namespace memos, root lookup without
a target class."""
from dataclasses import dataclass, field
from typing import Dict, List, Optional

__NAMESPACE__ = "urn:t"


@dataclass
class Item:
    class Meta:
        name = "item"
        namespace = "urn:t"

    v: Optional[str] = field(default=None, metadata={"type": "Element"})
    n: Optional[int] = field(default=None, metadata={"type": "Attribute"})


@dataclass
class Special(Item):
    class Meta:
        name = "special"
        namespace = "urn:t"

    extra: Optional[str] = field(default=None, metadata={"type": "Element"})


@dataclass
class Doc:
    class Meta:
        name = "doc"
        namespace = "urn:t"

    item: Optional[Item] = field(default=None, metadata={"type": "Element"})
    other: List[object] = field(default_factory=list, metadata={"type": "Wildcard", "namespace": "##other"})


@dataclass
class Plain:
    """No Meta.namespace: inherits the namespace of whoever uses it."""

    class Meta:
        global_type = False

    p: Optional[str] = field(default=None, metadata={"type": "Element"})


@dataclass
class ParentA:
    class Meta:
        name = "parentA"
        namespace = "urn:a"

    c: Optional[Plain] = field(default=None, metadata={"type": "Element"})


@dataclass
class ParentB:
    class Meta:
        name = "parentB"
        namespace = "urn:b"

    c: Optional[Plain] = field(default=None, metadata={"type": "Element"})
    attrs: Dict[str, str] = field(default_factory=dict, metadata={"type": "Attributes", "namespace": "##other"})


@dataclass
class UA:
    class Meta:
        global_type = False

    x: Optional[int] = field(default=None, metadata={"type": "Element"})


@dataclass
class UB:
    class Meta:
        global_type = False

    y: Optional[int] = field(default=None, metadata={"type": "Element"})


from typing import Union  # noqa: E402


@dataclass
class UnionDoc:
    class Meta:
        name = "udoc"
        namespace = "urn:t"

    u: Optional[Union[UA, UB]] = field(default=None, metadata={"type": "Element"})
    count: Optional[int] = field(default=None, metadata={"type": "Attribute"})


class Ratio(float):
    """A float subclass without a registered converter of its own."""


@dataclass
class AnyBox:
    class Meta:
        name = "anybox"
        namespace = "urn:t"

    value: Optional[object] = field(default=None, metadata={"type": "Element"})


@dataclass
class RatioBox:
    """Field typed with the float subclass: documented as unsupported on a pristine converter."""

    class Meta:
        name = "ratiobox"
        global_type = False

    r: Optional[Ratio] = field(default=None, metadata={"type": "Element"})


# --- two unrelated hierarchies whose derived types share one xsi:type name -------------------------------------

@dataclass
class BaseX:
    class Meta:
        global_type = False

    v: Optional[str] = field(default=None, metadata={"type": "Element"})


@dataclass
class SpecialX(BaseX):
    class Meta:
        name = "special2"
        namespace = "urn:t"

    x: Optional[int] = field(default=None, metadata={"type": "Element"})


@dataclass
class BaseY:
    class Meta:
        global_type = False

    v: Optional[str] = field(default=None, metadata={"type": "Element"})


@dataclass
class SpecialY(BaseY):
    class Meta:
        name = "special2"
        namespace = "urn:t"

    y: Optional[str] = field(default=None, metadata={"type": "Element"})


@dataclass
class HolderX:
    class Meta:
        name = "holderx"
        namespace = "urn:t"

    b: Optional[BaseX] = field(default=None, metadata={"type": "Element"})


@dataclass
class HolderY:
    class Meta:
        name = "holdery"
        namespace = "urn:t"

    b: Optional[BaseY] = field(default=None, metadata={"type": "Element"})


# --- a compound field without a str choice: which choice a string selects depends on the string ----------------

from decimal import Decimal  # noqa: E402

from xsdata.models.datatype import XmlDate, XmlDateTime  # noqa: E402


@dataclass
class Poly:
    class Meta:
        name = "poly"
        namespace = "urn:t"

    v: List[object] = field(default_factory=list, metadata={"type": "Elements", "choices": (
        {"name": "d", "type": XmlDate}, {"name": "dt", "type": XmlDateTime}, {"name": "n", "type": Decimal}, {"name": "b", "type": bool})})


# --- namespace-restricted wildcards next to an open one (what is 'unknown' depends on the field, not on the name alone) ------

@dataclass
class OpenChild:
    class Meta:
        global_type = False

    any: List[object] = field(default_factory=list, metadata={"type": "Wildcard", "namespace": "##any"})
    attrs: Dict[str, str] = field(default_factory=dict, metadata={"type": "Attributes", "namespace": "##any"})


@dataclass
class Restricted:
    class Meta:
        name = "restricted"
        namespace = "urn:t"

    open: Optional[OpenChild] = field(default=None, metadata={"type": "Element"})
    other: List[object] = field(default_factory=list, metadata={"type": "Wildcard", "namespace": "##other"})
    oattrs: Dict[str, str] = field(default_factory=dict, metadata={"type": "Attributes", "namespace": "urn:attr"})


# --- a QName-valued enumeration (the same lexical value means different members under different prefix bindings) ------------

from enum import Enum  # noqa: E402

from xml.etree.ElementTree import QName  # noqa: E402


class QE(Enum):
    A = QName("{urn:a}x")
    B = QName("{urn:b}x")


@dataclass
class QDoc:
    class Meta:
        name = "qdoc"
        namespace = "urn:t"

    q: Optional[QE] = field(default=None, metadata={"type": "Element"})


@dataclass
class Addr:
    """A class with a namespace of its own, used by a nillable field of one model and a plain field of another."""

    class Meta:
        global_type = False
        namespace = "urn:t"

    p: Optional[str] = field(default=None, metadata={"type": "Element"})


@dataclass
class NilHolder:
    class Meta:
        name = "nilholder"
        namespace = "urn:t"

    c: Optional[Addr] = field(default=None, metadata={"type": "Element", "nillable": True})


@dataclass
class PlainHolder:
    class Meta:
        name = "plainholder"
        namespace = "urn:t"

    c: Optional[Addr] = field(default=None, metadata={"type": "Element"})


# --- a base class and an UNRELATED class that carries the name a later-imported subclass of the base will also carry ----------

@dataclass
class UnrelatedExtZ:
    class Meta:
        name = "extz"
        namespace = "urn:t"

    u: Optional[str] = field(default=None, metadata={"type": "Element"})


@dataclass
class BaseZ:
    class Meta:
        global_type = False

    v: Optional[str] = field(default=None, metadata={"type": "Element"})


@dataclass
class HolderZ:
    class Meta:
        name = "holderz"
        namespace = "urn:t"

    b: Optional[BaseZ] = field(default=None, metadata={"type": "Element"})
