"""Fixed binding models used by the C14 (history) and C19 (schedule) harnesses.  They are chosen
to collide on the context's shared state: a child class without Meta.namespace used under two
parents in different namespaces, xsi:type lookups, wildcard namespace memos, root lookup without
a target class."""
from dataclasses import dataclass, field
from typing import Dict, List, Optional

__NAMESPACE__ = "urn:t"


@dataclass
class Item:
    class Meta:
        name = "item"
        namespace = "urn:t"

    v: Optional[str] = field(default=None, metadata={"type": "Element"})
    n: Optional[int] = field(default=None, metadata={"type": "Attribute"})


@dataclass
class Special(Item):
    class Meta:
        name = "special"
        namespace = "urn:t"

    extra: Optional[str] = field(default=None, metadata={"type": "Element"})


@dataclass
class Doc:
    class Meta:
        name = "doc"
        namespace = "urn:t"

    item: Optional[Item] = field(default=None, metadata={"type": "Element"})
    other: List[object] = field(default_factory=list, metadata={"type": "Wildcard", "namespace": "##other"})


@dataclass
class Plain:
    """No Meta.namespace: inherits the namespace of whoever uses it."""

    class Meta:
        global_type = False

    p: Optional[str] = field(default=None, metadata={"type": "Element"})


@dataclass
class ParentA:
    class Meta:
        name = "parentA"
        namespace = "urn:a"

    c: Optional[Plain] = field(default=None, metadata={"type": "Element"})


@dataclass
class ParentB:
    class Meta:
        name = "parentB"
        namespace = "urn:b"

    c: Optional[Plain] = field(default=None, metadata={"type": "Element"})
    attrs: Dict[str, str] = field(default_factory=dict, metadata={"type": "Attributes", "namespace": "##other"})


@dataclass
class UA:
    class Meta:
        global_type = False

    x: Optional[int] = field(default=None, metadata={"type": "Element"})


@dataclass
class UB:
    class Meta:
        global_type = False

    y: Optional[int] = field(default=None, metadata={"type": "Element"})


from typing import Union  # noqa: E402


@dataclass
class UnionDoc:
    class Meta:
        name = "udoc"
        namespace = "urn:t"

    u: Optional[Union[UA, UB]] = field(default=None, metadata={"type": "Element"})
    count: Optional[int] = field(default=None, metadata={"type": "Attribute"})


class Ratio(float):
    """A float subclass without a registered converter of its own."""


@dataclass
class AnyBox:
    class Meta:
        name = "anybox"
        namespace = "urn:t"

    value: Optional[object] = field(default=None, metadata={"type": "Element"})


@dataclass
class RatioBox:
    """Field typed with the float subclass: documented as unsupported on a pristine converter."""

    class Meta:
        name = "ratiobox"
        global_type = False

    r: Optional[Ratio] = field(default=None, metadata={"type": "Element"})
