"""Fixed binding models used by the C14 (history) and C19 (schedule) harnesses.  They are chosen
to collide on the context's shared state: a child class without Meta.namespace used under two
parents in different namespaces, xsi:type lookups, wildcard namespace memos, root lookup without
a target class."""
from dataclasses import dataclass, field
from typing import Dict, List, Optional

__NAMESPACE__ = "urn:t"


@dataclass
class Item:
    class Meta:
        name = "item"
        namespace = "urn:t"

    v: Optional[str] = field(default=None, metadata={"type": "Element"})
    n: Optional[int] = field(default=None, metadata={"type": "Attribute"})


@dataclass
class Special(Item):
    class Meta:
        name = "special"
        namespace = "urn:t"

    extra: Optional[str] = field(default=None, metadata={"type": "Element"})


@dataclass
class Doc:
    class Meta:
        name = "doc"
        namespace = "urn:t"

    item: Optional[Item] = field(default=None, metadata={"type": "Element"})
    other: List[object] = field(default_factory=list, metadata={"type": "Wildcard", "namespace": "##other"})


@dataclass
class Plain:
    """No Meta.namespace: inherits the namespace of whoever uses it."""

    class Meta:
        global_type = False

    p: Optional[str] = field(default=None, metadata={"type": "Element"})


@dataclass
class ParentA:
    class Meta:
        name = "parentA"
        namespace = "urn:a"

    c: Optional[Plain] = field(default=None, metadata={"type": "Element"})


@dataclass
class ParentB:
    class Meta:
        name = "parentB"
        namespace = "urn:b"

    c: Optional[Plain] = field(default=None, metadata={"type": "Element"})
    attrs: Dict[str, str] = field(default_factory=dict, metadata={"type": "Attributes", "namespace": "##other"})
