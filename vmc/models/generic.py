"""Holder models for C11 / C08 / C10: wildcard placements."""
from dataclasses import dataclass, field
from typing import Dict, List, Optional


@dataclass
class HSingle:
    class Meta:
        name = "holder"

    any: Optional[object] = field(default=None, metadata={"type": "Wildcard"})


@dataclass
class HList:
    class Meta:
        name = "holder"

    any: List[object] = field(default_factory=list, metadata={"type": "Wildcard", "namespace": "##any"})


@dataclass
class HMixed:
    class Meta:
        name = "holder"

    content: List[object] = field(default_factory=list, metadata={"type": "Wildcard", "namespace": "##any", "mixed": True})


@dataclass
class HChoice:
    class Meta:
        name = "holder"

    any: List[object] = field(default_factory=list, metadata={
        "type": "Wildcard", "namespace": "##any", "choices": ({"name": "known", "type": int},)})


@dataclass
class HOther:
    class Meta:
        name = "holder"
        namespace = "urn:h"

    any: List[object] = field(default_factory=list, metadata={"type": "Wildcard", "namespace": "##other"})


@dataclass
class HLocal:
    class Meta:
        name = "holder"
        namespace = "urn:h"

    any: List[object] = field(default_factory=list, metadata={"type": "Wildcard", "namespace": "##local"})


@dataclass
class HTarget:
    class Meta:
        name = "holder"
        namespace = "urn:x"

    any: List[object] = field(default_factory=list, metadata={"type": "Wildcard", "namespace": "##targetNamespace"})


@dataclass
class HAttrs:
    class Meta:
        name = "holder"

    attrs: Dict[str, str] = field(default_factory=dict, metadata={"type": "Attributes", "namespace": "##any"})


@dataclass
class Note:
    """A typed model that wildcards locate by element name; it has its own list wildcard."""

    class Meta:
        name = "note"

    any: List[object] = field(default_factory=list, metadata={"type": "Wildcard", "namespace": "##any"})
    lang: Optional[str] = field(default=None, metadata={"type": "Attribute"})


@dataclass
class HMixedTyped:
    """Mixed content next to a simple typed element field."""

    class Meta:
        name = "holder"

    flag: Optional[bool] = field(default=None, metadata={"type": "Element"})
    content: List[object] = field(default_factory=list, metadata={"type": "Wildcard", "namespace": "##any", "mixed": True})
