"""G-dtd: external DTDs rendered from a small AST the harness owns, so that the *instance enumerator*
and the oracle (attribute defaults, order class) are derived from the same AST (DESIGN.md 2.5).

A DTD is the base DTD plus <= D feature deviations.  Every generated instance document is validated
with libxml2 (lxml.etree.DTD) before use; an instance libxml2 rejects is a generator bug and is
counted (generator_rejected), never alarmed.
"""
from __future__ import annotations

import io
from dataclasses import dataclass, field
from typing import Any

from lxml import etree

from . import infoset as I
from .engine import Chooser, HarnessError, Prune

NS_DEFAULT = "urn:d"
NS_PREFIX = "urn:p"
PFX = "p"

# ---------------------------------------------------------------------------------------
# AST

EMPTY, ANY, PCDATA = "EMPTY", "ANY", "PCDATA"


@dataclass
class Name:
    """A content particle naming one element, with an occurrence operator."""
    name: str
    occ: str = ""               # "" | "?" | "*" | "+"


@dataclass
class Grp:
    kind: str                   # seq | choice
    items: list                 # Name | Grp
    occ: str = ""


@dataclass
class Mixed:
    """(#PCDATA|n1|n2)*  --  with no names: (#PCDATA)*"""
    names: list = field(default_factory=list)


@dataclass
class AttDef:
    name: str                   # may carry the reserved prefix: xml:lang
    type: str = "CDATA"         # CDATA | ID | IDREF | IDREFS | NMTOKEN | NMTOKENS | ENUM
    mode: str = "IMPLIED"       # REQUIRED | IMPLIED | FIXED | DEFAULT
    value: str | None = None    # the #FIXED / default value
    enum: list = field(default_factory=list)


@dataclass
class ElemDecl:
    name: str
    content: Any = PCDATA       # EMPTY | ANY | PCDATA | Mixed | Grp
    attrs: list = field(default_factory=list)


@dataclass
class Dtd:
    elems: dict = field(default_factory=dict)    # local name -> ElemDecl, the root first
    root: str = "root"
    ns: tuple | None = None                      # ("default" | "prefix", "root" | "all"): where the xmlns #FIXED attribute is declared
    features: list = field(default_factory=list)
    root_replaced: bool = False                  # the root content model is no longer the base sequence (+ appended particles)
    extra_ns: dict = field(default_factory=dict)  # further prefixes declared (#FIXED) on the root, used by attributes only

    @property
    def namespace(self) -> str | None:
        if self.ns is None:
            return None
        return NS_DEFAULT if self.ns[0] == "default" else NS_PREFIX

    def qn(self, local: str) -> str:
        """the element name as the DTD (and a conforming document) spells it"""
        return f"{PFX}:{local}" if self.ns and self.ns[0] == "prefix" else local

    def decl(self, name: str, content: Any = PCDATA, attrs: list | None = None) -> ElemDecl:
        if name not in self.elems:
            self.elems[name] = ElemDecl(name, content, list(attrs or []))
        return self.elems[name]


# ---------------------------------------------------------------------------------------
# rendering


def esc_default(v: str) -> str:
    """An attribute default literal inside a DTD (always double-quoted here)."""
    return v.replace("&", "&amp;").replace("<", "&lt;").replace('"', "&quot;")


def render_cp(d: Dtd, p) -> str:
    if isinstance(p, Name):
        return d.qn(p.name) + p.occ
    sep = "," if p.kind == "seq" else "|"
    return "(" + sep.join(render_cp(d, i) for i in p.items) + ")" + p.occ


def render_content(d: Dtd, c) -> str:
    if c in (EMPTY, ANY):
        return c
    if c == PCDATA:
        return "(#PCDATA)"
    if isinstance(c, Mixed):
        return "(#PCDATA" + "".join("|" + d.qn(n) for n in c.names) + ")*"
    if isinstance(c, Grp):
        return render_cp(d, c)
    raise HarnessError(f"content {c!r}")


def render_attdef(a: AttDef) -> str:
    t = "(" + "|".join(a.enum) + ")" if a.type == "ENUM" else a.type
    if a.mode in ("REQUIRED", "IMPLIED"):
        dflt = "#" + a.mode
    elif a.mode == "FIXED":
        dflt = f'#FIXED "{esc_default(a.value)}"'
    else:
        dflt = f'"{esc_default(a.value)}"'
    return f"{a.name} {t} {dflt}"


def xmlns_attdef(d: Dtd) -> AttDef | None:
    if d.ns is None:
        return None
    if d.ns[0] == "default":
        return AttDef("xmlns", "CDATA", "FIXED", NS_DEFAULT)
    return AttDef(f"xmlns:{PFX}", "CDATA", "FIXED", NS_PREFIX)


def render(d: Dtd) -> str:
    out = []
    for e in d.elems.values():
        out.append(f"<!ELEMENT {d.qn(e.name)} {render_content(d, e.content)}>")
    for e in d.elems.values():
        attrs = list(e.attrs)
        x = xmlns_attdef(d)
        if x is not None and (d.ns[1] == "all" or e.name == d.root):
            attrs.insert(0, x)
        if e.name == d.root:
            attrs[0:0] = [AttDef(f"xmlns:{p}", "CDATA", "FIXED", u) for p, u in d.extra_ns.items()]
        if attrs:
            out.append(f"<!ATTLIST {d.qn(e.name)} " + "\n          ".join(render_attdef(a) for a in attrs) + ">")
    return "\n".join(out) + "\n"


# ---------------------------------------------------------------------------------------
# the base DTD and the feature deviations


def base_dtd() -> Dtd:
    d = Dtd()
    d.decl("root", Grp("seq", [Name("a"), Name("b", "?")]), [AttDef("id", "CDATA", "IMPLIED")])
    d.decl("a")
    d.decl("b")
    return d


FEATURES = [
    "none",
    # element declarations / content models
    "empty-child", "empty-child-star", "any-child", "mixed-child", "mixed-root", "pcdata-root", "pcdata-star", "occurs-star", "occurs-plus",
    "seq-optional", "seq-star", "seq-plus", "seq-with-occurs", "choice", "choice-optional", "choice-star", "choice-plus", "choice-branch-repeats",
    "choice-of-sequences", "seq-in-choice", "root-choice", "nested-element", "name-twice", "recursion", "choice-three-star", "mixed-recursive",
    # attribute lists
    "attr-required", "attr-default", "attr-fixed", "attr-default-special", "attr-id-idref", "attr-nmtoken", "attr-nmtokens-default", "attr-enum",
    "attr-enum-default", "attr-enum-fixed", "attr-child-default", "attr-enum-two-elements", "attr-xml-lang", "attr-default-empty", "attr-foreign-prefixes", "attr-enum-single",
    "attr-names-collide-three", "attr-enum-collide-three",
    # xmlns declarations
    "xmlns-default-root", "xmlns-default-all", "xmlns-prefix-root", "xmlns-prefix-all",
]

# features that give the root another content model than the base sequence
ROOT_REPLACING = {"mixed-root", "pcdata-root", "root-choice"}
# features that append a particle to (or change an item of) the root sequence
ROOT_SEQ = {"empty-child", "empty-child-star", "any-child", "mixed-child", "pcdata-star", "occurs-star", "occurs-plus", "seq-optional", "seq-star", "seq-plus",
            "seq-with-occurs", "choice", "choice-optional", "choice-star", "choice-plus", "choice-branch-repeats", "choice-of-sequences", "seq-in-choice",
            "nested-element", "name-twice", "recursion", "choice-three-star", "mixed-recursive"}
CONFLICTS = [
    {"occurs-plus", "name-twice"},          # (a+, b?, a) is not deterministic
    {"xmlns-default-root", "xmlns-default-all", "xmlns-prefix-root", "xmlns-prefix-all"},
]


def apply_feature(d: Dtd, feat: str) -> None:
    root = d.elems["root"]
    d.features.append(feat)
    if feat == "none":
        return
    if feat in ROOT_SEQ:
        if d.root_replaced:
            raise Prune("the root content model was replaced; particle features do not combine with it")
        seq: Grp = root.content
    if feat in ROOT_REPLACING:
        if d.root_replaced or len(root.content.items) != 2 or [i.occ for i in root.content.items] != ["", "?"]:
            raise Prune("the root content model is replaced at most once and only from the base sequence")
        d.root_replaced = True

    if feat == "empty-child":
        d.decl("e", EMPTY, [AttDef("ea", "CDATA", "IMPLIED")])
        seq.items.append(Name("e"))
    elif feat == "empty-child-star":
        d.decl("e2", EMPTY)
        seq.items.append(Name("e2", "*"))
    elif feat == "any-child":
        d.decl("w", ANY)
        seq.items.append(Name("w", "?"))
    elif feat == "mixed-child":
        d.decl("m", Mixed(["a", "b"]), [AttDef("ma", "CDATA", "IMPLIED")])
        seq.items.append(Name("m"))
    elif feat == "mixed-root":
        root.content = Mixed(["a", "b"])
    elif feat == "pcdata-root":
        root.content = PCDATA
    elif feat == "pcdata-star":
        d.decl("t", Mixed([]))
        seq.items.append(Name("t"))
    elif feat == "occurs-star":
        seq.items[1].occ = "*"
    elif feat == "occurs-plus":
        seq.items[0].occ = "+"
    elif feat == "seq-optional":
        d.decl("c1"), d.decl("d1")
        seq.items.append(Grp("seq", [Name("c1"), Name("d1")], "?"))
    elif feat == "seq-star":
        d.decl("c2"), d.decl("d2")
        seq.items.append(Grp("seq", [Name("c2"), Name("d2")], "*"))
    elif feat == "seq-plus":
        d.decl("c3"), d.decl("d3")
        seq.items.append(Grp("seq", [Name("c3"), Name("d3")], "+"))
    elif feat == "seq-with-occurs":
        d.decl("g1"), d.decl("g2"), d.decl("g3")
        seq.items.append(Grp("seq", [Name("g1"), Name("g2", "*"), Name("g3", "?")], "?"))
    elif feat == "choice":
        d.decl("x1"), d.decl("y1", EMPTY)
        seq.items.append(Grp("choice", [Name("x1"), Name("y1")]))
    elif feat == "choice-optional":
        d.decl("x2"), d.decl("y2")
        seq.items.append(Grp("choice", [Name("x2"), Name("y2")], "?"))
    elif feat == "choice-star":
        d.decl("x3"), d.decl("y3")
        seq.items.append(Grp("choice", [Name("x3"), Name("y3")], "*"))
    elif feat == "choice-three-star":
        # libxml2 nests a choice of three or more alternatives to the right: (x6|(y6|z6))*
        d.decl("x6"), d.decl("y6"), d.decl("z6", EMPTY)
        seq.items.append(Grp("choice", [Name("x6"), Name("y6"), Name("z6")], "*"))
    elif feat == "choice-plus":
        d.decl("x4"), d.decl("y4", EMPTY)
        seq.items.append(Grp("choice", [Name("x4"), Name("y4")], "+"))
    elif feat == "choice-branch-repeats":
        d.decl("x5"), d.decl("y5")
        seq.items.append(Grp("choice", [Name("x5", "+"), Name("y5")]))
    elif feat == "choice-of-sequences":
        d.decl("p1"), d.decl("q1"), d.decl("r1")
        seq.items.append(Grp("choice", [Grp("seq", [Name("p1"), Name("q1")]), Name("r1")], "*"))
    elif feat == "seq-in-choice":
        d.decl("p2"), d.decl("q2"), d.decl("r2")
        seq.items.append(Grp("choice", [Grp("seq", [Name("p2"), Name("q2", "?")]), Name("r2")]))
    elif feat == "root-choice":
        root.content = Grp("choice", [Name("a"), Name("b")])
    elif feat == "nested-element":
        d.decl("n", Grp("seq", [Name("a"), Name("n2", "*")]), [AttDef("na", "CDATA", "IMPLIED")])
        d.decl("n2", Grp("seq", [Name("b", "?")]), [AttDef("nb", "NMTOKEN", "DEFAULT", "k")])
        seq.items.append(Name("n", "?"))
    elif feat == "name-twice":
        seq.items.append(Name("a"))
    elif feat == "mixed-recursive":
        # mixed content that contains itself: <!ELEMENT em (#PCDATA|em|a)*>
        d.decl("em", Mixed(["em", "a"]))
        seq.items.append(Name("em", "?"))
    elif feat == "attr-enum-single":
        root.attrs.append(AttDef("flag", "ENUM", "IMPLIED", enum=["yes"]))
        d.elems["a"].attrs.append(AttDef("once", "ENUM", "IMPLIED", enum=["only"]))
    elif feat == "attr-names-collide-three":
        # three names that become one Python identifier
        root.attrs += [AttDef("k-v", "CDATA", "IMPLIED"), AttDef("k_v", "CDATA", "IMPLIED"), AttDef("k.v", "CDATA", "IMPLIED")]
    elif feat == "attr-enum-collide-three":
        root.attrs.append(AttDef("kind", "ENUM", "IMPLIED", enum=["a-b", "a_b", "a.b"]))
    elif feat == "recursion":
        d.decl("sec", Grp("seq", [Name("a"), Name("sec", "*")]), [AttDef("lvl", "CDATA", "IMPLIED")])
        seq.items.append(Name("sec", "*"))
    elif feat == "attr-required":
        root.attrs.append(AttDef("req", "CDATA", "REQUIRED"))
    elif feat == "attr-default":
        root.attrs.append(AttDef("dflt", "CDATA", "DEFAULT", "dv"))
    elif feat == "attr-fixed":
        root.attrs.append(AttDef("fx", "CDATA", "FIXED", "const"))
    elif feat == "attr-default-special":
        root.attrs.append(AttDef("dq", "CDATA", "DEFAULT", "it's \"q\" <x>"))
        root.attrs.append(AttDef("da", "CDATA", "DEFAULT", "x&y"))
    elif feat == "attr-id-idref":
        root.attrs.append(AttDef("key", "ID", "REQUIRED"))
        d.elems["a"].attrs.append(AttDef("ref", "IDREF", "IMPLIED"))
        d.elems["a"].attrs.append(AttDef("refs", "IDREFS", "IMPLIED"))
        d.elems["b"].attrs.append(AttDef("bid", "ID", "IMPLIED"))
    elif feat == "attr-nmtoken":
        root.attrs.append(AttDef("tok", "NMTOKEN", "IMPLIED"))
        root.attrs.append(AttDef("toks", "NMTOKENS", "IMPLIED"))
    elif feat == "attr-nmtokens-default":
        root.attrs.append(AttDef("tks", "NMTOKENS", "DEFAULT", "t1 t2"))
    elif feat == "attr-enum":
        root.attrs.append(AttDef("en", "ENUM", "IMPLIED", enum=["p", "q", "r-s"]))
    elif feat == "attr-enum-default":
        root.attrs.append(AttDef("ed", "ENUM", "DEFAULT", "off", enum=["on", "off"]))
    elif feat == "attr-enum-fixed":
        root.attrs.append(AttDef("ef", "ENUM", "FIXED", "y", enum=["y", "n"]))
    elif feat == "attr-child-default":
        d.elems["a"].attrs.append(AttDef("lang", "CDATA", "DEFAULT", "en"))
        d.elems["a"].attrs.append(AttDef("af", "CDATA", "FIXED", "k"))
        d.elems["a"].attrs.append(AttDef("ai", "CDATA", "IMPLIED"))
    elif feat == "attr-enum-two-elements":
        d.elems["a"].attrs.append(AttDef("kind", "ENUM", "IMPLIED", enum=["k1", "k2"]))
        d.elems["b"].attrs.append(AttDef("kind", "ENUM", "DEFAULT", "k3", enum=["k2", "k3"]))
    elif feat == "attr-xml-lang":
        root.attrs.append(AttDef("xml:lang", "NMTOKEN", "DEFAULT", "en"))
    elif feat == "attr-default-empty":
        root.attrs.append(AttDef("unit", "CDATA", "DEFAULT", ""))
    elif feat == "attr-foreign-prefixes":
        # three prefixes declared next to each other on the root, attributes in the second and third namespace
        d.extra_ns = {"x": "urn:x", "y": "urn:y", "z": "urn:z"}
        root.attrs.append(AttDef("y:lang", "CDATA", "IMPLIED"))
        root.attrs.append(AttDef("z:mode", "CDATA", "DEFAULT", "m"))
    elif feat == "xmlns-default-root":
        d.ns = ("default", "root")
    elif feat == "xmlns-default-all":
        d.ns = ("default", "all")
    elif feat == "xmlns-prefix-root":
        d.ns = ("prefix", "root")
    elif feat == "xmlns-prefix-all":
        d.ns = ("prefix", "all")
    else:
        raise HarnessError(feat)


def gen_dtd(ch: Chooser, max_features: int) -> Dtd:
    d = base_dtd()
    used: list = []
    for i in range(max_features):
        f = ch.pick(FEATURES, f"feature{i}")
        if f == "none":
            break
        if f in used:
            raise Prune("same feature twice")
        if i and FEATURES.index(f) < FEATURES.index(used[-1]):
            raise Prune("features are applied in canonical order (each unordered set once)")
        if any(f in c and u in c for c in CONFLICTS for u in used):
            raise Prune("conflicting features")
        if f in ROOT_SEQ and any(u in ROOT_REPLACING for u in used):
            raise Prune("the root content model was replaced; particle features do not combine with it")
        used.append(f)
        apply_feature(d, f)
    return d


# ---------------------------------------------------------------------------------------
# order class of a DTD (what the property demands of the output's element order)

ORDER_RANK = {"single": 0, "choice": 1, "none": 2}


def content_order_class(c) -> str:
    """single : repetition (* +) is applied to single element names only -> order demanded under every option set
    choice : ... or to choices of single element names (mixed content and ANY are such choices) -> order demanded with compound fields
    none   : sequences / choices of groups repeat -> only the multiset of children is demanded.
    A name that occurs twice in one content model, e.g. (a, b?, a), is put into 'choice': without compound fields the two occurrences
    necessarily share one list field whose position in the class is fixed, with compound fields the generator keeps their positions."""
    if c in (EMPTY, PCDATA):
        return "single"
    if c == ANY:
        return "choice"
    if isinstance(c, Mixed):
        return "choice" if c.names else "single"
    names: list = []

    def walk(p) -> str:
        if isinstance(p, Name):
            names.append(p.name)
            return "single"
        worst = "single"
        for i in p.items:
            k = walk(i)
            if ORDER_RANK[k] > ORDER_RANK[worst]:
                worst = k
        if p.occ in ("*", "+"):
            k = "choice" if p.kind == "choice" and all(isinstance(i, Name) and i.occ == "" for i in p.items) else "none"
            if ORDER_RANK[k] > ORDER_RANK[worst]:
                worst = k
        return worst

    k = walk(c)
    if len(set(names)) != len(names) and ORDER_RANK[k] < ORDER_RANK["choice"]:
        k = "choice"
    return k


def order_class(d: Dtd) -> str:
    worst = "single"
    for e in d.elems.values():
        k = content_order_class(e.content)
        if ORDER_RANK[k] > ORDER_RANK[worst]:
            worst = k
    return worst


# ---------------------------------------------------------------------------------------
# instance enumeration

OCC = {"": (1, 1), "?": (0, 1), "*": (0, None), "+": (1, None)}

TEXTS = ["t", "x&<y> z", " s p ", ""]
VALUES = {
    "CDATA": ["v", "a b", "x&<\"'y>", ""],
    "NMTOKEN": ["tok", "1.a-b_c"],
    "NMTOKENS": ["t1", "t1 t2", "t2  t1"],
}


def occ_counts(mn: int, mx: int | None) -> list[int]:
    out = {mn, mn + 1, 2 if mx is None else min(mx, 2)}
    return sorted(c for c in out if c >= mn and (mx is None or c <= mx))


class InstanceGen:
    """Enumerates the documents of a DTD through a chooser: each occurrence count, choice branch, optional attribute
    and value is a choice point; the default answers give the minimal document."""

    MAX_DEPTH = 2

    def __init__(self, d: Dtd, ch: Chooser, free: bool = False):
        self.d = d
        self.ch = ch
        self.free = free
        self.n = 0
        self.stack: list = []
        self.ids: list = []

    def pick(self, seq, label):
        self.n += 1
        if len(seq) == 1:
            return seq[0]
        return seq[self.ch.choose(len(seq), f"{label}#{self.n}", free=self.free)]

    def document(self) -> I.El:
        root = self.element(self.d.root)
        # the document spells the namespace declaration out (on the root): XmlParser never reads the DTD, so a namespace that exists
        # only through the #FIXED default of the xmlns attribute is not in the parsed document's infoset
        if self.d.ns is not None:
            root.nsdecls["" if self.d.ns[0] == "default" else PFX] = self.d.namespace
        for p, u in self.d.extra_ns.items():
            root.nsdecls[p] = u
        return root

    def attr_value(self, a: AttDef, el_name: str) -> str | None:
        """None = this attribute cannot be given a value here (an IDREF before any ID)."""
        if a.mode == "FIXED":
            return a.value
        lab = f"attrval:{el_name}/{a.name}"
        if a.type == "ENUM":
            vals = list(a.enum)
        elif a.type == "ID":
            k = len(self.ids) + 1
            v = self.pick([f"i{k}", f"_k.{k}-z"], lab)
            self.ids.append(v)
            return v
        elif a.type == "IDREF":
            if not self.ids:
                return None
            vals = self.ids[-2:][::-1]
        elif a.type == "IDREFS":
            if not self.ids:
                return None
            one, two = self.ids[0], self.ids[-1]
            vals = [one, f"{one} {two}", f"{two}  {one}"]
        else:
            vals = list(VALUES[a.type])
        if a.mode == "DEFAULT":
            # a value other than the default first, then the default value written out
            vals = [v for v in vals if v != a.value] + [a.value]
        return self.pick(vals, lab)

    def attrs_of(self, e: ElemDecl) -> list:
        out = []
        for a in e.attrs:
            if a.mode == "REQUIRED":
                v = self.attr_value(a, e.name)
                if v is None:
                    raise HarnessError(f"required {a.type} attribute {a.name} cannot be given a value")
                out.append((a.name, v))
                continue
            if a.type in ("IDREF", "IDREFS") and not self.ids:
                continue
            if self.pick([False, True], f"attr:{e.name}/{a.name}"):
                out.append((a.name, self.attr_value(a, e.name)))
        return out

    def element(self, name: str) -> I.El:
        e: ElemDecl = self.d.elems[name]
        el = I.El(self.d.qn(name))
        el.attrs += self.attrs_of(e)
        c = e.content
        self.stack.append(name)
        try:
            if c == EMPTY:
                pass
            elif c == PCDATA:
                t = self.pick(TEXTS, f"text:{name}")
                if t:
                    el.kids.append(t)
            elif c == ANY:
                kind = self.pick(["empty", "text", "element", "two-elements", "lead-text", "tail-text", "mixed"], f"any:{name}")
                if kind == "text":
                    el.kids.append("any text")
                elif kind == "element":
                    el.kids.append(self.element("a"))
                elif kind == "two-elements":
                    el.kids += [self.element("b"), self.element("a")]
                elif kind == "lead-text":
                    el.kids += ["lead ", self.element("a")]
                elif kind == "tail-text":
                    el.kids += [self.element("a"), " trail"]
                elif kind == "mixed":
                    el.kids += ["lead ", self.element("b"), " & ", self.element("a"), " trail"]
            elif isinstance(c, Mixed):
                if not c.names:
                    t = self.pick(TEXTS[::-1], f"text:{name}")
                    if t:
                        el.kids.append(t)
                else:
                    n = self.pick([0, 1, 2, 3], f"mixed-len:{name}")
                    for k in range(n):
                        what = self.pick(["#text"] + c.names, f"mixed-item:{name}")
                        if what == "#text":
                            el.kids.append(["one ", " & <two> ", "three"][k])
                        else:
                            el.kids.append(self.element(what))
            else:
                el.kids += self.particle(c)
        finally:
            self.stack.pop()
        return el

    def particle(self, p) -> list:
        mn, mx = OCC[p.occ]
        if isinstance(p, Name):
            if self.stack.count(p.name) >= self.MAX_DEPTH:
                # a recursive declaration is unrolled MAX_DEPTH times
                if mn:
                    raise HarnessError(f"required recursion through {p.name}")
                return []
            n = self.pick(occ_counts(mn, mx), f"occ:{p.name}")
            return [self.element(p.name) for _ in range(n)]
        n = self.pick(occ_counts(mn, mx), f"occ:{p.kind}")
        out = []
        for _ in range(n):
            if p.kind == "choice":
                out += self.particle(self.pick(p.items, "branch"))
            else:
                for i in p.items:
                    out += self.particle(i)
        return out


# ---------------------------------------------------------------------------------------
# the independent validator

_DTD_CACHE: dict = {}


class InvalidDtd(Exception):
    pass


def validator(text: str):
    if text not in _DTD_CACHE:
        try:
            _DTD_CACHE[text] = etree.DTD(io.BytesIO(text.encode("utf-8")))
        except etree.DTDParseError as e:
            _DTD_CACHE[text] = InvalidDtd(str(e))
        if len(_DTD_CACHE) > 64:
            _DTD_CACHE.pop(next(iter(_DTD_CACHE)))
    v = _DTD_CACHE[text]
    if isinstance(v, InvalidDtd):
        raise v
    return v


def dtd_valid(text: str, doc: str) -> tuple[bool, str]:
    """(valid?, first error) of a document (no DOCTYPE) against the external DTD, by libxml2."""
    v = validator(text)
    tree = etree.fromstring(doc.encode("utf-8"))
    ok = v.validate(tree)
    return bool(ok), ("" if ok else str(v.error_log.last_error))
