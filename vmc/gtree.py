"""G-tree: generic XML trees (DESIGN.md 2.5).  Every tree *shape* with <= N elements (depth <= 3) is
enumerated (free choices); each node defaults to (name ``a``, no namespace, no attributes, no text,
no tail) and labels are deviations.  Documents are written by the harness's own explicit-prefix
serializer (vmc.infoset.El) and every generated document is re-parsed with expat and strict
libxml2 and compared with the intended tree before use (a mismatch is a generator bug, exit 2)."""
from __future__ import annotations

from . import infoset as I
from .engine import Chooser, HarnessError

X, Y = "urn:x", "urn:y"
XSI = I.XSI
XS = I.XS

NS_MODES = ["none", "prefixed-x", "default-x", "inherit", "rebind-x-to-y", "prefixed-y", "undeclare-default"]
NAMES = ["a", "b"]
ATTRS = ["none", "plain", "namespaced", "qname-valued", "xsi-type-int", "two", "qname-valued-inherited-x", "xsi-type-qname", "xsi-nil"]
TEXTS = [None, "t", " ", " t\n", "a&<b"]


def gen(ch: Chooser, max_elems: int, max_depth: int = 3, attrs=ATTRS, texts=TEXTS, ns_modes=NS_MODES, tails=True, seeds=True) -> I.El:
    count = [1]

    def node(depth: int, scope: dict, is_root: bool, tag: str) -> I.El:
        mode = ch.pick(ns_modes, f"{tag}.ns")
        name = ch.pick(NAMES, f"{tag}.name")
        decl: dict = {}
        prefix = ""
        if mode == "prefixed-x":
            prefix = "x"
            if scope.get("x") != X:
                decl["x"] = X
        elif mode == "prefixed-y":
            prefix = "y"
            if scope.get("y") != Y:
                decl["y"] = Y
        elif mode == "default-x":
            if scope.get("") != X:
                decl[""] = X
        elif mode == "inherit":
            # use whatever prefix the parent element used (same namespace as the parent)
            prefix = scope.get("__parent_prefix__", "")
        elif mode == "rebind-x-to-y":
            prefix = "x"
            decl["x"] = Y
        elif mode == "undeclare-default":
            if scope.get(""):
                decl[""] = ""
        sc = dict(scope)
        sc.update(decl)
        if mode == "none" and sc.get(""):
            # "no namespace" under an inherited default namespace needs the un-declaration
            decl[""] = ""
            sc[""] = ""
        el = I.El(f"{prefix}:{name}" if prefix else name, decl, [], [])
        a = ch.pick(attrs, f"{tag}.attr")
        if a in ("plain", "two"):
            el.attrs.append(("k", "v w"))
        if a in ("namespaced", "two"):
            if sc.get("x") != X and sc.get("x") is not None:
                p = "z"
                el.nsdecls[p] = X
                sc[p] = X
            else:
                p = "x"
                if sc.get("x") != X:
                    el.nsdecls["x"] = X
                    sc["x"] = X
            el.attrs.append((f"{p}:j", "1"))
        if a == "qname-valued-inherited-x":
            # uses whatever "x" is bound to here, without re-declaring it
            if sc.get("x"):
                el.attrs.append(("q", "x:val"))
        if a == "qname-valued":
            if sc.get("y") != Y:
                el.nsdecls["y"] = Y
                sc["y"] = Y
            el.attrs.append(("q", "y:val"))
        txt = ch.pick(texts, f"{tag}.text")
        if a == "xsi-type-int":
            el.nsdecls.setdefault("xsi", XSI)
            el.nsdecls.setdefault("xs", XS)
            el.attrs.append(("xsi:type", "xs:int"))
            txt = "5"
        if a == "xsi-nil":
            # an empty element that says it is nil
            el.nsdecls.setdefault("xsi", XSI)
            el.attrs.append(("xsi:nil", "true"))
            txt = None
        if a == "xsi-type-qname":
            # a QName value whose namespace is bound on this element only
            el.nsdecls.setdefault("xsi", XSI)
            el.nsdecls.setdefault("xs", XS)
            el.nsdecls["qv"] = "urn:qv"
            el.attrs.append(("xsi:type", "xs:QName"))
            txt = "qv:name"
        if txt is not None:
            el.kids.append(txt)
        sc["__parent_prefix__"] = prefix
        room = max_elems - count[0]
        if room > 0 and depth < max_depth and a not in ("xsi-type-int", "xsi-type-qname", "xsi-nil"):
            k = ch.choose(min(room, 2) + 1, f"{tag}.kids", free=True)
            count[0] += k
            for i in range(k):
                child = node(depth + 1, sc, False, f"{tag}{i}")
                el.kids.append(child)
                if tails:
                    tl = ch.pick(texts, f"{tag}{i}.tail")
                    if tl is not None:
                        el.kids.append(tl)
        return el

    seed = ch.choose(2, "seed", free=True) if seeds else 0
    if seed == 0:
        return node(1, {}, True, "n")
    # seed 1: a root that declares x and y with two children, so that scoping faults (a declaration leaking to a
    # later sibling, a re-binding not undone) are within two deviations
    root = I.El("r", {"x": X, "y": Y}, [], [])
    count[0] = 3
    sc = {"x": X, "y": Y, "__parent_prefix__": ""}
    for i in range(2):
        root.kids.append(node(2, sc, False, f"s{i}"))
    return root


def document(root: I.El) -> str:
    """Write and self-check."""
    text = root.write()
    exp = root.expected()
    try:
        got = I.canonical(text)
    except I.NotWellFormed as e:
        raise HarnessError(f"generated document is not well-formed: {e}\n{text}")
    if got != exp:
        raise HarnessError(f"generated document does not denote the intended tree:\n{text}\nintended {exp}\nparsed   {got}")
    return text
