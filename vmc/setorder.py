"""E4 -- owning environment nondeterminism: set iteration order and id() direction.

An import hook loads selected xsdata modules from the tree under test through an AST transform
that rewrites every ``set(...)`` / ``frozenset(...)`` call, set display and set comprehension
into ``__verif_set__(...)`` -- a ``set`` subclass whose ``__iter__`` asks the *current explorer
chooser* for a permutation when an instance with >= 2 elements is iterated (choice 0 = canonical
order, independent of hash seed and of object addresses) -- and ``id(x)`` into ``__verif_id__(x)``.

Because the transform is applied to whatever the tree contains, a set iteration introduced by an
edit is owned automatically.  Set algebra on an owned set (a - b, a | b, a.intersection(b), ...) gives
an owned set again; only sets that never passed through a transformed expression (e.g. dict views,
sets built inside C code or in modules outside the prefixes) are not owned -- the real hash-seed
sweep of C12 covers those.
"""
from __future__ import annotations

import ast
import builtins
import importlib.abc
import importlib.machinery
import importlib.util
import itertools
import math
import os
import sys

from . import engine

STATE = {
    "enabled": True,      # ask the chooser (else canonical order)
    "sites": {},          # (file, line) -> number of owned iterations with >= 2 elements
    "id_desc": False,     # hand out identities in descending order
    "id_counter": 0,
    "id_map": {},
    "max_full_perm": 4,
    "weight": 1,
}
_PERMS: dict[int, list] = {}


def canon_key(x):
    if isinstance(x, type):
        return (0, x.__module__, x.__qualname__)
    if isinstance(x, (str, bytes, int, float, bool)) or x is None:
        return (1, type(x).__name__, repr(x))
    if isinstance(x, tuple):
        return (2, "tuple", repr(tuple(canon_key(i) for i in x)))
    r = repr(x)
    if " at 0x" in r:
        # address-based repr: fall back to the type name; ties keep insertion (hash) order, which
        # such objects make unownable -- report it
        STATE.setdefault("unownable", set()).add(type(x).__name__)
        return (4, type(x).__module__, type(x).__qualname__)
    return (3, type(x).__name__, r)


def _alternatives(n: int) -> list[tuple[int, ...]]:
    """Permutations offered for n elements: all n! for n <= 4, else identity, reverse, every
    rotation and every adjacent swap (stated in the evidence)."""
    if n in _PERMS:
        return _PERMS[n]
    ident = tuple(range(n))
    if n <= STATE["max_full_perm"]:
        perms = [ident] + [p for p in itertools.permutations(range(n)) if p != ident]
    else:
        perms = [ident, tuple(reversed(ident))]
        for r in range(1, n):
            perms.append(ident[r:] + ident[:r])
        for i in range(n - 1):
            p = list(ident)
            p[i], p[i + 1] = p[i + 1], p[i]
            perms.append(tuple(p))
        seen = set()
        perms = [p for p in perms if not (p in seen or seen.add(p))]
    _PERMS[n] = perms
    return perms


def _order(items: list, site: str) -> list:
    n = len(items)
    if n < 2:
        return items
    items = sorted(items, key=canon_key)
    STATE["sites"][site] = STATE["sites"].get(site, 0) + 1
    ch = engine.CURRENT
    if ch is None or not STATE["enabled"]:
        return items
    perms = _alternatives(n)
    k = ch.choose(len(perms), f"setorder@{site}#{n}", weight=STATE["weight"])
    return [items[i] for i in perms[k]]


class PermSet(set):
    __slots__ = ("_site",)

    def __iter__(self):
        return iter(_order(list(set.__iter__(self)), getattr(self, "_site", "?")))

    def pop(self):
        # set.pop() removes an arbitrary element: own it too
        items = _order(list(set.__iter__(self)), getattr(self, "_site", "?") + ":pop")
        if not items:
            raise KeyError("pop from an empty set")
        self.discard(items[0])
        return items[0]

    def copy(self):
        c = PermSet(set.__iter__(self))
        c._site = getattr(self, "_site", "?")
        return c

    # results of set algebra stay owned (C-level set operations return plain sets for subclasses)
    def _derived(self, result, op):
        if result is NotImplemented:
            return result
        c = PermSet(set.__iter__(result) if isinstance(result, PermSet) else result)
        c._site = getattr(self, "_site", "?") + op
        return c

    def __sub__(self, other):
        return self._derived(set.__sub__(self, other), "-")

    def __rsub__(self, other):
        return self._derived(set.__rsub__(self, other), "-")

    def __or__(self, other):
        return self._derived(set.__or__(self, other), "|")

    __ror__ = __or__

    def __and__(self, other):
        return self._derived(set.__and__(self, other), "&")

    __rand__ = __and__

    def __xor__(self, other):
        return self._derived(set.__xor__(self, other), "^")

    __rxor__ = __xor__

    def union(self, *others):
        return self._derived(set.union(self, *others), "|")

    def intersection(self, *others):
        return self._derived(set.intersection(self, *others), "&")

    def difference(self, *others):
        return self._derived(set.difference(self, *others), "-")

    def symmetric_difference(self, other):
        return self._derived(set.symmetric_difference(self, other), "^")


class PermFrozenSet(frozenset):
    def __iter__(self):
        return iter(_order(list(frozenset.__iter__(self)), "frozenset"))


def _mk_set(site, *a):
    s = PermSet(*a)
    s._site = site
    return s


def _mk_frozenset(site, *a):
    return PermFrozenSet(*a)


def _verif_id(x):
    m = STATE["id_map"]
    k = id(x)
    ent = m.get(k)
    if ent is not None and ent[0] is x:
        return ent[1]
    STATE["id_counter"] += 1
    v = STATE["id_counter"]
    if STATE["id_desc"]:
        v = 10**9 - v
    m[k] = (x, v)  # keeps x alive so that the address cannot be reused
    return v


def reset_ids(desc: bool = False):
    STATE["id_map"].clear()
    STATE["id_counter"] = 0
    STATE["id_desc"] = desc


builtins.__verif_set__ = _mk_set
builtins.__verif_frozenset__ = _mk_frozenset
builtins.__verif_id__ = _verif_id


class _T(ast.NodeTransformer):
    def __init__(self, fname: str, own_ids: bool):
        self.fname = fname
        self.own_ids = own_ids
        self.count = 0

    def _site(self, node):
        return ast.Constant(f"{self.fname}:{getattr(node, 'lineno', 0)}")

    def visit_Call(self, node):
        self.generic_visit(node)
        if isinstance(node.func, ast.Name) and node.func.id in ("set", "frozenset") and not node.keywords:
            self.count += 1
            name = "__verif_set__" if node.func.id == "set" else "__verif_frozenset__"
            return ast.copy_location(ast.Call(ast.Name(name, ast.Load()), [self._site(node)] + node.args, []), node)
        if self.own_ids and isinstance(node.func, ast.Name) and node.func.id == "id" and len(node.args) == 1:
            self.count += 1
            return ast.copy_location(ast.Call(ast.Name("__verif_id__", ast.Load()), node.args, []), node)
        return node

    def visit_Set(self, node):
        self.generic_visit(node)
        self.count += 1
        return ast.copy_location(ast.Call(ast.Name("__verif_set__", ast.Load()), [self._site(node), ast.List(node.elts, ast.Load())], []), node)

    def visit_SetComp(self, node):
        self.generic_visit(node)
        self.count += 1
        return ast.copy_location(
            ast.Call(ast.Name("__verif_set__", ast.Load()), [self._site(node), ast.ListComp(node.elt, node.generators)], []), node)


class _Loader(importlib.abc.Loader):
    def __init__(self, path: str, fullname: str, own_ids: bool):
        self.path = path
        self.fullname = fullname
        self.own_ids = own_ids

    def create_module(self, spec):
        return None

    def exec_module(self, module):
        with open(self.path, encoding="utf-8") as f:
            src = f.read()
        tree = ast.parse(src, self.path)
        short = self.fullname.replace("xsdata.", "")
        t = _T(short, self.own_ids)
        tree = ast.fix_missing_locations(t.visit(tree))
        TRANSFORMED[self.fullname] = t.count
        code = compile(tree, self.path, "exec")
        exec(code, module.__dict__)


TRANSFORMED: dict[str, int] = {}


class Finder(importlib.abc.MetaPathFinder):
    def __init__(self, prefixes: list[str], repo: str, own_ids: bool):
        self.prefixes = prefixes
        # the tree under test first, then the stand-in packages (toposort iterates sets on behalf of the generator)
        self.roots = [repo, os.path.join(os.path.dirname(os.path.dirname(os.path.abspath(__file__))), "shims")]
        self.own_ids = own_ids

    def find_spec(self, fullname, path, target=None):
        if not any(fullname == p or fullname.startswith(p + ".") for p in self.prefixes):
            return None
        rel = fullname.replace(".", "/")
        for cand, is_pkg in [c for root in self.roots for c in ((os.path.join(root, rel, "__init__.py"), True), (os.path.join(root, rel + ".py"), False))]:
            if os.path.exists(cand):
                loader = _Loader(cand, fullname, self.own_ids)
                return importlib.util.spec_from_file_location(
                    fullname, cand, loader=loader, submodule_search_locations=[os.path.dirname(cand)] if is_pkg else None)
        return None


def install(prefixes: list[str], own_ids: bool = False):
    repo = os.environ.get("VERIF_REPO", "/repo")
    for m in list(sys.modules):
        if any(m == p or m.startswith(p + ".") for p in prefixes):
            raise engine.HarnessError(f"setorder.install after {m} was imported")
    sys.meta_path.insert(0, Finder(prefixes, repo, own_ids))
