"""Running xsdata's code generator in-process on small source sets, and loading what it wrote.

Third-party packages the generator needs but which are absent here (jinja2, click, toposort,
ruff, requests) come from the verification-side stand-ins in /verif/shims, appended (never
prepended) to sys.path by ./check.  shims/conformance.py keeps them honest (run by setup.sh).
"""
from __future__ import annotations

import functools
import importlib
import io
import logging
import os
import shutil
import sys
import tempfile
import warnings
from pathlib import Path

from .engine import HarnessError

_COUNTER = [0]


def reset_process_caches():
    """lru_caches whose results depend on cwd / earlier runs are reset between independent cases."""
    from xsdata.utils import package
    for fn in vars(package).values():
        if hasattr(fn, "cache_clear"):
            fn.cache_clear()


class Generated:
    def __init__(self, workdir: str, package: str, files: dict, log: str, error: BaseException | None):
        self.workdir = workdir
        self.package = package
        self.files = files          # relpath -> text
        self.log = log
        self.error = error
        self._cwd = None

    def module_names(self) -> list[str]:
        out = []
        for rel in sorted(self.files):
            if rel.endswith(".py"):
                mod = rel[:-3].replace("/", ".")
                if mod.endswith(".__init__"):
                    mod = mod[: -len(".__init__")]
                out.append(mod)
        return out

    def import_all(self):
        """Import every generated module in a clean way; returns {module name: module}."""
        mods = {}
        if self.workdir not in sys.path:
            sys.path.insert(0, self.workdir)
        # modules of the same name imported from another scratch directory must not be reused
        for name, mod in list(sys.modules.items()):
            f = getattr(mod, "__file__", None) or ""
            if name.split(".")[0] in self._roots() and f and not f.startswith(self.workdir + os.sep):
                del sys.modules[name]
        importlib.invalidate_caches()
        for name in self.module_names():
            if name == "__init__":
                continue  # a stray top-level __init__.py is not an importable module name
            mods[name] = importlib.import_module(name)
        return mods

    def find_class(self, name: str):
        for mod in self.import_all().values():
            if hasattr(mod, name) and getattr(getattr(mod, name), "__module__", None) == mod.__name__:
                return getattr(mod, name)
        for mod in self.import_all().values():
            if hasattr(mod, name):
                return getattr(mod, name)
        return None

    def classes(self):
        import dataclasses
        out = []
        seen = set()
        for mod in self.import_all().values():
            for v in vars(mod).values():
                if isinstance(v, type) and dataclasses.is_dataclass(v) and v.__module__.split(".")[0] in self._roots() and v not in seen:
                    seen.add(v)
                    out.append(v)
        return out

    def _roots(self) -> set:
        roots = {self.package.split(".")[0]}
        for rel in self.files:
            roots.add(rel.split("/")[0].removesuffix(".py"))
        return roots

    def cleanup(self):
        roots = self._roots()
        for name, mod in list(sys.modules.items()):
            f = getattr(mod, "__file__", None) or ""
            if name.split(".")[0] in roots and (f.startswith(self.workdir) or not f):
                del sys.modules[name]
            elif f.startswith(self.workdir + os.sep):
                del sys.modules[name]
        while self.workdir in sys.path:
            sys.path.remove(self.workdir)
        importlib.invalidate_caches()
        shutil.rmtree(self.workdir, ignore_errors=True)


def new_package(prefix="vg") -> str:
    _COUNTER[0] += 1
    return f"{prefix}{os.getpid()}x{_COUNTER[0]}"


def generate(sources: dict[str, str | bytes], uris: list[str] | None = None, package: str | None = None, options: dict | None = None,
             conventions: dict | None = None, config_obj=None, reset_caches: bool = True, keep_cwd: str | None = None,
             cache: str | None = None, run_cwd: str | None = None) -> Generated:
    """Write `sources` (relative path -> text) into a scratch dir, run ResourceTransformer on `uris`
    (default: every source file, sorted) with GeneratorConfig modified by `options` (dotted keys of
    GeneratorOutput, e.g. {"format.frozen": True, "structure_style": StructureStyle.CLUSTERS}).
    Never raises for generator errors: they are returned in .error."""
    from xsdata.codegen.transformer import ResourceTransformer
    from xsdata.logger import logger
    from xsdata.models.config import GeneratorConfig

    workdir = keep_cwd or tempfile.mkdtemp(prefix="vmc_cg_")
    package = package or new_package()
    old_cwd = os.getcwd()
    old_path = list(sys.path)
    stream = io.StringIO()
    handler = logging.StreamHandler(stream)
    old_handlers, old_level, old_prop = logger.handlers, logger.level, logger.propagate
    logger.handlers, logger.propagate = [handler], False
    logger.setLevel(logging.WARNING)
    error = None
    try:
        for rel, text in sources.items():
            p = Path(workdir, rel)
            p.parent.mkdir(parents=True, exist_ok=True)
            if isinstance(text, bytes):
                p.write_bytes(text)
            else:
                p.write_text(text, encoding="utf-8")
        # run_cwd: the process stands in another directory than the sources (output is written there)
        os.chdir(run_cwd or workdir)
        if reset_caches:
            reset_process_caches()
        config = config_obj or GeneratorConfig()
        config.output.package = package
        if options:
            config.output.update(**options)
        for k, v in (conventions or {}).items():
            from xsdata.utils import objects
            objects.update(config.conventions, **{k: v})
        if uris is None:
            uris = [Path(workdir, rel).as_uri() for rel in sorted(sources)]
        else:
            uris = [Path(workdir, u).as_uri() if "://" not in u else u for u in uris]
        transformer = ResourceTransformer(config=config)
        if cache == "fresh":
            # the cache of parsed classes lives in the temp dir under a name derived from the uris: start without it
            ResourceTransformer.get_cache_file(uris).unlink(missing_ok=True)
        with warnings.catch_warnings():
            warnings.simplefilter("ignore")
            try:
                if cache:
                    transformer.process(uris, cache=True)
                else:
                    transformer.process(uris)
            except BaseException as e:  # noqa
                if isinstance(e, (KeyboardInterrupt, SystemExit)):
                    raise
                error = e
        files = {}
        src_names = {str(Path(r)) for r in sources}
        for dp, _dn, fn in os.walk(run_cwd or workdir):
            for f in fn:
                full = os.path.join(dp, f)
                rel = os.path.relpath(full, run_cwd or workdir)
                if rel in src_names or "__pycache__" in rel or not rel.endswith(".py"):
                    continue
                with open(full, encoding="utf-8") as fh:
                    files[rel] = fh.read()
    finally:
        os.chdir(old_cwd)
        logger.handlers, logger.propagate = old_handlers, old_prop
        logger.setLevel(old_level)
        # validate_imports prepends cwd on every run
        sys.path[:] = [p for p in sys.path if p not in (workdir, run_cwd) or p in old_path]
    g = Generated(workdir, package, files, stream.getvalue(), error)
    if cache:
        try:
            g.cache_file = ResourceTransformer.get_cache_file(uris)
        except Exception:  # noqa
            g.cache_file = None
    return g


def strict_parser_config():
    from xsdata.formats.dataclass.parsers.config import ParserConfig
    return ParserConfig(fail_on_unknown_properties=True, fail_on_unknown_attributes=True, fail_on_converter_warnings=True)
