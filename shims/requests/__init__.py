"""Verification-side stand-in for ``requests``: names only, no networking.

Supported: ``Session`` (``get``/``post``/``close``, context manager), ``Response``
(``status_code``, ``content``, ``text``, ``headers``, ``raise_for_status``),
``HTTPError``/``RequestException``.  ``Session.get``/``post`` always raise
``ConnectionError`` because the sandbox is offline; tests are expected to patch
them (or to inject their own transport).
"""

__version__ = "0.0-shim"


class RequestException(OSError):
    def __init__(self, *args, response=None, request=None):
        super().__init__(*args)
        self.response = response
        self.request = request


class HTTPError(RequestException):
    pass


class ConnectionError(RequestException):  # noqa: A001 - mirrors requests' name
    pass


class Response:
    def __init__(self):
        self.status_code = None
        self._content = b""
        self.headers = {}
        self.url = None
        self.reason = None
        self.encoding = "utf-8"

    @property
    def content(self):  # a class-level property, like requests (tests patch it)
        return self._content

    @content.setter
    def content(self, value):
        self._content = value

    @property
    def text(self):
        return self.content.decode(self.encoding or "utf-8", "replace")

    @property
    def ok(self):
        return self.status_code is not None and self.status_code < 400

    def raise_for_status(self):
        if self.status_code is not None and 400 <= self.status_code < 600:
            kind = "Client" if self.status_code < 500 else "Server"
            raise HTTPError(
                f"{self.status_code} {kind} Error: {self.reason} for url: {self.url}",
                response=self,
            )


class Session:
    def __init__(self):
        self.headers = {}

    def request(self, method, url, **kwargs):
        raise ConnectionError(f"requests shim: network access is unavailable ({method} {url})")

    def get(self, url, **kwargs):
        return self.request("GET", url, **kwargs)

    def post(self, url, data=None, **kwargs):
        return self.request("POST", url, data=data, **kwargs)

    def close(self):
        pass

    def __enter__(self):
        return self

    def __exit__(self, *args):
        self.close()


def session():
    return Session()
