"""``click.core`` of the verification-side click stand-in (see ``click/__init__.py``)."""

from . import Argument, Command, Context, Group, Option, Parameter  # noqa: F401
