"""Verification-side stand-in for the third-party ``click`` package (8.x API subset).

It exists only so that ``xsdata.cli`` can be imported and driven programmatically
in a sandbox where click cannot be installed.  Supported:

  * decorators: ``group``, ``command``, ``Group.command``/``Group.group``, ``option``,
    ``argument``, ``pass_context``, ``pass_obj``, ``version_option``, ``help_option``
  * option grammar of click's parser: ``--opt VALUE``, ``--opt=VALUE``, ``-o VALUE``,
    ``-oVALUE``, bundled short flags (``-rc VALUE``), multi-letter single-dash options
    (``-ss VALUE`` is matched as a "long" option first, exactly like click does),
    boolean flag pairs ``--a/--no-a``, ``is_flag``, ``flag_value``, ``multiple``,
    ``default`` (also callable), ``type``, ``required``, ``envvar``, ``callback``,
    ``is_eager``, ``expose_value``, explicit destination names, ``--`` terminator,
    interspersed options/arguments for commands, none for groups.
    ``help``/``show_default``/``metavar``/``hidden`` only influence the help page.
  * arguments: ``nargs`` (1, n, -1), ``required``, ``default``, ``type``
  * types: ``STRING INT FLOAT BOOL UNPROCESSED``, ``Choice``, ``Path``, ``ParamType``
    (``convert``/``fail``/``name``), plain callables
  * ``Context`` (``params obj parent command info_name command_path invoked_subcommand``,
    ``call_on_close close exit fail abort invoke forward find_root ensure_object
    get_usage get_help``), ``Command``, ``Group``, ``Parameter``, ``Option``, ``Argument``
  * exceptions: ``ClickException UsageError BadParameter MissingParameter NoSuchOption
    BadOptionUsage BadArgumentUsage Abort`` + ``click.exceptions.Exit``
  * ``echo`` (ANSI codes are stripped when the stream is not a tty), ``secho``, ``style``,
    ``unstyle``, ``get_current_context``
  * ``click.testing.CliRunner`` / ``Result``

NOT supported: prompts, pagers, progress bars, shell completion, chained groups,
``auto_envvar_prefix``, ``default_map``, ``File`` type, result callbacks.  The layout of
``--help`` pages is only approximately click's (no terminal-width aware wrapping).
"""

from __future__ import annotations

import enum
import inspect
import os
import re
import sys
import threading
from functools import update_wrapper
from typing import Any, Callable

__version__ = "8.1-shim"

# ----------------------------------------------------------------------------- output
_ANSI_RE = re.compile(r"\033\[[;?0-9]*[a-zA-Z]")
_COLORS = {
    "black": 30, "red": 31, "green": 32, "yellow": 33, "blue": 34, "magenta": 35,
    "cyan": 36, "white": 37, "reset": 39, "bright_black": 90, "bright_red": 91,
    "bright_green": 92, "bright_yellow": 93, "bright_blue": 94, "bright_magenta": 95,
    "bright_cyan": 96, "bright_white": 97,
}  # fmt: skip


def unstyle(text: str) -> str:
    return _ANSI_RE.sub("", text)


def _color_code(color: Any, offset: int) -> str:
    if isinstance(color, int):
        return f"{38 + offset};5;{color:d}"
    if isinstance(color, (tuple, list)):
        r, g, b = color
        return f"{38 + offset};2;{r:d};{g:d};{b:d}"
    return str(_COLORS[color] + offset)


def style(text: Any, fg=None, bg=None, bold=None, dim=None, underline=None,
          overline=None, italic=None, blink=None, reverse=None, strikethrough=None,
          reset=True) -> str:  # fmt: skip
    if not isinstance(text, str):
        text = str(text)
    bits = []
    try:
        if fg:
            bits.append(f"\033[{_color_code(fg, 0)}m")
        if bg:
            bits.append(f"\033[{_color_code(bg, 10)}m")
    except KeyError as e:
        raise TypeError(f"Unknown color {e.args[0]!r}") from None
    for flag, on, off in ((bold, 1, 22), (dim, 2, 22), (underline, 4, 24), (overline, 53, 55),
                          (italic, 3, 23), (blink, 5, 25), (reverse, 7, 27),
                          (strikethrough, 9, 29)):  # fmt: skip
        if flag is not None:
            bits.append(f"\033[{on if flag else off}m")
    bits.append(text)
    if reset:
        bits.append("\033[0m")
    return "".join(bits)


def echo(message: Any = None, file=None, nl: bool = True, err: bool = False, color=None) -> None:
    if file is None:
        file = sys.stderr if err else sys.stdout
        if file is None:
            return
    if message is not None and not isinstance(message, (str, bytes, bytearray)):
        message = str(message)
    if isinstance(message, (bytes, bytearray)):
        out = bytes(message) + (b"\n" if nl else b"")
        file.flush()
        getattr(file, "buffer", file).write(out)
        file.flush()
        return
    out = (message or "") + ("\n" if nl else "")
    if out:
        if color is None:
            ctx = get_current_context(silent=True)
            color = ctx.color if ctx is not None else None
        if color is None:
            isatty = getattr(file, "isatty", None)
            try:
                color = bool(isatty and isatty())
            except Exception:
                color = False
        if not color:
            out = unstyle(out)
        file.write(out)
    file.flush()


def secho(message=None, file=None, nl=True, err=False, color=None, **styles) -> None:
    if message is not None and not isinstance(message, (bytes, bytearray)):
        message = style(message, **styles)
    echo(message, file=file, nl=nl, err=err, color=color)


# ------------------------------------------------------------------------- exceptions
class ClickException(Exception):
    exit_code = 1

    def __init__(self, message: str) -> None:
        super().__init__(message)
        self.message = message

    def format_message(self) -> str:
        return self.message

    def __str__(self) -> str:
        return self.message

    def show(self, file=None) -> None:
        if file is None:
            file = sys.stderr
        echo(f"Error: {self.format_message()}", file=file)


class UsageError(ClickException):
    exit_code = 2

    def __init__(self, message: str, ctx: "Context | None" = None) -> None:
        super().__init__(message)
        self.ctx = ctx
        self.cmd = ctx.command if ctx else None

    def show(self, file=None) -> None:
        if file is None:
            file = sys.stderr
        color = None
        hint = ""
        if self.ctx is not None and self.ctx.command.get_help_option_names(self.ctx):
            hint = "Try '{} {}' for help.\n".format(
                self.ctx.command_path, self.ctx.command.get_help_option_names(self.ctx)[0]
            )
        if self.ctx is not None:
            color = self.ctx.color
            echo(f"{self.ctx.get_usage()}\n{hint}", file=file, color=color)
        echo(f"Error: {self.format_message()}", file=file, color=color)


class BadParameter(UsageError):
    def __init__(self, message, ctx=None, param=None, param_hint=None) -> None:
        super().__init__(message, ctx)
        self.param = param
        self.param_hint = param_hint

    def _hint(self) -> str | None:
        if self.param_hint is not None:
            hint = self.param_hint
        elif self.param is not None:
            hint = self.param.get_error_hint(self.ctx)
        else:
            return None
        if isinstance(hint, (list, tuple)):
            hint = " / ".join(repr(x) for x in hint)
        return hint

    def format_message(self) -> str:
        hint = self._hint()
        if hint is None:
            return f"Invalid value: {self.message}"
        return f"Invalid value for {hint}: {self.message}"


class MissingParameter(BadParameter):
    def __init__(self, message=None, ctx=None, param=None, param_hint=None, param_type=None):
        super().__init__(message or "", ctx, param, param_hint)
        self.param_type = param_type

    def format_message(self) -> str:
        hint = self._hint()
        hint = f" {hint}" if hint else ""
        param_type = self.param_type
        if param_type is None and self.param is not None:
            param_type = self.param.param_type_name
        msg = self.message
        if self.param is not None:
            extra = self.param.type.get_missing_message(self.param)
            if extra:
                msg = f"{msg}. {extra}" if msg else extra
        msg = f" {msg}" if msg else ""
        missing = {"argument": "Missing argument", "option": "Missing option",
                   "parameter": "Missing parameter"}.get(param_type, "Missing parameter")  # fmt: skip
        return f"{missing}{hint}.{msg}"

    def __str__(self) -> str:
        if not self.message:
            name = self.param.name if self.param else None
            return f"Missing parameter: {name}"
        return self.message


class NoSuchOption(UsageError):
    def __init__(self, option_name, message=None, possibilities=None, ctx=None) -> None:
        super().__init__(message or f"No such option: {option_name}", ctx)
        self.option_name = option_name
        self.possibilities = possibilities

    def format_message(self) -> str:
        if not self.possibilities:
            return self.message
        opts = ", ".join(sorted(self.possibilities))
        if len(self.possibilities) == 1:
            return f"{self.message} Did you mean {opts}?"
        return f"{self.message} (Possible options: {opts})"


class BadOptionUsage(UsageError):
    def __init__(self, option_name, message, ctx=None) -> None:
        super().__init__(message, ctx)
        self.option_name = option_name


class BadArgumentUsage(UsageError):
    pass


class Abort(RuntimeError):
    pass


class Exit(RuntimeError):
    def __init__(self, code: int = 0) -> None:
        self.exit_code = code


# ------------------------------------------------------------------------------ types
class ParamType:
    name: str = ""
    is_composite = False
    arity = 1
    envvar_list_splitter = None

    def __call__(self, value, param=None, ctx=None):
        if value is not None:
            return self.convert(value, param, ctx)
        return None

    def get_metavar(self, param, ctx=None):
        return None

    def get_missing_message(self, param, ctx=None):
        return None

    def convert(self, value, param, ctx):
        return value

    def fail(self, message, param=None, ctx=None):
        raise BadParameter(message, ctx=ctx, param=param)

    def __repr__(self) -> str:
        return self.name.upper() or type(self).__name__


class _Unprocessed(ParamType):
    name = "text"

    def __repr__(self) -> str:
        return "UNPROCESSED"


class _String(ParamType):
    name = "text"

    def convert(self, value, param, ctx):
        if isinstance(value, bytes):
            return value.decode(sys.getfilesystemencoding() or "utf-8", "replace")
        return str(value)

    def __repr__(self) -> str:
        return "STRING"


class _Number(ParamType):
    _type: Callable = int

    def convert(self, value, param, ctx):
        try:
            return self._type(value)
        except ValueError:
            self.fail(f"{value!r} is not a valid {self._label}.", param, ctx)


class _Int(_Number):
    name, _type, _label = "integer", int, "integer"

    def __repr__(self) -> str:
        return "INT"


class _Float(_Number):
    name, _type, _label = "float", float, "float"

    def __repr__(self) -> str:
        return "FLOAT"


class _Bool(ParamType):
    name = "boolean"

    def convert(self, value, param, ctx):
        if value in {False, True}:
            return bool(value)
        norm = str(value).strip().lower()
        if norm in {"1", "true", "t", "yes", "y", "on"}:
            return True
        if norm in {"0", "false", "f", "no", "n", "off"}:
            return False
        self.fail(f"{value!r} is not a valid boolean.", param, ctx)

    def __repr__(self) -> str:
        return "BOOL"


class _Func(ParamType):
    def __init__(self, func) -> None:
        self.name = getattr(func, "__name__", "func")
        self.func = func

    def convert(self, value, param, ctx):
        try:
            return self.func(value)
        except ValueError:
            self.fail(str(value), param, ctx)


class Choice(ParamType):
    name = "choice"

    def __init__(self, choices, case_sensitive: bool = True) -> None:
        self.choices = list(choices)
        self.case_sensitive = case_sensitive

    def _text(self, choice) -> str:
        return str(choice.name if isinstance(choice, enum.Enum) else choice)

    def get_metavar(self, param, ctx=None):
        text = "|".join(self._text(c) for c in self.choices)
        if getattr(param, "required", False) and param.param_type_name == "argument":
            return f"{{{text}}}"
        return f"[{text}]"

    def get_missing_message(self, param, ctx=None):
        return "Choose from:\n\t{}".format(",\n\t".join(self._text(c) for c in self.choices))

    def convert(self, value, param, ctx):
        norm = (lambda s: s) if self.case_sensitive else (lambda s: s.casefold())
        transform = ctx.token_normalize_func if ctx is not None else None
        if transform:
            norm = (lambda f: lambda s: transform(f(s)))(norm)
        wanted = norm(self._text(value))
        for choice in self.choices:
            if norm(self._text(choice)) == wanted:
                return choice
        choices_str = ", ".join(repr(self._text(c)) for c in self.choices)
        self.fail(f"{value!r} is not one of {choices_str}.", param, ctx)

    def __repr__(self) -> str:
        return f"Choice({self.choices})"


class Path(ParamType):
    envvar_list_splitter = os.path.pathsep

    def __init__(self, exists=False, file_okay=True, dir_okay=True, writable=False,
                 readable=True, resolve_path=False, allow_dash=False, path_type=None,
                 executable=False) -> None:  # fmt: skip
        self.exists, self.file_okay, self.dir_okay = exists, file_okay, dir_okay
        self.writable, self.readable, self.executable = writable, readable, executable
        self.resolve_path, self.allow_dash, self.type = resolve_path, allow_dash, path_type
        if file_okay and not dir_okay:
            self.name = "file"
        elif dir_okay and not file_okay:
            self.name = "directory"
        else:
            self.name = "path"

    def _coerce(self, value):
        if self.type is not None and not isinstance(value, self.type):
            if self.type is str:
                return os.fsdecode(value)
            if self.type is bytes:
                return os.fsencode(value)
            return self.type(value)
        return value

    def convert(self, value, param, ctx):
        rv = value
        if not (self.file_okay and self.allow_dash and rv in (b"-", "-")):
            if self.resolve_path:
                rv = os.path.realpath(rv)
            label = self.name.title()
            shown = os.fsdecode(value)
            if not os.path.exists(rv):
                if not self.exists:
                    return self._coerce(rv)
                self.fail(f"{label} {shown!r} does not exist.", param, ctx)
            if not self.file_okay and os.path.isfile(rv):
                self.fail(f"{label} {shown!r} is a file.", param, ctx)
            if not self.dir_okay and os.path.isdir(rv):
                self.fail(f"{label} {shown!r} is a directory.", param, ctx)
            for flag, mode, word in ((self.readable, os.R_OK, "readable"),
                                     (self.writable, os.W_OK, "writable"),
                                     (self.executable, os.X_OK, "executable")):  # fmt: skip
                if flag and not os.access(rv, mode):
                    self.fail(f"{label} {shown!r} is not {word}.", param, ctx)
        return self._coerce(rv)


STRING, INT, FLOAT, BOOL, UNPROCESSED = _String(), _Int(), _Float(), _Bool(), _Unprocessed()


def convert_type(ty, default=None) -> ParamType:
    if ty is None and default is not None:
        if isinstance(default, (tuple, list)):
            ty = type(default[0]) if default and not isinstance(default[0], (tuple, list)) else None
        else:
            ty = type(default)
    if isinstance(ty, ParamType):
        return ty
    if ty is str or ty is None:
        return STRING
    if ty is int:
        return INT
    if ty is float:
        return FLOAT
    if ty is bool:
        return BOOL
    if isinstance(ty, type) and issubclass(ty, ParamType):
        raise AssertionError(f"Attempted to use an uninstantiated parameter type ({ty}).")
    return _Func(ty)


# ---------------------------------------------------------------------------- context
_local = threading.local()


def get_current_context(silent: bool = False) -> "Context | None":
    try:
        return _local.stack[-1]
    except (AttributeError, IndexError):
        if not silent:
            raise RuntimeError("There is no active click context.") from None
    return None


class Context:
    def __init__(self, command: "Command", parent: "Context | None" = None,
                 info_name: str | None = None, obj: Any = None, color: bool | None = None,
                 token_normalize_func=None, help_option_names=None, **_ignored: Any) -> None:  # fmt: skip
        self.command = command
        self.parent = parent
        self.info_name = info_name
        self.params: dict[str, Any] = {}
        self.args: list[str] = []
        self._protected_args: list[str] = []
        self.obj = obj if obj is not None or parent is None else parent.obj
        self._meta = parent._meta if parent is not None else {}
        self.invoked_subcommand: str | None = None
        self.color = color if color is not None or parent is None else parent.color
        if token_normalize_func is None and parent is not None:
            token_normalize_func = parent.token_normalize_func
        self.token_normalize_func = token_normalize_func
        if help_option_names is None:
            help_option_names = parent.help_option_names if parent is not None else ["--help"]
        self.help_option_names = help_option_names
        self.resilient_parsing = False
        self._close_callbacks: list[Callable[[], Any]] = []
        self._depth = 0

    protected_args = property(lambda self: self._protected_args)
    meta = property(lambda self: self._meta)

    def __enter__(self) -> "Context":
        self._depth += 1
        _local.__dict__.setdefault("stack", []).append(self)
        return self

    def __exit__(self, *exc: Any) -> None:
        self._depth -= 1
        if self._depth == 0:
            self.close()
        _local.stack.pop()

    def scope(self, cleanup: bool = True):
        ctx = self

        class _Scope:
            def __enter__(self_inner):
                if not cleanup:
                    ctx._depth += 1
                return ctx.__enter__()

            def __exit__(self_inner, *exc):
                ctx.__exit__(*exc)
                if not cleanup:
                    ctx._depth -= 1

        return _Scope()

    def call_on_close(self, f):
        self._close_callbacks.append(f)
        return f

    def close(self) -> None:
        callbacks, self._close_callbacks = self._close_callbacks, []
        for cb in reversed(callbacks):  # ExitStack order: last registered runs first
            cb()

    @property
    def command_path(self) -> str:
        rv = self.info_name or ""
        if self.parent is not None:
            bits = [self.parent.command_path]
            bits += [p.make_metavar() for p in self.parent.command.get_params(self)
                     if isinstance(p, Argument)]  # fmt: skip
            rv = f"{' '.join(bits)} {rv}"
        return rv.lstrip()

    def find_root(self) -> "Context":
        node = self
        while node.parent is not None:
            node = node.parent
        return node

    def find_object(self, object_type):
        node: Context | None = self
        while node is not None:
            if isinstance(node.obj, object_type):
                return node.obj
            node = node.parent
        return None

    def ensure_object(self, object_type):
        rv = self.find_object(object_type)
        if rv is None:
            self.obj = rv = object_type()
        return rv

    def fail(self, message: str):
        raise UsageError(message, self)

    def abort(self):
        raise Abort()

    def exit(self, code: int = 0):
        raise Exit(code)

    def get_usage(self) -> str:
        return self.command.get_usage(self)

    def get_help(self) -> str:
        return self.command.get_help(self)

    def invoke(self, callback, *args: Any, **kwargs: Any):
        if isinstance(callback, Command):
            other = callback
            if other.callback is None:
                raise TypeError("The given command does not have a callback that can be invoked.")
            callback = other.callback
            ctx = Context(other, info_name=other.name, parent=self)
            for param in other.params:
                if param.name not in kwargs and param.expose_value:
                    kwargs[param.name] = param.type_cast_value(ctx, param.get_default(ctx))
            ctx.params.update(kwargs)
        else:
            ctx = self
        try:
            with ctx:
                return callback(*args, **kwargs)
        except UsageError as e:
            if e.ctx is None:
                e.ctx = self
            raise

    def forward(self, cmd, *args: Any, **kwargs: Any):
        return self.invoke(cmd, self, *args, **{**self.params, **kwargs})


# ------------------------------------------------------------------------- parameters
def _split_opt(opt: str) -> tuple[str, str]:
    first = opt[:1]
    if first.isalnum():
        return "", opt
    if opt[1:2] == first:
        return opt[:2], opt[2:]
    return first, opt[1:]


class Parameter:
    param_type_name = "parameter"

    def __init__(self, param_decls=None, type=None, required=False, default=None,
                 callback=None, nargs=None, multiple=False, metavar=None, expose_value=True,
                 is_eager=False, envvar=None, **_ignored: Any) -> None:  # fmt: skip
        self.name, self.opts, self.secondary_opts = self._parse_decls(
            param_decls or (), expose_value
        )
        self.type = convert_type(type, default)
        if nargs is None:
            nargs = self.type.arity if self.type.is_composite else 1
        self.required, self.callback, self.nargs, self.multiple = required, callback, nargs, multiple
        self.expose_value, self.default, self.is_eager = expose_value, default, is_eager
        self.metavar, self.envvar = metavar, envvar

    def __repr__(self) -> str:
        return f"<{type(self).__name__} {self.name}>"

    @property
    def human_readable_name(self) -> str:
        return self.name

    def make_metavar(self, ctx=None) -> str:
        if self.metavar is not None:
            return self.metavar
        metavar = self.type.get_metavar(self, ctx)
        if metavar is None:
            metavar = self.type.name.upper()
        if self.nargs != 1:
            metavar += "..."
        return metavar

    def get_default(self, ctx, call: bool = True):
        value = self.default
        if call and callable(value):
            value = value()
        return value

    def get_error_hint(self, ctx) -> str:
        return " / ".join(f"'{x}'" for x in (self.opts or [self.human_readable_name]))

    def resolve_envvar_value(self, ctx):
        names = [self.envvar] if isinstance(self.envvar, str) else (self.envvar or [])
        for name in names:
            rv = os.environ.get(name)
            if rv:
                return rv
        return None

    def consume_value(self, ctx, opts: dict[str, Any]):
        value = opts.get(self.name)
        if value is None:
            value = self.resolve_envvar_value(ctx)
            if value is not None and self.nargs != 1:
                value = value.split(self.type.envvar_list_splitter)
        if value is None:
            value = self.get_default(ctx)
        return value

    def type_cast_value(self, ctx, value):
        if value is None:
            return () if self.multiple or self.nargs == -1 else None

        def check_iter(v):
            if isinstance(v, str):
                raise BadParameter("Value must be an iterable.", ctx=ctx, param=self)
            try:
                return iter(v)
            except TypeError:
                raise BadParameter("Value must be an iterable.", ctx=ctx, param=self) from None

        if self.nargs == 1 or self.type.is_composite:
            convert = lambda v: self.type(v, param=self, ctx=ctx)  # noqa: E731
        elif self.nargs == -1:
            convert = lambda v: tuple(self.type(x, self, ctx) for x in check_iter(v))  # noqa: E731
        else:

            def convert(v):
                v = tuple(check_iter(v))
                if len(v) != self.nargs:
                    raise BadParameter(f"Takes {self.nargs} values but {len(v)} were given.",
                                       ctx=ctx, param=self)  # fmt: skip
                return tuple(self.type(x, self, ctx) for x in v)

        if self.multiple:
            return tuple(convert(x) for x in check_iter(value))
        return convert(value)

    def value_is_missing(self, value) -> bool:
        return value is None or ((self.nargs != 1 or self.multiple) and value == ())

    def process_value(self, ctx, value):
        value = self.type_cast_value(ctx, value)
        if self.required and self.value_is_missing(value):
            raise MissingParameter(ctx=ctx, param=self)
        if self.callback is not None:
            value = self.callback(ctx, self, value)
        return value

    def handle_parse_result(self, ctx, opts: dict[str, Any]):
        try:
            value = self.process_value(ctx, self.consume_value(ctx, opts))
        except UsageError as e:
            if e.ctx is None:
                e.ctx = ctx
            raise
        if self.expose_value:
            ctx.params[self.name] = value
        return value

    def get_help_record(self, ctx):
        return None


class Option(Parameter):
    param_type_name = "option"

    def __init__(self, param_decls=None, show_default=None, is_flag=None, flag_value=None,
                 multiple=False, count=False, type=None, help=None, hidden=False,
                 show_envvar=False, **attrs: Any) -> None:  # fmt: skip
        default_is_missing = "default" not in attrs
        super().__init__(param_decls, type=type, multiple=multiple, **attrs)
        if is_flag is None:
            is_flag = flag_value is not None or bool(self.secondary_opts)
        elif is_flag is False and flag_value is not None:
            is_flag = True
        if is_flag and default_is_missing and not self.required:
            self.default = () if multiple else False
        if flag_value is None:
            flag_value = not self.default
        self.is_flag, self.flag_value, self.count = bool(is_flag), flag_value, count
        self.is_bool_flag = False
        if is_flag and type is None:
            self.type = convert_type(None, flag_value)
        if is_flag:
            self.is_bool_flag = isinstance(self.type, _Bool)
        if count:
            if type is None:
                self.type = INT
            if default_is_missing:
                self.default = 0
        self.help, self.hidden, self.show_default = help, hidden, show_default
        if self.nargs == -1:
            raise TypeError("nargs=-1 is not supported for options.")
        if not self.is_bool_flag and self.secondary_opts:
            raise TypeError("Secondary flag is not valid for non-boolean flag.")

    def _parse_decls(self, decls, expose_value):
        opts, secondary, name, possible = [], [], None, []
        for decl in decls:
            if decl.isidentifier():
                if name is not None:
                    raise TypeError(f"Name '{name}' defined twice")
                name = decl
                continue
            split_char = ";" if decl[:1] == "/" else "/"
            if split_char in decl:
                first, second = (x.strip() for x in decl.split(split_char, 1))
                if first:
                    possible.append(_split_opt(first))
                    opts.append(first)
                second = second.lstrip()
                if second:
                    secondary.append(second)
                if first == second:
                    raise ValueError(f"Boolean option {decl!r} cannot use the same flag for true/false.")
            else:
                possible.append(_split_opt(decl))
                opts.append(decl)
        if name is None and possible:
            possible.sort(key=lambda x: -len(x[0]))  # group long options first
            name = possible[0][1].replace("-", "_").lower()
            if not name.isidentifier():
                name = None
        if name is None:
            if not expose_value:
                return None, opts, secondary
            raise TypeError(f"Could not determine name for option with declarations {decls!r}")
        if not opts and not secondary:
            raise TypeError(f"No options defined but a name was passed ({name}).")
        return name, opts, secondary

    def get_help_record(self, ctx):
        if self.hidden:
            return None

        def write(opts):
            rv = ", ".join(sorted(opts, key=lambda o: (len(_split_opt(o)[0]), )))
            if not self.is_flag and not self.count:
                rv += f" {self.make_metavar(ctx)}"
            return rv

        names = write(self.opts)
        if self.secondary_opts:
            names += " / " + write(self.secondary_opts)
        text = self.help or ""
        extra = []
        if self.show_default and self.default is not None and not callable(self.default):
            if self.is_bool_flag and self.secondary_opts:
                shown = _split_opt((self.opts if self.default else self.secondary_opts)[0])[1]
            else:
                shown = str(self.default)
            extra.append(f"default: {shown}")
        if self.required:
            extra.append("required")
        if extra:
            text = f"{text}  [{'; '.join(extra)}]" if text else f"[{'; '.join(extra)}]"
        return names, text


class Argument(Parameter):
    param_type_name = "argument"

    def __init__(self, param_decls, required=None, **attrs: Any) -> None:
        if required is None:
            required = attrs.get("default") is None and attrs.get("nargs", 1) > 0
        if "multiple" in attrs:
            raise TypeError("__init__() got an unexpected keyword argument 'multiple'.")
        super().__init__(param_decls, required=required, **attrs)

    def _parse_decls(self, decls, expose_value):
        if not decls:
            if not expose_value:
                return None, [], []
            raise TypeError("Argument is marked as exposed, but does not have a name.")
        if len(decls) != 1:
            raise TypeError(f"Arguments take exactly one parameter declaration, got {len(decls)}.")
        arg = decls[0]
        return arg.replace("-", "_").lower(), [arg], []

    @property
    def human_readable_name(self) -> str:
        return self.metavar if self.metavar is not None else self.name.upper()

    def make_metavar(self, ctx=None) -> str:
        if self.metavar is not None:
            return self.metavar
        var = self.type.get_metavar(self, ctx) or self.name.upper()
        if not self.required:
            var = f"[{var}]"
        if self.nargs != 1:
            var += "..."
        return var

    def get_error_hint(self, ctx) -> str:
        return f"'{self.make_metavar(ctx)}'"


# ----------------------------------------------------------------------------- parser
class _Parser:
    """Re-implementation of the relevant parts of ``click.parser.OptionParser``."""

    def __init__(self, ctx: Context, params, interspersed: bool) -> None:
        self.ctx, self.interspersed = ctx, interspersed
        self.short: dict[str, tuple[Option, Any]] = {}
        self.long: dict[str, tuple[Option, Any]] = {}
        self.prefixes = {"-", "--"}
        self.arguments = [p for p in params if isinstance(p, Argument)]
        for p in params:
            if not isinstance(p, Option):
                continue
            if p.is_flag and p.is_bool_flag and p.secondary_opts:
                self._add(p, p.opts, True)
                self._add(p, p.secondary_opts, False)
            elif p.is_flag:
                self._add(p, p.opts, p.flag_value)
            else:
                self._add(p, p.opts, None)

    def _norm(self, opt: str) -> str:
        f = self.ctx.token_normalize_func
        if f is None:
            return opt
        prefix, rest = _split_opt(opt)
        return f"{prefix}{f(rest)}"

    def _add(self, option: Option, opts, const) -> None:
        for opt in opts:
            opt = self._norm(opt)
            prefix, value = _split_opt(opt)
            if not prefix:
                raise ValueError(f"Invalid start character for option ({opt})")
            self.prefixes.add(prefix[0])
            if len(prefix) == 1 and len(value) == 1:
                self.short[opt] = (option, const)
            else:
                self.long[opt] = (option, const)
                self.prefixes.add(prefix)

    def parse(self, args: list[str]):
        self.opts: dict[str, Any] = {}
        self.order: list[Parameter] = []
        self.rargs, self.largs = list(args), []
        try:
            self._process_args()
            rest = self._process_positionals()
        except UsageError as e:
            if e.ctx is None:
                e.ctx = self.ctx
            raise
        return self.opts, rest, self.order

    def _process_args(self) -> None:
        while self.rargs:
            arg = self.rargs.pop(0)
            if arg == "--":
                return
            if arg[:1] in self.prefixes and len(arg) > 1:
                self._process_opt(arg)
            elif self.interspersed:
                self.largs.append(arg)
            else:
                self.rargs.insert(0, arg)
                return

    def _store(self, name: str, option: Option, const, value) -> None:
        if option.count:
            self.opts[option.name] = self.opts.get(option.name, 0) + 1
        elif option.is_flag:
            if option.multiple:
                self.opts.setdefault(option.name, []).append(const)
            else:
                self.opts[option.name] = const
        elif option.multiple:
            self.opts.setdefault(option.name, []).append(value)
        else:
            self.opts[option.name] = value
        self.order.append(option)

    def _takes_value(self, option: Option) -> bool:
        return not option.is_flag and not option.count

    def _value(self, name: str, option: Option):
        nargs = option.nargs
        if len(self.rargs) < nargs:
            raise BadOptionUsage(
                name,
                f"Option {name!r} requires an argument." if nargs == 1
                else f"Option {name!r} requires {nargs} arguments.",
            )  # fmt: skip
        if nargs == 1:
            return self.rargs.pop(0)
        value = tuple(self.rargs[:nargs])
        del self.rargs[:nargs]
        return value

    def _match_long(self, opt: str, explicit: str | None) -> None:
        if opt not in self.long:
            from difflib import get_close_matches

            raise NoSuchOption(opt, possibilities=get_close_matches(opt, self.long))
        option, const = self.long[opt]
        if self._takes_value(option):
            if explicit is not None:
                self.rargs.insert(0, explicit)
            value = self._value(opt, option)
        elif explicit is not None:
            raise BadOptionUsage(opt, f"Option {opt!r} does not take a value.")
        else:
            value = None
        self._store(opt, option, const, value)

    def _match_short(self, arg: str) -> None:
        stop, i, prefix = False, 1, arg[0]
        for ch in arg[1:]:
            opt = self._norm(f"{prefix}{ch}")
            i += 1
            if opt not in self.short:
                raise NoSuchOption(opt)
            option, const = self.short[opt]
            if self._takes_value(option):
                if i < len(arg):  # rest of the bundle is the value: -ofile
                    self.rargs.insert(0, arg[i:])
                    stop = True
                value = self._value(opt, option)
            else:
                value = None
            self._store(opt, option, const, value)
            if stop:
                break

    def _process_opt(self, arg: str) -> None:
        explicit = None
        if "=" in arg:
            long_opt, explicit = arg.split("=", 1)
        else:
            long_opt = arg
        norm = self._norm(long_opt)
        try:
            self._match_long(norm, explicit)
        except NoSuchOption:
            # options like "-ss" live in the long table; "-abc" bundles fall back to short
            if arg[:2] not in self.prefixes:
                self._match_short(arg)
                return
            raise

    def _process_positionals(self) -> list[str]:
        args = self.largs + self.rargs
        specs = self.arguments
        # how many values must be kept for arguments declared after a nargs=-1 one
        results: list[Any] = []
        pos = 0
        for idx, spec in enumerate(specs):
            if spec.nargs == 1:
                if pos < len(args):
                    results.append(args[pos])
                    pos += 1
                else:
                    results.append(None)
            elif spec.nargs == -1:
                reserve = sum(max(s.nargs, 0) for s in specs[idx + 1:])
                end = max(pos, len(args) - reserve)
                results.append(tuple(args[pos:end]))
                pos = end
            else:
                chunk = args[pos:pos + spec.nargs]
                pos += len(chunk)
                results.append(tuple(chunk) + (None,) * (spec.nargs - len(chunk)))
        for spec, value in zip(specs, results):
            if spec.nargs > 1:
                holes = sum(1 for x in value if x is None)
                if holes == len(value):
                    value = None
                elif holes:
                    raise BadArgumentUsage(f"Argument {spec.name!r} takes {spec.nargs} values.")
            if spec.nargs == -1 and spec.resolve_envvar_value(self.ctx) is not None and value == ():
                value = None
            self.opts[spec.name] = value
            self.order.append(spec)
        return args[pos:]


# --------------------------------------------------------------------------- commands
def _wrap(text: str, width: int, indent: str) -> str:
    import textwrap

    out = []
    for para in re.split(r"\n\s*\n", text.strip("\n")):
        if para.startswith("\b\n") or para.startswith("\b"):
            out.append("\n".join(indent + line for line in para.split("\n")[1:]))
        else:
            out.append(textwrap.fill(" ".join(para.split()), width, initial_indent=indent,
                                     subsequent_indent=indent))  # fmt: skip
    return "\n\n".join(out)


def _rows(rows: list[tuple[str, str]], width: int = 80) -> str:
    import textwrap

    col = min(max(len(r[0]) for r in rows), 30) + 2
    lines = []
    for first, second in rows:
        head = f"  {first}"
        if not second:
            lines.append(head)
            continue
        wrapped = textwrap.wrap(" ".join(second.split()), max(width - col - 2, 10)) or [""]
        if len(first) <= col - 2:
            lines.append(f"{head}{' ' * (col - len(first))}{wrapped[0]}")
        else:
            lines.append(head)
            lines.append(f"{' ' * (col + 2)}{wrapped[0]}")
        lines.extend(f"{' ' * (col + 2)}{w}" for w in wrapped[1:])
    return "\n".join(lines)


class Command:
    allow_interspersed_args = True
    context_class = Context

    def __init__(self, name, context_settings=None, callback=None, params=None, help=None,
                 epilog=None, short_help=None, options_metavar="[OPTIONS]", add_help_option=True,
                 no_args_is_help=False, hidden=False, deprecated=False) -> None:  # fmt: skip
        self.name, self.callback = name, callback
        self.context_settings = dict(context_settings or {})
        self.params: list[Parameter] = list(params or [])
        self.help, self.epilog, self.short_help = help, epilog, short_help
        self.options_metavar, self.add_help_option = options_metavar, add_help_option
        self.no_args_is_help, self.hidden, self.deprecated = no_args_is_help, hidden, deprecated

    def __repr__(self) -> str:
        return f"<{type(self).__name__} {self.name}>"

    # -- help ---------------------------------------------------------------
    def get_help_option_names(self, ctx) -> list[str]:
        names = set(ctx.help_option_names)
        for p in self.params:
            names.difference_update(p.opts, p.secondary_opts)
        return [n for n in ctx.help_option_names if n in names]

    def get_help_option(self, ctx) -> Option | None:
        names = self.get_help_option_names(ctx)
        if not names or not self.add_help_option:
            return None

        def show_help(ctx, param, value):
            if value and not ctx.resilient_parsing:
                echo(ctx.get_help(), color=ctx.color)
                ctx.exit()

        return Option(names, is_flag=True, is_eager=True, expose_value=False,
                      callback=show_help, help="Show this message and exit.")  # fmt: skip

    def get_params(self, ctx) -> list[Parameter]:
        rv = list(self.params)
        help_option = self.get_help_option(ctx)
        if help_option is not None:
            rv.append(help_option)
        return rv

    def collect_usage_pieces(self, ctx) -> list[str]:
        rv = [self.options_metavar] if self.options_metavar else []
        rv += [p.make_metavar(ctx) for p in self.get_params(ctx) if isinstance(p, Argument)]
        return rv

    def get_usage(self, ctx) -> str:
        return f"Usage: {ctx.command_path} {' '.join(self.collect_usage_pieces(ctx))}".rstrip()

    def get_short_help_str(self, limit: int = 45) -> str:
        text = self.short_help or ""
        if not text and self.help:
            first = inspect.cleandoc(self.help).split("\n\n")[0]
            text = " ".join(first.split())
            cut = text.find(". ")
            text = text[:cut + 1] if cut > 0 else text
            if len(text) > limit:
                words, acc = text.split(), []
                for w in words:
                    if len(" ".join([*acc, w])) > limit - 3:
                        break
                    acc.append(w)
                text = " ".join(acc) + "..."
        return text

    def _help_sections(self, ctx) -> list[str]:
        sections = []
        rows = [r for r in (p.get_help_record(ctx) for p in self.get_params(ctx)) if r]
        if rows:
            sections.append("Options:\n" + _rows(rows))
        return sections

    def get_help(self, ctx) -> str:
        parts = [self.get_usage(ctx)]
        if self.help:
            parts.append(_wrap(inspect.cleandoc(self.help).partition("\f")[0], 78, "  "))
        parts.extend(self._help_sections(ctx))
        if self.epilog:
            parts.append(_wrap(inspect.cleandoc(self.epilog), 78, "  "))
        return "\n\n".join(parts)

    # -- parsing / invocation ------------------------------------------------
    def make_context(self, info_name, args, parent=None, **extra: Any) -> Context:
        for key, value in self.context_settings.items():
            extra.setdefault(key, value)
        ctx = self.context_class(self, info_name=info_name, parent=parent, **extra)
        with ctx.scope(cleanup=False):
            self.parse_args(ctx, list(args))
        return ctx

    def parse_args(self, ctx: Context, args: list[str]) -> list[str]:
        if not args and self.no_args_is_help and not ctx.resilient_parsing:
            echo(ctx.get_help(), color=ctx.color, err=True)
            ctx.exit(2)
        params = self.get_params(ctx)
        opts, rest, order = _Parser(ctx, params, self.allow_interspersed_args).parse(args)

        def sort_key(p: Parameter):
            try:
                idx: float = order.index(p)
            except ValueError:
                idx = float("inf")
            return not p.is_eager, idx

        for param in sorted(params, key=sort_key):
            param.handle_parse_result(ctx, opts)
        if rest and not isinstance(self, Group) and not ctx.resilient_parsing:
            ctx.fail("Got unexpected extra argument{} ({})".format(
                "s" if len(rest) != 1 else "", " ".join(map(str, rest))))  # fmt: skip
        ctx.args = rest
        return rest

    def invoke(self, ctx: Context):
        if self.callback is not None:
            return ctx.invoke(self.callback, **ctx.params)
        return None

    def main(self, args=None, prog_name=None, standalone_mode: bool = True, **extra: Any):
        if args is None:
            args = sys.argv[1:]
        else:
            args = list(args)
        if prog_name is None:
            prog_name = os.path.basename(sys.argv[0]) if sys.argv and sys.argv[0] else self.name
            main_mod = sys.modules.get("__main__")
            if prog_name == "__main__.py" and getattr(main_mod, "__package__", None):
                prog_name = f"python -m {main_mod.__package__}"
        try:
            try:
                with self.make_context(prog_name, args, **extra) as ctx:
                    rv = self.invoke(ctx)
                    if not standalone_mode:
                        return rv
                    ctx.exit()
            except (EOFError, KeyboardInterrupt) as e:
                echo(file=sys.stderr)
                raise Abort() from e
            except ClickException as e:
                if not standalone_mode:
                    raise
                e.show()
                sys.exit(e.exit_code)
        except Exit as e:
            if standalone_mode:
                sys.exit(e.exit_code)
            return e.exit_code
        except Abort:
            if not standalone_mode:
                raise
            echo("Aborted!", file=sys.stderr)
            sys.exit(1)

    def __call__(self, *args: Any, **kwargs: Any):
        return self.main(*args, **kwargs)


class Group(Command):
    allow_interspersed_args = False

    def __init__(self, name=None, commands=None, invoke_without_command=False,
                 no_args_is_help=None, subcommand_metavar=None, **attrs: Any) -> None:  # fmt: skip
        super().__init__(name, **attrs)
        if isinstance(commands, (list, tuple)):
            commands = {c.name: c for c in commands}
        self.commands: dict[str, Command] = dict(commands or {})
        if no_args_is_help is None:
            no_args_is_help = not invoke_without_command
        self.no_args_is_help, self.invoke_without_command = no_args_is_help, invoke_without_command
        self.subcommand_metavar = subcommand_metavar or "COMMAND [ARGS]..."

    def add_command(self, cmd: Command, name: str | None = None) -> None:
        name = name or cmd.name
        if name is None:
            raise TypeError("Command has no name.")
        self.commands[name] = cmd

    def command(self, *args: Any, **kwargs: Any):
        if len(args) == 1 and callable(args[0]) and not kwargs:
            cmd = command()(args[0])
            self.add_command(cmd)
            return cmd

        def decorator(f):
            cmd = command(*args, **kwargs)(f)
            self.add_command(cmd)
            return cmd

        return decorator

    def group(self, *args: Any, **kwargs: Any):
        if len(args) == 1 and callable(args[0]) and not kwargs:
            cmd = group()(args[0])
            self.add_command(cmd)
            return cmd

        def decorator(f):
            cmd = group(*args, **kwargs)(f)
            self.add_command(cmd)
            return cmd

        return decorator

    def get_command(self, ctx, cmd_name: str) -> Command | None:
        return self.commands.get(cmd_name)

    def list_commands(self, ctx) -> list[str]:
        return sorted(self.commands)

    def collect_usage_pieces(self, ctx) -> list[str]:
        return [*super().collect_usage_pieces(ctx), self.subcommand_metavar]

    def _help_sections(self, ctx) -> list[str]:
        sections = super()._help_sections(ctx)
        rows = [(n, c.get_short_help_str()) for n in self.list_commands(ctx)
                if (c := self.get_command(ctx, n)) is not None and not c.hidden]  # fmt: skip
        if rows:
            sections.append("Commands:\n" + _rows(rows))
        return sections

    def parse_args(self, ctx: Context, args: list[str]) -> list[str]:
        rest = super().parse_args(ctx, args)
        ctx._protected_args, ctx.args = rest[:1], rest[1:]
        return ctx.args

    def resolve_command(self, ctx: Context, args: list[str]):
        cmd_name = args[0]
        cmd = self.get_command(ctx, cmd_name)
        if cmd is None and ctx.token_normalize_func is not None:
            cmd_name = ctx.token_normalize_func(cmd_name)
            cmd = self.get_command(ctx, cmd_name)
        if cmd is None and not ctx.resilient_parsing:
            if _split_opt(cmd_name)[0]:
                _Parser(ctx, self.get_params(ctx), False).parse(args)  # raises NoSuchOption
            ctx.fail(f"No such command {args[0]!r}.")
        return (cmd_name if cmd else None), cmd, args[1:]

    def invoke(self, ctx: Context):
        if not ctx._protected_args:
            if self.invoke_without_command:
                with ctx:
                    return super().invoke(ctx)
            ctx.fail("Missing command.")
        args = [*ctx._protected_args, *ctx.args]
        ctx.args, ctx._protected_args = [], []
        with ctx:
            cmd_name, cmd, args = self.resolve_command(ctx, args)
            ctx.invoked_subcommand = cmd_name
            super().invoke(ctx)
            sub_ctx = cmd.make_context(cmd_name, args, parent=ctx)
            with sub_ctx:
                return sub_ctx.command.invoke(sub_ctx)


# ------------------------------------------------------------------------- decorators
def _param_memo(f, param: Parameter) -> None:
    if isinstance(f, Command):
        f.params.append(param)
    else:
        if not hasattr(f, "__click_params__"):
            f.__click_params__ = []
        f.__click_params__.append(param)


def _default_name(f) -> str:
    name = f.__name__.lower().replace("_", "-")
    head, _, suffix = name.rpartition("-")
    if head and suffix in {"command", "cmd", "group", "grp"}:
        name = head
    return name


def command(name=None, cls=None, **attrs: Any):
    func = None
    if callable(name) and not isinstance(name, str):
        func, name = name, None
    cls = cls or Command

    def decorator(f) -> Command:
        if isinstance(f, Command):
            raise TypeError("Attempted to convert a callback into a command twice.")
        attr_params = attrs.pop("params", None)
        params = list(attr_params) if attr_params is not None else []
        try:
            decorator_params = f.__click_params__
        except AttributeError:
            pass
        else:
            del f.__click_params__
            params.extend(reversed(decorator_params))
        if attrs.get("help") is None:
            attrs["help"] = f.__doc__
        cmd = cls(name=name or _default_name(f), callback=f, params=params, **attrs)
        cmd.__doc__ = f.__doc__
        return cmd

    return decorator(func) if func is not None else decorator


def group(name=None, cls=None, **attrs: Any):
    if callable(name) and not isinstance(name, str):
        return command(cls=cls or Group, **attrs)(name)
    return command(name, cls or Group, **attrs)


def option(*param_decls: str, cls=None, **attrs: Any):
    def decorator(f):
        _param_memo(f, (cls or Option)(param_decls, **attrs))
        return f

    return decorator


def argument(*param_decls: str, cls=None, **attrs: Any):
    def decorator(f):
        _param_memo(f, (cls or Argument)(param_decls, **attrs))
        return f

    return decorator


def pass_context(f):
    def new_func(*args: Any, **kwargs: Any):
        return f(get_current_context(), *args, **kwargs)

    return update_wrapper(new_func, f)


def pass_obj(f):
    def new_func(*args: Any, **kwargs: Any):
        return f(get_current_context().obj, *args, **kwargs)

    return update_wrapper(new_func, f)


def version_option(version=None, *param_decls: str, package_name=None, prog_name=None,
                   message=None, **kwargs: Any):  # fmt: skip
    if message is None:
        message = "%(prog)s, version %(version)s"
    if version is None and package_name is not None:
        import importlib.metadata

        version = importlib.metadata.version(package_name)

    def callback(ctx: Context, param: Parameter, value: bool) -> None:
        if not value or ctx.resilient_parsing:
            return
        prog = prog_name if prog_name is not None else ctx.find_root().info_name
        if version is None:
            raise RuntimeError("Could not determine the version; pass it explicitly.")
        echo(message % {"prog": prog, "package": package_name, "version": version},
             color=ctx.color)  # fmt: skip
        ctx.exit()

    if not param_decls:
        param_decls = ("--version",)
    kwargs.setdefault("is_flag", True)
    kwargs.setdefault("expose_value", False)
    kwargs.setdefault("is_eager", True)
    kwargs.setdefault("help", "Show the version and exit.")
    kwargs["callback"] = callback
    return option(*param_decls, **kwargs)


def help_option(*param_decls: str, **kwargs: Any):
    def callback(ctx: Context, param: Parameter, value: bool) -> None:
        if value and not ctx.resilient_parsing:
            echo(ctx.get_help(), color=ctx.color)
            ctx.exit()

    if not param_decls:
        param_decls = ("--help",)
    kwargs.setdefault("is_flag", True)
    kwargs.setdefault("expose_value", False)
    kwargs.setdefault("is_eager", True)
    kwargs.setdefault("help", "Show this message and exit.")
    kwargs["callback"] = callback
    return option(*param_decls, **kwargs)


from . import core, exceptions, types  # noqa: E402  (real submodules, like click)
