"""``click.testing`` of the verification-side click stand-in: ``CliRunner`` and ``Result``.

``CliRunner.invoke(cli, args, input=None, env=None, catch_exceptions=True, color=False)``
runs ``cli.main(args, prog_name=cli.name)`` with ``sys.stdin/stdout/stderr`` replaced and
returns a ``Result`` with ``exit_code``, ``output`` (stdout and stderr interleaved, as the
user would see them), ``stdout``, ``stderr``, ``exception``, ``exc_info``, ``return_value``.
Exactly like click: ``SystemExit`` is always swallowed (non-zero codes are stored in
``exception``); other exceptions are swallowed only when ``catch_exceptions`` is true.
"""

from __future__ import annotations

import contextlib
import io
import os
import shlex
import shutil
import sys
import tempfile
from typing import Any


class _Stream(io.StringIO):
    """A text stream that also records everything into a shared, interleaved buffer."""

    def __init__(self, shared: list[str]) -> None:
        super().__init__()
        self._shared = shared

    def write(self, s: str) -> int:
        self._shared.append(s)
        return super().write(s)

    def isatty(self) -> bool:
        return False


class Result:
    def __init__(self, runner, stdout, stderr, output, return_value, exit_code, exception,
                 exc_info=None) -> None:  # fmt: skip
        self.runner, self.stdout, self.stderr, self.output = runner, stdout, stderr, output
        self.return_value, self.exit_code = return_value, exit_code
        self.exception, self.exc_info = exception, exc_info

    @property
    def stdout_bytes(self) -> bytes:
        return self.stdout.encode(self.runner.charset)

    @property
    def stderr_bytes(self) -> bytes:
        return self.stderr.encode(self.runner.charset)

    def __repr__(self) -> str:
        exc_str = repr(self.exception) if self.exception else "okay"
        return f"<{type(self).__name__} {exc_str}>"


class CliRunner:
    def __init__(self, charset: str = "utf-8", env=None, echo_stdin: bool = False,
                 catch_exceptions: bool = True, **_ignored: Any) -> None:  # fmt: skip
        self.charset, self.env, self.echo_stdin = charset, dict(env or {}), echo_stdin
        self.catch_exceptions = catch_exceptions

    def get_default_prog_name(self, cli) -> str:
        return cli.name or "root"

    @contextlib.contextmanager
    def isolation(self, input=None, env=None, color: bool = False):
        if isinstance(input, bytes):
            input = input.decode(self.charset)
        elif input is not None and not isinstance(input, str):
            input = input.read()
            if isinstance(input, bytes):
                input = input.decode(self.charset)
        shared: list[str] = []
        out, err = _Stream(shared), _Stream(shared)
        saved = sys.stdin, sys.stdout, sys.stderr
        saved_env: dict[str, str | None] = {}
        new_env = {**self.env, **(env or {})}
        sys.stdin, sys.stdout, sys.stderr = io.StringIO(input or ""), out, err
        try:
            for key, value in new_env.items():
                saved_env[key] = os.environ.get(key)
                if value is None:
                    os.environ.pop(key, None)
                else:
                    os.environ[key] = value
            yield out, err, shared
        finally:
            for key, value in saved_env.items():
                if value is None:
                    os.environ.pop(key, None)
                else:
                    os.environ[key] = value
            sys.stdin, sys.stdout, sys.stderr = saved

    def invoke(self, cli, args=None, input=None, env=None, catch_exceptions=None,
               color: bool = False, **extra: Any) -> Result:  # fmt: skip
        if catch_exceptions is None:
            catch_exceptions = self.catch_exceptions
        exc_info = None
        with self.isolation(input=input, env=env, color=color) as (out, err, shared):
            return_value, exception, exit_code = None, None, 0
            if isinstance(args, str):
                args = shlex.split(args)
            prog_name = extra.pop("prog_name", None) or self.get_default_prog_name(cli)
            try:
                return_value = cli.main(args=args or (), prog_name=prog_name, **extra)
            except SystemExit as e:
                exc_info = sys.exc_info()
                code = e.code
                if code is None:
                    code = 0
                if code != 0:
                    exception = e
                if not isinstance(code, int):
                    sys.stdout.write(str(code))
                    sys.stdout.write("\n")
                    code = 1
                exit_code = code
            except Exception as e:
                if not catch_exceptions:
                    raise
                exception, exit_code, exc_info = e, 1, sys.exc_info()
            finally:
                sys.stdout.flush()
                sys.stderr.flush()
                stdout, stderr, output = out.getvalue(), err.getvalue(), "".join(shared)
        return Result(self, stdout, stderr, output, return_value, exit_code, exception, exc_info)

    @contextlib.contextmanager
    def isolated_filesystem(self, temp_dir=None):
        cwd = os.getcwd()
        path = tempfile.mkdtemp(dir=temp_dir)
        os.chdir(path)
        try:
            yield path
        finally:
            os.chdir(cwd)
            if temp_dir is None:
                shutil.rmtree(path, ignore_errors=True)
