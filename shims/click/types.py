"""``click.types`` of the verification-side click stand-in (see ``click/__init__.py``)."""

from . import (  # noqa: F401
    BOOL,
    FLOAT,
    INT,
    STRING,
    UNPROCESSED,
    Choice,
    ParamType,
    Path,
    convert_type,
)
