"""``click.exceptions`` of the verification-side click stand-in (see ``click/__init__.py``)."""

from . import (  # noqa: F401
    Abort,
    BadArgumentUsage,
    BadOptionUsage,
    BadParameter,
    ClickException,
    Exit,
    MissingParameter,
    NoSuchOption,
    UsageError,
)
