"""Conformance checks for the verification-side shims (toposort, click, jinja2, ruff).

Run as::

    PYTHONPATH=/repo:/verif/shims PATH=/verif/shims/bin:$PATH \
        /venv/bin/python /verif/shims/conformance.py [--full] [--only NAME ...] [--keep]

  a. toposort: exhaustive comparison with a direct specification (longest-path levels)
     on all dependency maps over <= 4 nodes (83521 maps), incl. cycle detection.
  b. code generation: every upstream fixture under /repo/tests/fixtures is regenerated
     through ``click.testing.CliRunner().invoke(xsdata.cli.cli, [...])`` (same arguments
     as /repo/tests/integration/test_*.py) into a scratch directory and compared with the
     committed file *modulo ruff* (formatting, import sorting, unused-import removal,
     pyupgrade rewrites that ruff applied to the committed files).
  c. hand-written unit checks of jinja2 (whitespace control, scoping, filters, real
     templates with small contexts) and click (option grammar, error reporting).

Exit code 0 iff everything conforms; one line is printed per check/fixture.
``stripe`` is the largest fixture; it is always run unless ``--fast`` is given.
"""

from __future__ import annotations

import argparse
import ast
import difflib
import importlib
import inspect
import itertools
import os
import re
import shutil
import sys
import tempfile
import time
import traceback
from pathlib import Path

REPO = Path("/repo")
FIX = REPO / "tests" / "fixtures"
FAILURES: list[str] = []


def report(ok: bool, name: str, detail: str = "") -> None:
    print(f"{'PASS' if ok else 'FAIL'} {name}{(' -- ' + detail) if detail else ''}", flush=True)
    if not ok:
        FAILURES.append(name)


# ============================================================================ a. toposort
def spec_levels(data: dict) -> tuple[list[set], dict]:
    """Direct specification: level(n) = 0 without deps, else 1 + max(level(dep))."""
    deps = {k: {d for d in v if d != k} for k, v in data.items()}
    for v in list(deps.values()):
        for d in v:
            deps.setdefault(d, set())
    level: dict = {}
    changed = True
    while changed:
        changed = False
        for node, ds in deps.items():
            if node not in level and all(d in level for d in ds):
                level[node] = 1 + max((level[d] for d in ds), default=-1)
                changed = True
    levels = [set() for _ in range(max(level.values(), default=-1) + 1)]
    for node, lv in level.items():
        levels[lv].add(node)
    rest = {n: {d for d in ds if d not in level} for n, ds in deps.items() if n not in level}
    return levels, rest


def check_toposort() -> None:
    from toposort import CircularDependencyError, toposort, toposort_flatten

    nodes = "abcd"
    subsets = [frozenset(c) for r in range(5) for c in itertools.combinations(nodes, r)]
    count = 0
    for keys in subsets:
        for combo in itertools.product(subsets, repeat=len(keys)):
            data = {k: set(v) for k, v in zip(sorted(keys), combo)}
            snapshot = {k: set(v) for k, v in data.items()}
            levels, rest = spec_levels(data)
            got, error = [], None
            try:
                for level in toposort(data):
                    got.append(level)
            except CircularDependencyError as e:
                error = e
            ok = got == levels and (error.data if error else {}) == rest and data == snapshot
            ok = ok and (error is None or isinstance(error, ValueError))
            try:
                flat = toposort_flatten(data)
                unsorted = toposort_flatten(data, sort=False)
                ok = ok and not rest and flat == [x for lv in levels for x in sorted(lv)]
                pos = 0
                for lv in levels:  # unsorted: each level is some permutation
                    ok = ok and set(unsorted[pos:pos + len(lv)]) == lv
                    pos += len(lv)
                ok = ok and pos == len(unsorted)
            except CircularDependencyError as e:
                ok = ok and bool(rest) and e.data == rest
            count += 1
            if not ok:
                report(False, "toposort", f"mismatch on {data!r}: got {got!r}/{error!r}, "
                       f"expected {levels!r}/{rest!r}")  # fmt: skip
                return
    ok = list(toposort({})) == [] and toposort_flatten({}) == []
    report(ok, "toposort", f"{count} dependency maps over <= 4 nodes")


# ================================================================== b. fixture generation
def fx(name: str, source: str, *options: str, files: list[str], slow: bool = False) -> dict:
    return {"name": name, "args": ["generate", str(FIX / source), *options], "files": files,
            "slow": slow}  # fmt: skip


FIXTURES = [
    fx("annotations", "annotations/model.xsd", f"--config={FIX / 'annotations/xsdata.xml'}",
       files=["annotations/__init__.py", "annotations/model.py", "annotations/units.py"]),
    fx("artists", "artists", "--package", "tests.fixtures.artists",
       files=["artists/__init__.py", "artists/metadata.py"]),
    fx("books", "books/schema.xsd", "--package", "tests.fixtures.books",
       "--structure-style=namespaces", "--docstring-style=Google",
       files=["books/__init__.py", "books/books.py"]),
    fx("calculator", "calculator/services.wsdl", "--package", "tests.fixtures.calculator",
       files=["calculator/__init__.py", "calculator/services.py"]),
    fx("compound", "compound/schema.xsd", "-p", "tests.fixtures.compound.models", "-ss",
       "single-package", "--compound-fields",
       files=["compound/__init__.py", "compound/models.py"]),
    fx("docstrings/rst", "docstrings/schema.xsd", "--package", "tests.fixtures.docstrings.rst",
       "--docstring-style", "reStructuredText",
       files=["docstrings/rst/__init__.py", "docstrings/rst/schema.py"]),
    fx("docstrings/numpy", "docstrings/schema.xsd", "--package",
       "tests.fixtures.docstrings.numpy", "--docstring-style", "NumPy",
       files=["docstrings/numpy/__init__.py", "docstrings/numpy/schema.py"]),
    fx("docstrings/google", "docstrings/schema.xsd", "--package",
       "tests.fixtures.docstrings.google", "--docstring-style", "Google",
       files=["docstrings/google/__init__.py", "docstrings/google/schema.py"]),
    fx("docstrings/accessible", "docstrings/schema.xsd", "--package",
       "tests.fixtures.docstrings.accessible", "--docstring-style", "Accessible",
       files=["docstrings/accessible/__init__.py", "docstrings/accessible/schema.py"]),
    fx("docstrings/blank", "docstrings/schema.xsd", "--package",
       "tests.fixtures.docstrings.blank", "--docstring-style", "Blank",
       files=["docstrings/blank/__init__.py", "docstrings/blank/schema.py"]),
    fx("dtd", "dtd/complete_example.dtd", "--package", "tests.fixtures.dtd.models",
       files=["dtd/models/__init__.py", "dtd/models/complete_example.py"]),
    fx("hello", "hello/hello.wsdl", "--package", "tests.fixtures.hello",
       files=["hello/__init__.py", "hello/hello.py"]),
    fx("primer", "primer/order.xsd", "--package", "tests.fixtures.primer", "--docstring-style",
       "NumPy", files=["primer/__init__.py", "primer/order.py"]),
    fx("series", "series/samples", "--package", "tests.fixtures.series",
       files=["series/__init__.py", "series/series.py"]),
    fx("wrapper", "wrapper/schema.xsd", "-p", "tests.fixtures.wrapper.models", "-ss",
       "single-package", "--wrapper-fields", "--compound-fields",
       files=["wrapper/__init__.py", "wrapper/models.py"]),
    fx("stripe", "stripe/samples", f"--config={FIX / 'stripe/.xsdata.xml'}", slow=True,
       files=["stripe/models/__init__.py", "stripe/models/balance.py"]),
]  # fmt: skip

STUB = "# nothing here\n"


class Normalizer(ast.NodeTransformer):
    """Undo what ``ruff check --fix`` (UP rules) / ``ruff format`` may do to a module."""

    def _doc(self, node):
        self.generic_visit(node)
        body = node.body
        if (body and isinstance(body[0], ast.Expr) and isinstance(body[0].value, ast.Constant)
                and isinstance(body[0].value.value, str)):  # fmt: skip
            text = inspect.cleandoc(body[0].value.value)
            text = "\n".join(line.rstrip() for line in text.splitlines())
            body[0].value = ast.Constant(value=text)
        return node

    visit_Module = visit_ClassDef = visit_FunctionDef = _doc


def split_module(source: str) -> tuple[set, ast.Module, set]:
    """Return (imports, normalised tree without imports, identifiers used in the body)."""
    tree = ast.parse(source)
    imports = set()
    body = []
    for node in tree.body:
        if isinstance(node, ast.Import):
            for alias in node.names:
                imports.add((0, None, alias.name, alias.asname))
        elif isinstance(node, ast.ImportFrom):
            for alias in node.names:
                imports.add((node.level, node.module, alias.name, alias.asname))
        else:
            body.append(node)
    tree.body = body
    used = set()
    for node in ast.walk(tree):
        if isinstance(node, ast.Name):
            used.add(node.id)
        elif isinstance(node, ast.Constant) and isinstance(node.value, str):
            used.update(re.findall(r"[A-Za-z_]\w*", node.value))  # quoted annotations, __all__
    tree = Normalizer().visit(tree)
    return imports, tree, used


def bound_name(imp: tuple) -> str:
    _, _, name, asname = imp
    return asname or name.split(".")[0]


def compare_sources(generated: str, committed: str, label: str) -> list[str]:
    problems = []
    try:
        g_imports, g_tree, g_used = split_module(generated)
    except SyntaxError as e:
        return [f"{label}: generated file is not valid python: {e}"]
    c_imports, c_tree, c_used = split_module(committed)
    keep = lambda imports, used: {  # noqa: E731  (ruff F401 removes unused imports)
        i for i in imports if bound_name(i) in used or i[1] == "__future__"
    }
    g_eff, c_eff = keep(g_imports, g_used), keep(c_imports, c_used)
    if g_eff != c_eff:
        problems.append(f"{label}: imports differ: only generated {sorted(map(str, g_eff - c_eff))}"
                        f", only committed {sorted(map(str, c_eff - g_eff))}")  # fmt: skip
    if ast.dump(g_tree) != ast.dump(c_tree):
        a = ast.unparse(c_tree).splitlines()
        b = ast.unparse(g_tree).splitlines()
        diff = list(difflib.unified_diff(a, b, f"committed/{label}", f"generated/{label}",
                                         lineterm="", n=2))  # fmt: skip
        if not diff:
            diff = ["(ast.dump differs but unparse is identical: constant types?)"]
        problems.append("\n".join(diff[:120]))
    return problems


def check_comparator() -> None:
    """The fixture comparison must not be vacuous: seeded differences have to be detected."""
    committed = (FIX / "primer" / "order.py").read_text()
    bad = []
    if compare_sources(committed, committed, "self"):
        bad.append("identical sources reported as different")
    reformatted = ast.unparse(ast.parse(committed)) + "\nimport os, sys as system\n"
    if compare_sources(reformatted, committed, "self"):
        bad.append("reformatting / unused imports reported as a difference")
    seeded = {
        "metadata value": ('"type": "Element"', '"type": "Attribute"'),
        "metadata key dropped": ('"namespace": "",', ""),
        "default": ('default="US"', 'default="UK"'),
        "field type": ("quantity: int", "quantity: str"),
        "class name": ("class Items:", "class Itemz:"),
        "Meta name": ('name = "purchaseOrder"', 'name = "purchaseorder"'),
        "docstring word": ("Parameters", "Parameterz"),
        "string quoting": ('r"\\d{3}-[A-Z]{2}"', 'r"\\\\d{3}-[A-Z]{2}"'),
        "used import removed": ("from xsdata.models.datatype import XmlDate\n", ""),
        "used import changed": ("from decimal import Decimal", "from fractions import Decimal"),
    }
    for what, (old, new) in seeded.items():
        if old not in committed:
            bad.append(f"self-test seed {what!r} does not apply to primer/order.py")
        elif not compare_sources(committed.replace(old, new, 1), committed, "self"):
            bad.append(f"seeded difference not detected: {what}")
    report(not bad, "fixture comparator self-test", f"{len(seeded) + 2} probes"
           + ("\n" + "\n".join(bad) if bad else ""))  # fmt: skip


def purge_modules() -> None:
    for name in [m for m in sys.modules if m == "tests" or m.startswith("tests.")]:
        del sys.modules[name]
    importlib.invalidate_caches()


def run_fixture(fixture: dict, scratch: Path) -> None:
    from click.testing import CliRunner

    from xsdata.cli import cli

    name = fixture["name"]
    workdir = scratch / name.replace("/", "_")
    workdir.mkdir(parents=True)
    saved_path, saved_cwd = list(sys.path), os.getcwd()
    started = time.monotonic()
    try:
        os.chdir(workdir)
        purge_modules()
        result = CliRunner().invoke(cli, fixture["args"])
    finally:
        os.chdir(saved_cwd)
        sys.path[:] = saved_path
        purge_modules()
    elapsed = time.monotonic() - started
    if result.exception is not None or result.exit_code != 0:
        trace = "".join(traceback.format_exception(*result.exc_info)) if result.exc_info else ""
        report(False, f"fixture {name}", f"exit code {result.exit_code}: {result.exception!r}\n"
               f"{result.output}\n{trace}")  # fmt: skip
        return
    warned = re.search(r"^Warnings: (\d+)$", result.output, re.M)  # codegen warnings are upstream's
    problems, compared = [], 0
    generated = sorted(p.relative_to(workdir) for p in workdir.rglob("*.py"))
    expected = {Path("tests/fixtures") / f for f in fixture["files"]}
    for rel in generated:
        text = (workdir / rel).read_text()
        if text == STUB and rel not in expected:
            continue  # package marker created by ensure_packages()
        committed = REPO / rel
        if not committed.exists():
            problems.append(f"{rel}: generated but not committed upstream")
            continue
        compared += 1
        problems.extend(compare_sources(text, committed.read_text(), str(rel)))
    missing = expected - set(generated)
    if missing:
        problems.append(f"expected files were not generated: {sorted(map(str, missing))}")
    report(not problems, f"fixture {name}", f"{compared} files compared, {elapsed:.1f}s"
           + (f", {warned.group(1)} codegen warnings" if warned else "")
           + ("\n" + "\n".join(problems) if problems else ""))  # fmt: skip


# ======================================================================= c. unit checks
def jinja_cases() -> list[tuple[str, str, dict, str]]:
    class Obj:
        def __init__(self, **kw):
            self.__dict__.update(kw)

    people = [Obj(name="b", city="X"), Obj(name="a", city="y"), Obj(name="c", city="x")]
    return [
        # --- whitespace control / trailing newline
        ("ws-plain", "a\n{% if x %}\nb\n{% endif %}\nc\n", {"x": 1}, "a\n\nb\n\nc"),
        ("ws-lstrip", "a\n{%- if x %}\nb\n{%- endif %}\nc", {"x": 1}, "a\nb\nc"),
        ("ws-rstrip", "a\n{% if x -%}\n  b\n{% endif -%}\n\n  c", {"x": 1}, "a\nb\nc"),
        ("ws-var", "a  {{- ' b ' -}}  c", {}, "a b c"),
        ("ws-set", "{% set x = 1 -%}\n\n  y{{ x }}", {}, "y1"),
        ("ws-trailing-nl", "x\n\n", {}, "x\n"),
        ("ws-trailing-crlf", "x\r\ny\r\n", {}, "x\ny"),
        ("ws-comment", "a {#- c -#} b{# d #} c", {}, "ab c"),
        ("ws-raw", "{% raw %}{{ x }}{% endraw %}|{% raw -%} {%a%} {%- endraw -%} z", {},
         "{{ x }}|{%a%}z"),
        ("ws-minus-glued", "{% set b = [1, 2] | join(', ')-%}\n {{ b }}", {}, "1, 2"),
        ("ws-false-branch", "a{% if x %}\n b{% endif %}\nc", {}, "a\nc"),
        # --- output of values
        ("out-undefined", "[{{ x }}][{{ x|default('d') }}][{{ d.k }}][{{ d['k'] }}]",
         {"d": {}}, "[][d][][]"),
        ("out-consts", "{{ none }} {{ None }} {{ true }} {{ False }} {{ 1.5 }}", {},
         "None None True False 1.5"),
        ("out-escapes", "{{ 'a\\nb' }}|{{ \"q\\\"q\" }}|{{ 'x' 'y' }}|{{ '\\u00e9' }}", {},
         'a\nb|q"q|xy|\u00e9'),
        ("out-containers", "{{ [1, 2, 3][1:] }} {{ (1,) }} {{ {'a': 1}.a }} {{ (1, 'b') }}",
         {}, "[2, 3] (1,) 1 (1, 'b')"),
        # --- expressions
        ("expr-math", "{{ 1 + 2 * 3 }} {{ 2 ** 3 ** 2 }} {{ 7 // 2 }} {{ 7 % 4 }} {{ -3|abs }}"
         " {{ 10 - 2 - 3 }}", {}, "7 64 3 3 3 5"),
        ("expr-concat", "{{ 'a' ~ 1 ~ none }} {{ 'a' + 'b' ~ 'c' * 2 }}", {}, "a1None abcc"),
        ("expr-logic", "{{ x or 'y' }} {{ 1 and 2 }} {{ not x }} {{ not x is none }}"
         " {{ 1 < 2 < 3 }} {{ 1 < 2 > 5 }} {{ 2 in [1, 2] }} {{ 2 not in [1, 2] }}",
         {}, "y 2 True True True False True False"),
        ("expr-cond", "[{{ 1 if false }}][{{ 'a' if x else 'b' }}][{{ '({})'.format(b) if b }}]"
         "[{{ 1 if false else 2 if false else 3 }}]", {"b": "B"}, "[][b][(B)][3]"),
        ("expr-tests", "{{ x is none }} {{ x is not none }} {{ y is defined }} {{ 4 is even }}"
         " {{ 9 is divisibleby 3 }} {{ 'a' is string }} {{ x is none or y is none }}",
         {"x": None}, "True False False True True True True"),
        ("expr-access", "{{ items[0].name }} {{ items[1]['name'] }} {{ items|length }} "
         "{{ d.key }} {{ d['key'] }} {{ 'ab'.upper() }} {{ '{}-{k}'.format(1, k=2) }}",
         {"items": people, "d": {"key": "v"}}, "b a 3 v v AB 1-2"),
        ("expr-filter-prec", "{{ 'a' + 'b'|upper }} {{ ('a' + 'b')|upper }} {{ 1 + '2'|int }}",
         {}, "aB AB 3"),
        # --- filters
        ("f-indent", "{{ t|indent(4) }}|{{ t|indent(2, first=True) }}|{{ t|indent(1, blank=True) }}"
         "|{{ t|indent }}|{{ t|indent(width=2, first=true) }}", {"t": "a\nb\n\nc"},
         "a\n    b\n\n    c|  a\n  b\n\n  c|a\n b\n \n c|a\n    b\n\n    c|  a\n  b\n\n  c"),
        ("f-indent-trailing", "[{{ 'a\\n'|indent(2) }}][{{ 'a\\n'|indent(2, blank=True) }}]"
         "[{{ ''|indent(2, first=True) }}]", {}, "[a\n][a\n  ][  ]"),
        ("f-default", "{{ x|default(0) }} {{ ''|default('e') }} {{ ''|default('e', true) }}"
         " {{ none|default('n') }} {{ level|default(0) + 1 }}", {}, "0  e None 1"),
        ("f-join", "{{ [1, 2]|join(', ') }}|{{ []|join(',') }}|{{ items|join('-', attribute='name') }}"
         "|{{ [1, 2]|join }}", {"items": people}, "1, 2||b-a-c|12"),
        ("f-misc", "{{ ' a '|trim }}|{{ 'aXa'|replace('a', 'b') }}|{{ '%s-%s'|format(1, 2) }}|"
         "{{ [3, 4]|first }}{{ [3, 4]|last }}|{{ 'ab'|list }}|{{ 5|string + '1' }}|{{ 'Ab'|upper }}"
         "{{ 'Ab'|lower }}|{{ []|first }}|{{ 'ab'|length }}", {},
         "a|bXb|1-2|34|['a', 'b']|51|ABab||2"),
        ("f-groupby", "{% for city, group in items|groupby('city') %}{{ city }}="
         "{{ group|join(',', attribute='name') }};{% endfor %}"
         "{% for g in items|groupby('city') %}{{ g.grouper }}{{ g.list|length }}{% endfor %}",
         {"items": people}, "X=b,c;y=a;X2y1"),
        ("f-block", "{% filter upper|replace('B', 'x') %}ab{{ 1 }}{% endfilter %}", {}, "Ax1"),
        # --- statements and scoping
        ("s-for", "{% for a, b in [(1, 2), (3, 4)] if a > 1 %}{{ loop.index }}:{{ a }}-{{ b }}"
         "{% else %}none{% endfor %}|{% for x in [] %}x{% else %}empty{% endfor %}|"
         "{% for x in 'ab' %}{{ x }}{{ ',' if not loop.last }}{% endfor %}|"
         "{% for k, v in d.items() %}{{ k }}{{ v }}{% endfor %}|{% for x in missing %}x{% endfor %}",
         {"d": {"a": 1}}, "1:3-4|empty|a,b|a1|"),
        ("s-for-scope", "{% set x = 0 %}{% for i in [1, 2] %}{% set x = i %}{{ x }}{% endfor %}"
         "{{ x }}", {}, "120"),
        ("s-if-scope", "{% if true %}{% set x = 5 %}{% endif %}{{ x }}"
         "{% if false %}a{% elif x == 5 %}b{% else %}c{% endif %}", {}, "5b"),
        ("s-with", "{% set a = 1 %}{% with a = 2, b = (a + 10) %}{{ a }},{{ b }}"
         "{% set c = 3 %}{% endwith %},{{ a }},[{{ c }}]", {}, "2,11,1,[]"),
        ("s-set-block", "{% set t | upper %} ab{{ 1 }}\n{% endset %}[{{ t }}]"
         "{% set u %}x{% endset %}{{ u }}{% set p, q = 1, 2 %}{{ q }}{{ p }}", {},
         "[ AB1\n]x21"),
        ("s-include", "{% set top = 'T' %}{% include 'inc' %}|{% with v = 'W' %}"
         "{% include 'i' ~ 'nc' %}{% endwith %}|{% for v in 'L' %}{% include 'inc' %}"
         "{% endfor %}|{{ inner }}|{% include 'nope' ignore missing %}"
         "{% include 'inc' without context %}", {"v": "C"}, "TCG|TWG|TLG||G"),
    ]  # fmt: skip


def check_jinja() -> None:
    import jinja2

    loader = jinja2.DictLoader({"inc": "{% set inner = 1 %}{{ top }}{{ v }}{{ g }}\n"})
    env = jinja2.Environment(loader=loader)
    env.globals["g"] = "G"
    bad = []
    for name, source, context, expected in jinja_cases():
        try:
            got = env.from_string(source).render(**context)
        except Exception as e:
            got = f"<{type(e).__name__}: {e}>"
        if got != expected:
            bad.append(f"{name}: expected {expected!r}, got {got!r}")
    for source, exc in [("{{ x.y }}", jinja2.UndefinedError), ("{% if %}", jinja2.TemplateSyntaxError),
                        ("{{ 1|nofilter }}", jinja2.TemplateSyntaxError),
                        ("{% for x in y %}", jinja2.TemplateSyntaxError),
                        ("{% include 'nope' %}", jinja2.TemplateNotFound),
                        ("{{ x + 1 }}", jinja2.UndefinedError)]:  # fmt: skip
        try:
            env.from_string(source).render()
            bad.append(f"{source!r}: expected {exc.__name__}")
        except exc:
            pass
        except Exception as e:
            bad.append(f"{source!r}: expected {exc.__name__}, got {type(e).__name__}: {e}")
    report(not bad, "jinja2 unit checks", f"{len(jinja_cases()) + 6} cases"
           + ("\n" + "\n".join(bad) if bad else ""))  # fmt: skip


def check_real_templates() -> None:
    """Render xsdata's own templates with small contexts; expectations traced by hand."""
    from xsdata.codegen.models import Import
    from xsdata.formats.dataclass.generator import DataclassGenerator
    from xsdata.models.config import DocstringStyle, GeneratorConfig
    from xsdata.models.enums import DataType, Tag
    from xsdata.utils.testing import AttrFactory, AttrTypeFactory, ClassFactory

    bad = []

    def expect(name: str, got: str, expected: str) -> None:
        if got != expected:
            diff = "\n".join(difflib.unified_diff(expected.splitlines(), got.splitlines(),
                                                  "expected", "got", lineterm=""))  # fmt: skip
            bad.append(f"{name}: expected {expected!r}\n      got {got!r}\n{diff}")

    config = GeneratorConfig()
    gen = DataclassGenerator(config)
    imports = [
        Import(qname="{a}foo_bar", source="pkg.mod_a"),
        Import(qname="{a}one", source="pkg.mod_b"),
        Import(qname="{a}two", source="pkg.mod_b", alias="b:two"),
    ]
    expected_imports = ("from pkg.mod_a import FooBar\n"
                        "from pkg.mod_b import (\n    One,\n    Two as BTwo,\n)\n")  # fmt: skip
    expect("imports.jinja2", gen.env.get_template("imports.jinja2").render(
        imports=imports, module="pkg"), expected_imports)  # fmt: skip
    expect("package.jinja2", gen.env.get_template("package.jinja2").render(
        imports=imports, module="pkg"),
        expected_imports + '\n__all__ = [\n    "FooBar",\n    "One",\n    "BTwo",\n]')  # fmt: skip
    expect("package.jinja2 (empty)", gen.env.get_template("package.jinja2").render(
        imports=[], module="pkg"), "\n__all__ = [\n]")  # fmt: skip
    future = gen.filters.default_imports("class A:\n    pass")  # xsdata's own filter
    expect("module.jinja2", gen.env.get_template("module.jinja2").render(
        output="class A:\n    pass", imports=imports[:1], module="pkg.x", namespace="urn:x"),
        future + '\nfrom pkg.mod_a import FooBar\n\n__NAMESPACE__ = "urn:x"\n\n\nclass A:\n    pass')  # fmt: skip
    expect("module.jinja2 (no namespace)", gen.env.get_template("module.jinja2").render(
        output="X = 1", imports=[], module="pkg.x", namespace=None),
        gen.filters.default_imports("X = 1") + "\n\n\nX = 1")  # fmt: skip

    string = AttrTypeFactory.native(DataType.STRING)
    service = ClassFactory.create(
        qname="{urn:s}my_service", tag=Tag.BINDING_OPERATION,
        attrs=[AttrFactory.create(name="style", default="rpc", types=[string], tag=Tag.ANY),
               AttrFactory.create(name="location", default="http://x", types=[string], tag=Tag.ANY)],
    )  # fmt: skip
    expect("service.jinja2", gen.env.get_template("service.jinja2").render(obj=service),
           'class MyService:\n    style = "rpc"\n    location = "http://x"')  # fmt: skip

    # NB: the text produced *by xsdata's filters* (docstring layout, quoting of defaults) is
    # taken as is; what is checked here is the whitespace the template engine puts around it.
    enum = ClassFactory.create(
        qname="{urn:s}color", tag=Tag.SIMPLE_TYPE, help="The colors",
        attrs=[AttrFactory.enumeration(name="red", default="r", types=[string], help="Red!"),
               AttrFactory.enumeration(name="dark blue", default="db", types=[string])],
    )  # fmt: skip
    expect("enum.jinja2 (rst)", gen.env.get_template("enum.jinja2").render(obj=enum),
           '\n\nclass Color(Enum):\n    """\n    The colors.\n\n    :cvar RED: Red!\n'
           '    :cvar DARK_BLUE:\n    """\n'
           "    RED = 'r'\n    DARK_BLUE = 'db'")  # fmt: skip
    config_acc = GeneratorConfig()
    config_acc.output.docstring_style = DocstringStyle.ACCESSIBLE
    gen_acc = DataclassGenerator(config_acc)
    expect("enum.jinja2 (accessible)", gen_acc.env.get_template("enum.jinja2").render(obj=enum),
           '\n\nclass Color(Enum):\n    """\n    The colors.\n    """\n'
           "    RED = 'r'\n    DARK_BLUE = 'db'\n\n\nColor.RED.__doc__ = \"Red!\"")  # fmt: skip
    expect("enum.jinja2 (accessible, nested)", gen_acc.env.get_template("enum.jinja2").render(
        obj=enum, level=1),
           '\n\nclass Color(Enum):\n    """\n    The colors.\n    """\n'
           "    RED = 'r'\n    DARK_BLUE = 'db'\n\nColor.RED.__doc__ = \"Red!\"")  # fmt: skip
    config_blank = GeneratorConfig()
    config_blank.output.docstring_style = DocstringStyle.BLANK
    gen_blank = DataclassGenerator(config_blank)
    expect("enum.jinja2 (blank)", gen_blank.env.get_template("enum.jinja2").render(obj=enum),
           "\n\nclass Color(Enum):\n    RED = 'r'\n    DARK_BLUE = 'db'")  # fmt: skip

    inner = ClassFactory.create(qname="{urn:s}inner", tag=Tag.COMPLEX_TYPE, local_type=True,
                                attrs=[], namespace=None)  # fmt: skip
    outer = ClassFactory.create(
        qname="{urn:s}outer", tag=Tag.ELEMENT, namespace="urn:s", module="m", package="p",
        attrs=[AttrFactory.native(DataType.INT, name="count", tag=Tag.ATTRIBUTE)], inner=[inner],
    )  # fmt: skip
    expect("class.jinja2 (blank, inner class)",
           gen_blank.env.get_template("class.jinja2").render(obj=outer, module_namespace="urn:s"),
           '\n\n@dataclass(kw_only=True)\nclass Outer:\n    class Meta:\n        name = "outer"\n'
           '        namespace = "urn:s"\n\n'
           '    count: int = field(\n        metadata={\n            "type": "Attribute",\n'
           '        }\n    )'
           '\n\n    @dataclass(kw_only=True)\n    class Inner:\n        pass')  # fmt: skip
    report(not bad, "real templates with small contexts", "12 renderings"
           + ("\n" + "\n".join(bad) if bad else ""))  # fmt: skip


def check_click() -> None:
    import click
    from click.testing import CliRunner

    seen: dict = {}

    @click.group()
    @click.pass_context
    @click.version_option("1.2.3")
    def root(ctx, **kwargs):
        """Root group."""
        seen["root"] = kwargs
        ctx.call_on_close(lambda: seen.setdefault("closed", True))

    @root.command("run")
    @click.argument("source", required=True)
    @click.argument("rest", nargs=-1)
    @click.option("-r", "--recursive", is_flag=True, default=False, help="Recurse")
    @click.option("-c", "--config", default=".x.xml", help="Config")
    @click.option("--compound-fields/--no-compound-fields", "cf__enabled", default=None)
    @click.option("--structure-style", "-ss", "structure", type=click.Choice(["a", "b-c"]))
    @click.option("--max-line-length", "-mll", "mll", type=int, default=None)
    @click.option("-t", "--tag", multiple=True)
    @click.option("-o", "--output", type=click.Path(), default="./")
    def run(**kwargs):
        """Run it."""
        seen["run"] = kwargs
        if kwargs["source"] == "boom":
            raise click.ClickException("it broke")
        if kwargs["source"] == "crash":
            raise RuntimeError("crashed")
        click.echo(click.style("done", fg="red", bold=True))
        click.echo("to-stderr", err=True)

    bad = []

    def case(args, exit_code=0, out=None, **params):
        seen.clear()
        result = CliRunner().invoke(root, args)
        if result.exit_code != exit_code:
            bad.append(f"{args}: exit code {result.exit_code} != {exit_code}\n{result.output}")
        if out is not None and out not in result.output:
            bad.append(f"{args}: {out!r} not in output {result.output!r}")
        for key, value in params.items():
            got = seen.get("run", {}).get(key, "<unset>")
            if got != value:
                bad.append(f"{args}: param {key} = {got!r}, expected {value!r}")
        return result

    case(["run", "src"], source="src", rest=(), recursive=False, config=".x.xml", cf__enabled=None,
         structure=None, mll=None, tag=(), output="./", out="done\nto-stderr\n")  # fmt: skip
    case(["run", "--compound-fields", "src", "-ss", "b-c", "extra", "-mll=10", "more"],
         cf__enabled=True, structure="b-c", mll=10, rest=("extra", "more"))  # fmt: skip
    case(["run", "--no-compound-fields", "--structure-style=a", "--max-line-length", "7", "s"],
         cf__enabled=False, structure="a", mll=7)  # fmt: skip
    case(["run", "-rc", "cfg", "-ofoo", "-t", "1", "--tag=2", "s"], recursive=True, config="cfg",
         output="foo", tag=("1", "2"))  # fmt: skip
    case(["run", "--", "-r"], source="-r", recursive=False)
    case(["run", "-c", "--recursive", "s"], config="--recursive", recursive=False)
    case(["run"], 2, "Usage: root run [OPTIONS] SOURCE [REST]...\nTry 'root run --help' for help."
         "\n\nError: Missing argument 'SOURCE'.")  # fmt: skip
    case(["run", "s", "-ss", "zz"], 2, "Error: Invalid value for '--structure-style' / '-ss': "
         "'zz' is not one of 'a', 'b-c'.")  # fmt: skip
    case(["run", "s", "-mll", "x"], 2, "Invalid value for '--max-line-length' / '-mll': 'x' is not "
         "a valid integer.")  # fmt: skip
    case(["run", "s", "--nope"], 2, "Error: No such option: --nope")
    case(["run", "s", "--recursive=1"], 2, "Error: Option '--recursive' does not take a value.")
    case(["run", "s", "--config"], 2, "Error: Option '--config' requires an argument.")
    case(["nope"], 2, "Error: No such command 'nope'.")
    case(["--version"], 0, "root, version 1.2.3\n")
    case(["run", "--help"], 0, "Usage: root run [OPTIONS] SOURCE [REST]...\n\n  Run it.\n\nOptions:")
    case(["--help"], 0, "Commands:\n  run  Run it.")
    case(["run", "boom"], 1, "Error: it broke\n")
    result = case(["run", "crash"], 1)
    if not isinstance(result.exception, RuntimeError) or not seen.get("closed"):
        bad.append(f"crash: exception {result.exception!r}, closed={seen.get('closed')}")
    try:
        CliRunner().invoke(root, ["run", "crash"], catch_exceptions=False)
        bad.append("catch_exceptions=False did not propagate")
    except RuntimeError:
        pass
    result = case(["run", "s", "-ss", "zz"], 2)
    if not isinstance(result.exception, SystemExit):
        bad.append(f"usage error: result.exception is {result.exception!r}, expected SystemExit")
    if "\x1b" in case(["run", "s"]).output:
        bad.append("ANSI codes were not stripped from non-tty output")
    if click.style("x", fg="red") != "\x1b[31mx\x1b[0m" or click.style("x", bold=True) != "\x1b[1mx\x1b[0m":
        bad.append("style() escape sequences")
    report(not bad, "click unit checks", "24 invocations" + ("\n" + "\n".join(bad) if bad else ""))


def check_imports() -> None:
    bad = []
    for module in ("xsdata.cli", "xsdata.utils.click", "xsdata.codegen.exceptions",
                   "xsdata.formats.dataclass.transports", "xsdata.formats.dataclass.client",
                   "xsdata.codegen.transformer", "xsdata.formats.dataclass.generator"):  # fmt: skip
        try:
            importlib.import_module(module)
        except Exception as e:
            bad.append(f"{module}: {type(e).__name__}: {e}")
    for name in ("toposort", "click", "jinja2", "requests"):
        origin = getattr(importlib.import_module(name), "__file__", "") or ""
        if not origin.startswith("/verif/shims/"):
            print(f"NOTE {name} resolves to {origin} (a real installation wins over the shim)")
    import subprocess

    try:
        subprocess.run(["ruff", "format", "x"], capture_output=True, check=True)
    except Exception as e:
        bad.append(f"ruff stand-in not runnable: {e!r} (is /verif/shims/bin on PATH?)")
    report(not bad, "imports and ruff stand-in", "; ".join(bad))


def main() -> int:
    parser = argparse.ArgumentParser(description=__doc__.split("\n")[0])
    parser.add_argument("--fast", action="store_true", help="skip the slow `stripe` fixture")
    parser.add_argument("--full", action="store_true", help="run everything (the default)")
    parser.add_argument("--only", nargs="*", help="only run these fixtures")
    parser.add_argument("--keep", action="store_true", help="keep the scratch directory")
    options = parser.parse_args()

    started = time.monotonic()
    check_imports()
    if not options.only:
        check_toposort()
        check_click()
        check_jinja()
        check_real_templates()
        check_comparator()
    scratch = Path(tempfile.mkdtemp(prefix="xsdata-shim-conformance-"))
    try:
        for fixture in FIXTURES:
            if options.only and fixture["name"] not in options.only:
                continue
            if fixture["slow"] and options.fast and not options.only:
                print(f"SKIP fixture {fixture['name']} (--fast)")
                continue
            run_fixture(fixture, scratch)
    finally:
        if options.keep:
            print(f"scratch directory kept: {scratch}")
        else:
            shutil.rmtree(scratch, ignore_errors=True)
    print(f"{'FAILED: ' + ', '.join(FAILURES) if FAILURES else 'ALL CONFORM'}"
          f" ({time.monotonic() - started:.1f}s)")  # fmt: skip
    return 1 if FAILURES else 0


if __name__ == "__main__":
    sys.exit(main())
