"""Lexer and parser of the verification-side Jinja2 stand-in.

The parser follows the grammar (and operator precedence) of ``jinja2.parser.Parser`` and
directly produces Python closures: expressions are ``fn(scope) -> value`` and statements
are ``fn(scope, out)`` where ``out`` is a list of output strings.
"""

from __future__ import annotations

import operator
import re
from typing import Any, Callable, NamedTuple

from .exceptions import TemplateAssertionError, TemplateNotFound, TemplateSyntaxError
from .runtime import LoopContext, Scope, getattr_, getitem_

# ------------------------------------------------------------------------------ lexer
_newline_re = re.compile(r"(\r\n|\r|\n)")
_tag_re = re.compile(r"\{([%{#])")
_raw_re = re.compile(r"\{%([-+]?)\s*raw\s*(-?)%\}")
_endraw_re = re.compile(r"\{%([-+]?)\s*endraw\s*([-+]?)%\}")
_ws_re = re.compile(r"\s+")
_float_re = re.compile(
    r"(?<!\.)(\d+_)*\d+((\.(\d+_)*\d+)?e[+\-]?(\d+_)*\d+|\.(\d+_)*\d+)", re.IGNORECASE
)
_int_re = re.compile(
    r"(0b(_?[0-1])+|0o(_?[0-7])+|0x(_?[\da-f])+|[1-9](_?\d)*|0(_?0)*)", re.IGNORECASE
)
_name_re = re.compile(r"[^\W\d]\w*")
_string_re = re.compile(r"('([^'\\]*(?:\\.[^'\\]*)*)'|\"([^\"\\]*(?:\\.[^\"\\]*)*)\")", re.S)
_op_re = re.compile(r"//|\*\*|==|!=|>=|<=|[-+*/%~\[\](){}<>=.:|,;]")
_end_re = {"%": re.compile(r"([-+]?)%\}"), "{": re.compile(r"(-?)\}\}")}
_begin_name = {"%": "block_begin", "{": "variable_begin"}
_end_name = {"%": "block_end", "{": "variable_end"}
_closing = {")": "(", "]": "[", "}": "{"}


class Token(NamedTuple):
    type: str
    value: Any
    pos: int

    def describe(self) -> str:
        if self.type == "eof":
            return "end of template"
        if self.type in ("block_begin", "block_end", "variable_begin", "variable_end"):
            return {"block_begin": "begin of statement block", "block_end": "end of statement block",
                    "variable_begin": "begin of print statement",
                    "variable_end": "end of print statement"}[self.type]  # fmt: skip
        if self.type == "data":
            return "template data / text"
        return str(self.value) if self.type in ("name", "op") else self.type


def tokenize(source: str, name: str | None, filename: str | None,
             keep_trailing_newline: bool = False) -> tuple[list[Token], str]:  # fmt: skip
    lines = _newline_re.split(source)[::2]
    if not keep_trailing_newline and lines[-1] == "":
        del lines[-1]
    source = "\n".join(lines)

    def fail(msg: str, pos: int):
        raise TemplateSyntaxError(msg, source.count("\n", 0, pos) + 1, name, filename)

    tokens: list[Token] = []
    pos, strip_next, end = 0, False, len(source)
    while pos <= end:
        m = _tag_re.search(source, pos)
        data = source[pos:m.start() if m else end]
        if strip_next:
            data = data.lstrip()
            strip_next = False
        if m and source[m.end():m.end() + 1] == "-":
            data = data.rstrip()
        if data:
            tokens.append(Token("data", data, pos))
        if not m:
            break
        kind, p = m.group(1), m.end()
        if kind == "#":
            close = source.find("#}", p)
            if close < 0:
                fail("Missing end of comment tag", m.start())
            strip_next = close > p and source[close - 1] == "-"
            pos = close + 2
            continue
        raw = _raw_re.match(source, m.start()) if kind == "%" else None
        if raw:
            endraw = _endraw_re.search(source, raw.end())
            if not endraw:
                fail("Missing end of raw directive", m.start())
            inner = source[raw.end():endraw.start()]
            if raw.group(2) == "-":
                inner = inner.lstrip()
            if endraw.group(1) == "-":
                inner = inner.rstrip()
            if inner:
                tokens.append(Token("data", inner, raw.end()))
            strip_next = endraw.group(2) == "-"
            pos = endraw.end()
            continue
        if source[p:p + 1] in ("-", "+"):
            p += 1
        tokens.append(Token(_begin_name[kind], None, m.start()))
        stack: list[str] = []
        while True:
            w = _ws_re.match(source, p)
            if w:
                p = w.end()
            if p >= end:
                fail("unexpected end of template, expected "
                     f"'{'%}' if kind == '%' else '}}'}'.", m.start())  # fmt: skip
            if not stack:
                e = _end_re[kind].match(source, p)
                if e:
                    tokens.append(Token(_end_name[kind], None, p))
                    strip_next = e.group(1) == "-"
                    pos = e.end()
                    break
            for ttype, regex in (("float", _float_re), ("integer", _int_re), ("name", _name_re),
                                 ("string", _string_re), ("op", _op_re)):  # fmt: skip
                t = regex.match(source, p)
                if t:
                    break
            else:
                fail(f"unexpected char {source[p]!r} at {p}", p)
            text = t.group()
            value: Any = text
            if ttype == "string":
                try:
                    value = text[1:-1].encode("ascii", "backslashreplace").decode("unicode-escape")
                except Exception as exc:
                    fail(str(exc).split(":")[-1].strip(), p)
            elif ttype == "integer":
                value = int(text.replace("_", ""), 0)
            elif ttype == "float":
                value = float(text.replace("_", ""))
            elif ttype == "name" and not text.isidentifier():
                fail("Invalid character in identifier", p)
            elif ttype == "op":
                if text in "([{":
                    stack.append(text)
                elif text in ")]}":
                    if not stack:
                        fail(f"unexpected '{text}'", p)
                    expected = stack.pop()
                    if expected != _closing[text]:
                        fail(f"unexpected '{text}', expected closing of '{expected}'", p)
            tokens.append(Token(ttype, value, p))
            p = t.end()
    tokens.append(Token("eof", None, end))
    return tokens, source


# ----------------------------------------------------------------------------- parser
_CMP = {"==": operator.eq, "!=": operator.ne, "<": operator.lt, "<=": operator.le,
        ">": operator.gt, ">=": operator.ge}  # fmt: skip
_CONSTS = {"true": True, "True": True, "false": False, "False": False, "none": None, "None": None}
_UNSUPPORTED = {"block", "extends", "macro", "call", "import", "from", "autoescape", "do",
                "trans", "pluralize", "break", "continue", "debug"}  # fmt: skip
Expr = Callable[[Scope], Any]
Stmt = Callable[[Scope, list], None]


def _run(body: list[Stmt], scope: Scope, out: list) -> None:
    for stmt in body:
        stmt(scope, out)


def _assign(vars_: dict, target: Any, value: Any) -> None:
    if isinstance(target, str):
        vars_[target] = value
        return
    values = list(value)
    if len(values) > len(target):
        raise ValueError(f"too many values to unpack (expected {len(target)})")
    if len(values) < len(target):
        raise ValueError(f"not enough values to unpack (expected {len(target)}, got {len(values)})")
    for sub, item in zip(target, values):
        _assign(vars_, sub, item)


class Parser:
    def __init__(self, env, source: str, name: str | None = None, filename: str | None = None):
        self.env, self.name, self.filename = env, name, filename
        self.tokens, self.source = tokenize(source, name, filename, env.keep_trailing_newline)
        self.i = 0

    # -- token helpers --------------------------------------------------------
    @property
    def cur(self) -> Token:
        return self.tokens[self.i]

    def look(self) -> Token:
        return self.tokens[min(self.i + 1, len(self.tokens) - 1)]

    def next(self) -> Token:
        tok = self.tokens[self.i]
        if tok.type != "eof":
            self.i += 1
        return tok

    def fail(self, msg: str, tok: Token | None = None, exc=TemplateSyntaxError):
        pos = (tok or self.cur).pos
        raise exc(msg, self.source.count("\n", 0, pos) + 1, self.name, self.filename)

    def is_op(self, *values: str) -> bool:
        return self.cur.type == "op" and self.cur.value in values

    def is_name(self, *values: str) -> bool:
        return self.cur.type == "name" and self.cur.value in values

    def skip_op(self, value: str) -> bool:
        if self.is_op(value):
            self.i += 1
            return True
        return False

    def skip_name(self, value: str) -> bool:
        if self.is_name(value):
            self.i += 1
            return True
        return False

    def expect(self, ttype: str, value: Any = None) -> Token:
        tok = self.cur
        if tok.type != ttype or (value is not None and tok.value != value):
            wanted = repr(value) if value is not None else Token(ttype, None, 0).describe()
            if tok.type == "eof":
                self.fail(f"unexpected end of template, expected {wanted}.")
            self.fail(f"expected token {wanted}, got {tok.describe()!r}")
        return self.next()

    # -- template structure ---------------------------------------------------
    def parse(self) -> list[Stmt]:
        body = self.subparse()
        if self.cur.type != "eof":  # pragma: no cover - subparse only stops at eof here
            self.fail(f"unexpected {self.cur.describe()!r}")
        return body

    def subparse(self, end_tokens: tuple[str, ...] | None = None) -> list[Stmt]:
        body: list[Stmt] = []
        while self.cur.type != "eof":
            tok = self.cur
            if tok.type == "data":
                self.next()
                body.append(lambda scope, out, text=tok.value: out.append(text))
            elif tok.type == "variable_begin":
                self.next()
                expr = self.parse_tuple(with_condexpr=True)
                self.expect("variable_end")
                body.append(lambda scope, out, expr=expr: out.append(str(expr(scope))))
            elif tok.type == "block_begin":
                self.next()
                if end_tokens is not None and self.is_name(*end_tokens):
                    return body
                body.append(self.parse_statement(end_tokens))
                self.expect("block_end")
            else:  # pragma: no cover
                raise AssertionError("internal parsing error")
        return body

    def parse_statements(self, end_tokens: tuple[str, ...], drop_needle: bool = False) -> list[Stmt]:
        self.skip_op(":")
        self.expect("block_end")
        result = self.subparse(end_tokens)
        if self.cur.type == "eof":
            expected = " or ".join(repr(x) for x in end_tokens)
            self.fail(f"Unexpected end of template. Jinja was looking for the following tags: "
                      f"{expected}.")  # fmt: skip
        if drop_needle:
            self.next()
        return result

    def parse_statement(self, end_tokens: tuple[str, ...] | None) -> Stmt:
        tok = self.cur
        if tok.type != "name":
            self.fail("tag name expected")
        handler = getattr(self, f"parse_{tok.value}_tag", None)
        if handler is not None:
            self.next()
            return handler()
        if tok.value in _UNSUPPORTED:
            self.fail(f"tag {tok.value!r} is not supported by the verification-side jinja2 stand-in")
        if end_tokens:
            expected = " or ".join(repr(x) for x in end_tokens)
            self.fail(f"Encountered unknown tag {tok.value!r}. Jinja was looking for the following "
                      f"tags: {expected}.")  # fmt: skip
        self.fail(f"Encountered unknown tag {tok.value!r}.")
        raise AssertionError

    def parse_print_tag(self) -> Stmt:
        exprs = []
        while self.cur.type != "block_end":
            if exprs:
                self.expect("op", ",")
            exprs.append(self.parse_expression())

        def run(scope: Scope, out: list) -> None:
            for expr in exprs:
                out.append(str(expr(scope)))

        return run

    def parse_for_tag(self) -> Stmt:
        target = self.parse_assign_target(extra_end_rules=("in",))
        self.expect("name", "in")
        iter_expr = self.parse_tuple(with_condexpr=False, extra_end_rules=("recursive",))
        test = self.parse_expression() if self.skip_name("if") else None
        if self.skip_name("recursive"):
            self.fail("recursive loops are not supported by the verification-side jinja2 stand-in")
        body = self.parse_statements(("endfor", "else"))
        else_ = None
        if self.next().value == "else":
            else_ = self.parse_statements(("endfor",), drop_needle=True)

        def run(scope: Scope, out: list) -> None:
            items = list(iter_expr(scope))
            if test is not None:
                kept = []
                for item in items:
                    probe = Scope(scope)
                    _assign(probe.vars, target, item)
                    if test(probe):
                        kept.append(item)
                items = kept
            if not items:
                if else_:
                    _run(else_, scope, out)
                return
            loop = LoopContext(items, scope.undefined)
            for index, item in enumerate(items):
                inner = Scope(scope)
                loop.index0 = index
                inner.vars["loop"] = loop
                _assign(inner.vars, target, item)
                for stmt in body:
                    stmt(inner, out)

        return run

    def parse_if_tag(self) -> Stmt:
        branches: list[tuple[Expr, list[Stmt]]] = []
        else_: list[Stmt] = []
        while True:
            test = self.parse_tuple(with_condexpr=False)
            branches.append((test, self.parse_statements(("elif", "else", "endif"))))
            needle = self.next().value
            if needle == "elif":
                continue
            if needle == "else":
                else_ = self.parse_statements(("endif",), drop_needle=True)
            break

        def run(scope: Scope, out: list) -> None:
            for test, body in branches:
                if test(scope):
                    _run(body, scope, out)
                    return
            _run(else_, scope, out)

        return run

    def parse_set_tag(self) -> Stmt:
        target = self.parse_assign_target()
        if self.skip_op("="):
            expr = self.parse_tuple()
            return lambda scope, out: _assign(scope.vars, target, expr(scope))
        filters = self.parse_filter_chain()
        body = self.parse_statements(("endset",), drop_needle=True)

        def run(scope: Scope, out: list) -> None:
            inner, buf = Scope(scope), []
            _run(body, inner, buf)
            _assign(scope.vars, target, filters(inner, "".join(buf)))

        return run

    def parse_with_tag(self) -> Stmt:
        targets, values = [], []
        while self.cur.type != "block_end":
            if targets:
                self.expect("op", ",")
            targets.append(self.parse_assign_target())
            self.expect("op", "=")
            values.append(self.parse_expression())
        body = self.parse_statements(("endwith",), drop_needle=True)

        def run(scope: Scope, out: list) -> None:
            inner = Scope(scope)
            for target, value in zip(targets, values):
                _assign(inner.vars, target, value(scope))  # evaluated in the *outer* scope
            _run(body, inner, out)

        return run

    def parse_filter_tag(self) -> Stmt:
        filters = self.parse_filter_chain(start_inline=True)
        body = self.parse_statements(("endfilter",), drop_needle=True)

        def run(scope: Scope, out: list) -> None:
            inner, buf = Scope(scope), []
            _run(body, inner, buf)
            out.append(str(filters(inner, "".join(buf))))

        return run

    def parse_include_tag(self) -> Stmt:
        template = self.parse_expression()
        ignore_missing = False
        if self.is_name("ignore") and self.look().type == "name" and self.look().value == "missing":
            ignore_missing = True
            self.i += 2
        with_context = True
        if self.is_name("with", "without") and self.look().value == "context":
            with_context = self.cur.value == "with"
            self.i += 2
        env = self.env

        def run(scope: Scope, out: list) -> None:
            try:
                tmpl = env.get_or_select_template(template(scope))
            except TemplateNotFound:
                if ignore_missing:
                    return
                raise
            context = scope.flatten() if with_context else dict(env.globals)
            tmpl._render_into(context, out)

        return run

    # -- assignment targets ---------------------------------------------------
    def parse_assign_target(self, extra_end_rules: tuple[str, ...] = ()) -> Any:
        items, is_tuple = [], False
        while True:
            if items:
                self.expect("op", ",")
            if self.is_tuple_end(extra_end_rules):
                break
            items.append(self.parse_target_primary())
            if self.is_op(","):
                is_tuple = True
            else:
                break
        if not is_tuple:
            if items:
                return items[0]
            self.fail(f"Expected an expression, got {self.cur.describe()!r}")
        return tuple(items)

    def parse_target_primary(self) -> Any:
        tok = self.cur
        if tok.type == "name":
            if tok.value in _CONSTS:
                self.fail(f"can't assign to {tok.value!r}")
            if self.look().type == "op" and self.look().value == ".":
                self.fail("namespace assignment is not supported by the jinja2 stand-in")
            self.next()
            return tok.value
        if self.skip_op("("):
            items, is_tuple = [], False
            while not self.is_op(")"):
                if items:
                    self.expect("op", ",")
                    if self.is_op(")"):
                        break
                items.append(self.parse_target_primary())
                is_tuple = is_tuple or self.is_op(",")
            self.expect("op", ")")
            return tuple(items) if is_tuple or not items else items[0]
        self.fail(f"can't assign to {tok.describe()!r}")
        raise AssertionError

    # -- expressions ----------------------------------------------------------
    def parse_expression(self, with_condexpr: bool = True) -> Expr:
        return self.parse_condexpr() if with_condexpr else self.parse_or()

    def parse_condexpr(self) -> Expr:
        expr1 = self.parse_or()
        while self.skip_name("if"):
            test = self.parse_or()
            other = self.parse_condexpr() if self.skip_name("else") else None

            def cond(scope: Scope, test=test, this=expr1, other=other) -> Any:
                if test(scope):
                    return this(scope)
                if other is None:
                    return scope.undefined(hint="the inline if-expression evaluated to false "
                                           "and no else section was defined.")  # fmt: skip
                return other(scope)

            expr1 = cond
        return expr1

    def parse_or(self) -> Expr:
        left = self.parse_and()
        while self.skip_name("or"):
            right = self.parse_and()
            left = lambda scope, a=left, b=right: a(scope) or b(scope)  # noqa: E731
        return left

    def parse_and(self) -> Expr:
        left = self.parse_not()
        while self.skip_name("and"):
            right = self.parse_not()
            left = lambda scope, a=left, b=right: a(scope) and b(scope)  # noqa: E731
        return left

    def parse_not(self) -> Expr:
        if self.skip_name("not"):
            operand = self.parse_not()
            return lambda scope: not operand(scope)
        return self.parse_compare()

    def parse_compare(self) -> Expr:
        first = self.parse_math1()
        ops: list[tuple[Callable[[Any, Any], Any], Expr]] = []
        while True:
            if self.cur.type == "op" and self.cur.value in _CMP:
                func = _CMP[self.next().value]
            elif self.skip_name("in"):
                func = lambda a, b: a in b  # noqa: E731
            elif self.is_name("not") and self.look().type == "name" and self.look().value == "in":
                self.i += 2
                func = lambda a, b: a not in b  # noqa: E731
            else:
                break
            ops.append((func, self.parse_math1()))
        if not ops:
            return first

        def compare(scope: Scope) -> Any:
            left = first(scope)
            result: Any = True
            for func, right_expr in ops:  # python's chained comparison semantics
                right = right_expr(scope)
                result = func(left, right)
                if not result:
                    return result
                left = right
            return result

        return compare

    def _binary(self, operand: Callable[[], Expr], table: dict[str, Callable]) -> Expr:
        left = operand()
        while self.cur.type == "op" and self.cur.value in table:
            func = table[self.next().value]
            right = operand()
            left = lambda scope, f=func, a=left, b=right: f(a(scope), b(scope))  # noqa: E731
        return left

    def parse_math1(self) -> Expr:
        return self._binary(self.parse_concat, {"+": operator.add, "-": operator.sub})

    def parse_concat(self) -> Expr:
        args = [self.parse_math2()]
        while self.skip_op("~"):
            args.append(self.parse_math2())
        if len(args) == 1:
            return args[0]
        return lambda scope: "".join([str(arg(scope)) for arg in args])

    def parse_math2(self) -> Expr:
        return self._binary(self.parse_pow, {"*": operator.mul, "/": operator.truediv,
                                             "//": operator.floordiv, "%": operator.mod})  # fmt: skip

    def parse_pow(self) -> Expr:
        return self._binary(self.parse_unary, {"**": operator.pow})

    def parse_unary(self, with_filter: bool = True) -> Expr:
        if self.skip_op("-"):
            operand = self.parse_unary(False)
            node: Expr = lambda scope: -operand(scope)  # noqa: E731
        elif self.skip_op("+"):
            operand = self.parse_unary(False)
            node = lambda scope: +operand(scope)  # noqa: E731
        else:
            node = self.parse_primary()
        node = self.parse_postfix(node)
        if with_filter:
            node = self.parse_filter_expr(node)
        return node

    def parse_primary(self) -> Expr:
        tok = self.cur
        if tok.type == "name":
            self.next()
            if tok.value in _CONSTS:
                const = _CONSTS[tok.value]
                return lambda scope: const
            return lambda scope, name=tok.value: scope.get(name)
        if tok.type == "string":
            buf = [self.next().value]
            while self.cur.type == "string":
                buf.append(self.next().value)
            text = "".join(buf)
            return lambda scope: text
        if tok.type in ("integer", "float"):
            self.next()
            return lambda scope, value=tok.value: value
        if self.skip_op("("):
            node = self.parse_tuple(explicit_parentheses=True)
            self.expect("op", ")")
            return node
        if self.is_op("["):
            return self.parse_list()
        if self.is_op("{"):
            return self.parse_dict()
        self.fail(f"unexpected {tok.describe()!r}")
        raise AssertionError

    def is_tuple_end(self, extra_end_rules: tuple[str, ...] = ()) -> bool:
        if self.cur.type in ("variable_end", "block_end") or self.is_op(")"):
            return True
        return bool(extra_end_rules) and self.is_name(*extra_end_rules)

    def parse_tuple(self, with_condexpr: bool = True, extra_end_rules: tuple[str, ...] = (),
                    explicit_parentheses: bool = False) -> Expr:  # fmt: skip
        args, is_tuple = [], False
        while True:
            if args:
                self.expect("op", ",")
            if self.is_tuple_end(extra_end_rules):
                break
            args.append(self.parse_expression(with_condexpr))
            if self.is_op(","):
                is_tuple = True
            else:
                break
        if not is_tuple:
            if args:
                return args[0]
            if not explicit_parentheses:
                self.fail(f"Expected an expression, got {self.cur.describe()!r}")
        return lambda scope: tuple([arg(scope) for arg in args])

    def parse_list(self) -> Expr:
        self.expect("op", "[")
        items = []
        while not self.is_op("]"):
            if items:
                self.expect("op", ",")
                if self.is_op("]"):
                    break
            items.append(self.parse_expression())
        self.expect("op", "]")
        return lambda scope: [item(scope) for item in items]

    def parse_dict(self) -> Expr:
        self.expect("op", "{")
        items = []
        while not self.is_op("}"):
            if items:
                self.expect("op", ",")
                if self.is_op("}"):
                    break
            key = self.parse_expression()
            self.expect("op", ":")
            items.append((key, self.parse_expression()))
        self.expect("op", "}")
        return lambda scope: {key(scope): value(scope) for key, value in items}

    def parse_postfix(self, node: Expr) -> Expr:
        while True:
            if self.is_op(".", "["):
                node = self.parse_subscript(node)
            elif self.is_op("("):
                node = self.parse_call(node)
            else:
                return node

    def parse_filter_expr(self, node: Expr) -> Expr:
        while True:
            if self.is_op("|"):
                self.next()
                apply = self.parse_one_filter()
                node = lambda scope, node=node, apply=apply: apply(scope, node(scope))  # noqa: E731
            elif self.is_name("is"):
                node = self.parse_test(node)
            elif self.is_op("("):
                node = self.parse_call(node)
            else:
                return node

    def parse_subscript(self, node: Expr) -> Expr:
        tok = self.next()
        if tok.value == ".":
            attr = self.next()
            if attr.type == "name":
                return lambda scope, name=attr.value: getattr_(node(scope), name, scope.undefined)
            if attr.type != "integer":
                self.fail("expected name or number", attr)
            return lambda scope, idx=attr.value: getitem_(node(scope), idx, scope.undefined)
        args = []
        while not self.is_op("]"):
            if args:
                self.expect("op", ",")
            args.append(self.parse_subscribed())
        self.expect("op", "]")
        if len(args) == 1:
            arg = args[0]
        else:
            arg = lambda scope: tuple([a(scope) for a in args])  # noqa: E731
        return lambda scope: getitem_(node(scope), arg(scope), scope.undefined)

    def parse_subscribed(self) -> Expr:
        parts: list[Expr | None]
        if self.skip_op(":"):
            parts = [None]
        else:
            node = self.parse_expression()
            if not self.skip_op(":"):
                return node
            parts = [node]
        if self.is_op(":"):
            parts.append(None)
        elif not self.is_op("]", ","):
            parts.append(self.parse_expression())
        else:
            parts.append(None)
        if self.skip_op(":"):
            parts.append(None if self.is_op("]", ",") else self.parse_expression())
        else:
            parts.append(None)
        return lambda scope: slice(*[None if p is None else p(scope) for p in parts])

    def parse_call_args(self):
        self.expect("op", "(")
        args: list[Expr] = []
        kwargs: list[tuple[str, Expr]] = []
        dyn_args = dyn_kwargs = None
        require_comma = False
        while not self.is_op(")"):
            if require_comma:
                self.expect("op", ",")
                if self.is_op(")"):  # trailing comma
                    break
            if self.skip_op("*"):
                if dyn_args is not None or dyn_kwargs is not None:
                    self.fail("invalid syntax for function call expression")
                dyn_args = self.parse_expression()
            elif self.skip_op("**"):
                if dyn_kwargs is not None:
                    self.fail("invalid syntax for function call expression")
                dyn_kwargs = self.parse_expression()
            elif self.cur.type == "name" and self.look().type == "op" and self.look().value == "=":
                if dyn_kwargs is not None:
                    self.fail("invalid syntax for function call expression")
                key = self.next().value
                self.next()
                kwargs.append((key, self.parse_expression()))
            else:
                if dyn_args is not None or dyn_kwargs is not None or kwargs:
                    self.fail("invalid syntax for function call expression")
                args.append(self.parse_expression())
            require_comma = True
        self.expect("op", ")")

        def build(scope: Scope) -> tuple[list, dict]:
            pos = [arg(scope) for arg in args]
            if dyn_args is not None:
                pos.extend(dyn_args(scope))
            named = {key: value(scope) for key, value in kwargs}
            if dyn_kwargs is not None:
                named.update(dyn_kwargs(scope))
            return pos, named

        if not kwargs and dyn_args is None and dyn_kwargs is None:  # fast path

            def build(scope: Scope) -> tuple[list, dict]:  # noqa: F811
                return [arg(scope) for arg in args], {}

        return build

    def parse_call(self, node: Expr) -> Expr:
        build = self.parse_call_args()

        def call(scope: Scope) -> Any:
            func = node(scope)
            args, kwargs = build(scope)
            return func(*args, **kwargs)

        return call

    def _dotted_name(self) -> tuple[str, Token]:
        tok = self.expect("name")
        name = tok.value
        while self.is_op("."):
            self.next()
            name += "." + self.expect("name").value
        return name, tok

    def parse_one_filter(self) -> Callable[[Scope, Any], Any]:
        """Parse ``name`` / ``name(args)`` after a pipe; returns ``apply(scope, value)``."""
        name, tok = self._dotted_name()
        build = self.parse_call_args() if self.is_op("(") else None
        env = self.env
        if name not in env.filters:
            self.fail(f"No filter named {name!r}.", tok, TemplateAssertionError)

        def apply(scope: Scope, value: Any) -> Any:
            args, kwargs = build(scope) if build is not None else ((), {})
            return env.call_filter(name, value, args, kwargs)

        return apply

    def parse_filter_chain(self, start_inline: bool = False) -> Callable[[Scope, Any], Any]:
        """``parse_filter(None, start_inline)``: a possibly empty chain ``a|b(1)|c``."""
        chain = []
        while self.is_op("|") or start_inline:
            if not start_inline:
                self.next()
            chain.append(self.parse_one_filter())
            start_inline = False

        def apply(scope: Scope, value: Any) -> Any:
            for one in chain:
                value = one(scope, value)
            return value

        return apply

    def parse_test(self, node: Expr) -> Expr:
        self.next()  # "is"
        negated = self.skip_name("not")
        name, tok = self._dotted_name()
        build = None
        arg: Expr | None = None
        if self.is_op("("):
            build = self.parse_call_args()
        elif (self.cur.type in ("name", "string", "integer", "float")
              or self.is_op("(", "[", "{")) and not self.is_name("else", "or", "and"):  # fmt: skip
            if self.is_name("is"):
                self.fail("You cannot chain multiple tests with is")
            arg = self.parse_postfix(self.parse_primary())
        env = self.env
        if name not in env.tests:
            self.fail(f"No test named {name!r}.", tok, TemplateAssertionError)

        def test(scope: Scope) -> bool:
            if build is not None:
                args, kwargs = build(scope)
            elif arg is not None:
                args, kwargs = [arg(scope)], {}
            else:
                args, kwargs = (), {}
            rv = env.call_test(name, node(scope), args, kwargs)
            return not rv if negated else rv

        return test
