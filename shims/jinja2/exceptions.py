"""``jinja2.exceptions`` of the verification-side Jinja2 stand-in (see ``jinja2/__init__.py``)."""

from __future__ import annotations


class TemplateError(Exception):
    def __init__(self, message: str | None = None) -> None:
        super().__init__(message)

    @property
    def message(self) -> str | None:
        return self.args[0] if self.args else None


class TemplateNotFound(IOError, LookupError, TemplateError):
    message = None  # type: ignore[assignment]

    def __init__(self, name, message: str | None = None) -> None:
        IOError.__init__(self, name)
        if message is None:
            message = str(name)
        self.message = message
        self.name = name
        self.templates = [name]

    def __str__(self) -> str:
        return str(self.message)


class TemplatesNotFound(TemplateNotFound):
    def __init__(self, names=(), message: str | None = None) -> None:
        if message is None:
            parts = ", ".join(map(str, names))
            message = f"none of the templates given were found: {parts}"
        super().__init__(names[-1] if names else None, message)
        self.templates = list(names)


class TemplateSyntaxError(TemplateError):
    def __init__(self, message: str, lineno: int, name=None, filename=None) -> None:
        super().__init__(message)
        self.lineno, self.name, self.filename = lineno, name, filename
        self.source = None
        self.translated = False

    def __str__(self) -> str:
        location = f"line {self.lineno}"
        name = self.filename or self.name
        if name:
            location = f'File "{name}", {location}'
        return f"{self.message}\n  {location}"


class TemplateAssertionError(TemplateSyntaxError):
    pass


class TemplateRuntimeError(TemplateError):
    pass


class UndefinedError(TemplateRuntimeError):
    pass


class FilterArgumentError(TemplateRuntimeError):
    pass
