"""Runtime objects of the verification-side Jinja2 stand-in: ``Undefined``, attribute
and item lookup with Jinja's fall-back rules, the ``loop`` object and variable scopes."""

from __future__ import annotations

from typing import Any

from .exceptions import UndefinedError

_MISSING = object()


class Undefined:
    """Jinja's default undefined: prints as '', is falsy/empty, anything else fails."""

    __slots__ = ("_undefined_hint", "_undefined_obj", "_undefined_name", "_undefined_exception")

    def __init__(self, hint=None, obj=_MISSING, name=None, exc=UndefinedError) -> None:
        self._undefined_hint, self._undefined_obj = hint, obj
        self._undefined_name, self._undefined_exception = name, exc

    @property
    def _undefined_message(self) -> str:
        if self._undefined_hint:
            return self._undefined_hint
        if self._undefined_obj is _MISSING:
            return f"{self._undefined_name!r} is undefined"
        if not isinstance(self._undefined_name, str):
            return f"{type(self._undefined_obj).__name__} has no element {self._undefined_name!r}"
        return f"{type(self._undefined_obj).__name__!r} has no attribute {self._undefined_name!r}"

    def _fail_with_undefined_error(self, *args: Any, **kwargs: Any):
        raise self._undefined_exception(self._undefined_message)

    def __getattr__(self, name: str) -> Any:
        if name[:2] == "__":
            raise AttributeError(name)
        return self._fail_with_undefined_error()

    __add__ = __radd__ = __sub__ = __rsub__ = _fail_with_undefined_error
    __mul__ = __rmul__ = __div__ = __rdiv__ = _fail_with_undefined_error
    __truediv__ = __rtruediv__ = __floordiv__ = __rfloordiv__ = _fail_with_undefined_error
    __mod__ = __rmod__ = __pos__ = __neg__ = _fail_with_undefined_error
    __call__ = __getitem__ = __lt__ = __le__ = __gt__ = __ge__ = _fail_with_undefined_error
    __int__ = __float__ = __complex__ = __pow__ = __rpow__ = _fail_with_undefined_error

    def __eq__(self, other: Any) -> bool:
        return type(self) is type(other)

    def __ne__(self, other: Any) -> bool:
        return not self.__eq__(other)

    def __hash__(self) -> int:
        return id(type(self))

    def __str__(self) -> str:
        return ""

    def __len__(self) -> int:
        return 0

    def __iter__(self):
        yield from ()

    def __bool__(self) -> bool:
        return False

    def __repr__(self) -> str:
        return "Undefined"


class StrictUndefined(Undefined):
    __slots__ = ()
    __iter__ = __str__ = __len__ = Undefined._fail_with_undefined_error  # type: ignore
    __eq__ = __ne__ = __bool__ = __hash__ = Undefined._fail_with_undefined_error  # type: ignore
    __contains__ = Undefined._fail_with_undefined_error


def getattr_(obj: Any, attr: str, undefined=Undefined) -> Any:
    """``foo.bar``: attribute first, then item (``Environment.getattr``)."""
    try:
        return getattr(obj, attr)
    except AttributeError:
        pass
    try:
        return obj[attr]
    except (TypeError, LookupError, AttributeError):
        return undefined(obj=obj, name=attr)


def getitem_(obj: Any, arg: Any, undefined=Undefined) -> Any:
    """``foo[bar]``: item first, then attribute for strings (``Environment.getitem``)."""
    try:
        return obj[arg]
    except (AttributeError, TypeError, LookupError):
        if isinstance(arg, str):
            try:
                attr = str(arg)
            except Exception:
                pass
            else:
                try:
                    return getattr(obj, attr)
                except AttributeError:
                    pass
        return undefined(obj=obj, name=arg)


class Scope:
    """A chain of variable dictionaries (template context -> for/with/filter/set blocks)."""

    __slots__ = ("vars", "parent", "undefined")

    def __init__(self, parent: "Scope | None", vars: dict | None = None, undefined=Undefined):
        self.parent, self.vars = parent, {} if vars is None else vars
        self.undefined = parent.undefined if parent is not None else undefined

    def get(self, name: str) -> Any:
        scope: Scope | None = self
        while scope is not None:
            try:
                return scope.vars[name]
            except KeyError:
                scope = scope.parent
        return self.undefined(name=name)

    def flatten(self) -> dict:
        chain, scope = [], self
        while scope is not None:
            chain.append(scope.vars)
            scope = scope.parent
        out: dict = {}
        for vars_ in reversed(chain):
            out.update(vars_)
        return out


class LoopContext:
    """The ``loop`` variable of ``{% for %}`` (non-recursive loops only)."""

    def __init__(self, items: list, undefined=Undefined, depth0: int = 0) -> None:
        self._items, self._undefined, self.index0, self.depth0 = items, undefined, -1, depth0
        self.length = len(items)
        self._last_changed: Any = _MISSING

    index = property(lambda self: self.index0 + 1)
    depth = property(lambda self: self.depth0 + 1)
    revindex0 = property(lambda self: self.length - self.index)
    revindex = property(lambda self: self.length - self.index0)
    first = property(lambda self: self.index0 == 0)
    last = property(lambda self: self.index0 == self.length - 1)

    @property
    def previtem(self):
        if self.first:
            return self._undefined("there is no previous item")
        return self._items[self.index0 - 1]

    @property
    def nextitem(self):
        if self.last:
            return self._undefined("there is no next item")
        return self._items[self.index0 + 1]

    def cycle(self, *args: Any) -> Any:
        if not args:
            raise TypeError("no items for cycling given")
        return args[self.index0 % len(args)]

    def changed(self, *value: Any) -> bool:
        if self._last_changed != value:
            self._last_changed = value
            return True
        return False

    def __len__(self) -> int:
        return self.length

    def __repr__(self) -> str:
        return f"<LoopContext {self.index}/{self.length}>"
