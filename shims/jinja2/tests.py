"""Built-in tests (``x is ...``) of the verification-side Jinja2 stand-in."""

from __future__ import annotations

import operator
from collections import abc
from numbers import Number
from typing import Any

from .filters import pass_environment
from .runtime import Undefined


def test_sequence(value: Any) -> bool:
    try:
        len(value)
        value.__getitem__  # noqa: B018
    except Exception:
        return False
    return True


def test_iterable(value: Any) -> bool:
    try:
        iter(value)
    except TypeError:
        return False
    return True


@pass_environment
def test_filter(env, value: str) -> bool:
    return value in env.filters


@pass_environment
def test_test(env, value: str) -> bool:
    return value in env.tests


TESTS = {
    "odd": lambda v: v % 2 == 1, "even": lambda v: v % 2 == 0,
    "divisibleby": lambda v, num: v % num == 0,
    "defined": lambda v: not isinstance(v, Undefined),
    "undefined": lambda v: isinstance(v, Undefined),
    "filter": test_filter, "test": test_test, "none": lambda v: v is None,
    "boolean": lambda v: v is True or v is False, "false": lambda v: v is False,
    "true": lambda v: v is True,
    "integer": lambda v: isinstance(v, int) and v is not True and v is not False,
    "float": lambda v: isinstance(v, float), "lower": lambda v: str(v).islower(),
    "upper": lambda v: str(v).isupper(), "string": lambda v: isinstance(v, str),
    "mapping": lambda v: isinstance(v, abc.Mapping), "number": lambda v: isinstance(v, Number),
    "sequence": test_sequence, "iterable": test_iterable, "callable": callable,
    "sameas": lambda v, other: v is other, "escaped": lambda v: hasattr(v, "__html__"),
    "in": lambda v, seq: v in seq,
    "==": operator.eq, "eq": operator.eq, "equalto": operator.eq,
    "!=": operator.ne, "ne": operator.ne,
    ">": operator.gt, "gt": operator.gt, "greaterthan": operator.gt,
    "ge": operator.ge, ">=": operator.ge,
    "<": operator.lt, "lt": operator.lt, "lessthan": operator.lt,
    "<=": operator.le, "le": operator.le,
}  # fmt: skip
