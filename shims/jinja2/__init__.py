"""Verification-side stand-in for the third-party ``jinja2`` package (3.1 semantics).

A small template engine that exists only so that xsdata's code generator can render its
``*.jinja2`` templates in a sandbox where Jinja2 cannot be installed.  It interprets the
templates (no Python code generation) but follows Jinja's lexer/parser rules closely.

Supported
  * API: ``Environment(loader=..., autoescape=False, undefined=..., keep_trailing_newline=...)``
    with ``filters``/``tests``/``globals`` dicts, ``get_template``, ``select_template``,
    ``get_or_select_template``, ``from_string``, ``getattr``/``getitem``/``call_filter``/
    ``call_test``; ``Template.render(*args, **kwargs)``; ``FileSystemLoader``, ``DictLoader``;
    ``Undefined``, ``StrictUndefined``; ``TemplateNotFound``, ``TemplateSyntaxError``,
    ``TemplateAssertionError``, ``UndefinedError``...; ``pass_environment`` for filters/tests.
  * Lexer: ``{{ }}``, ``{% %}``, ``{# #}``, ``{% raw %}``, whitespace control (``{%-``, ``-%}``,
    ``{{-``, ``-}}``, ``{#-``, ``-#}``), default whitespace rules (no trim_blocks/lstrip_blocks;
    one trailing newline of the source removed unless ``keep_trailing_newline``).
  * Statements: ``set`` (incl. tuple targets and block set with filters), ``if/elif/else``,
    ``for`` (tuple unpacking, ``if`` filter, ``else``, ``loop`` variable), ``with``, ``filter``,
    ``include`` (computed names, name lists, ``ignore missing``, ``with/without context``; the
    included template sees the including template's variables at the point of inclusion),
    ``print``.
  * Expressions with Jinja's precedence: literals (str with escapes, int, float, true/false/none
    in both spellings, tuples, lists, dicts), names, ``a.b``, ``a[b]``, slices, calls with
    positional/keyword/``*``/``**`` arguments, filters with arguments, tests (``is``/``is not``),
    ``and or not``, chained comparisons, ``in``/``not in``, ``+ - * / // % **``, unary ``+ -``,
    ``~`` concatenation, ``a if c else b`` (without ``else`` -> undefined).
  * Built-in filters/tests: see ``jinja2/filters.py`` and ``jinja2/tests.py``.

NOT supported (raises ``TemplateSyntaxError``/``NotImplementedError``): autoescaping/Markup,
``trim_blocks``/``lstrip_blocks``, custom delimiters, line statements, extensions, macros, ``call``,
``block``/``extends``, ``import``, recursive loops, ``namespace`` assignment, async, sandboxing,
``pass_context`` filters.
"""

from __future__ import annotations

from typing import Any

from . import exceptions, filters, loaders, runtime, tests  # noqa: F401
from ._compiler import Parser
from .exceptions import (  # noqa: F401
    FilterArgumentError,
    TemplateAssertionError,
    TemplateError,
    TemplateNotFound,
    TemplateRuntimeError,
    TemplatesNotFound,
    TemplateSyntaxError,
    UndefinedError,
)
from .filters import pass_environment  # noqa: F401
from .loaders import BaseLoader, DictLoader, FileSystemLoader  # noqa: F401
from .runtime import Scope, StrictUndefined, Undefined, getattr_, getitem_

__version__ = "3.1-shim"


class Template:
    """A parsed template; obtain instances through ``Environment``."""

    def __init__(self, environment: "Environment", source: str, name: str | None = None,
                 filename: str | None = None, uptodate=None, globals=None) -> None:  # fmt: skip
        self.environment, self.name, self.filename = environment, name, filename
        self.globals = globals if globals is not None else environment.globals
        self._uptodate = uptodate
        self._body = Parser(environment, source, name, filename).parse()

    @property
    def is_up_to_date(self) -> bool:
        return self._uptodate is None or bool(self._uptodate())

    def _render_into(self, context: dict, out: list) -> None:
        scope = Scope(None, context, self.environment.undefined)
        for stmt in self._body:
            stmt(scope, out)

    def render(self, *args: Any, **kwargs: Any) -> str:
        context = dict(self.globals)
        context.update(dict(*args, **kwargs))
        out: list[str] = []
        self._render_into(context, out)
        return "".join(out)

    def generate(self, *args: Any, **kwargs: Any):
        yield self.render(*args, **kwargs)

    def __repr__(self) -> str:
        return f"<Template {self.name!r}>" if self.name else f"<Template memory:{id(self):x}>"


class Environment:
    """The central configuration object (see the module docstring for what is supported)."""

    def __init__(self, loader: BaseLoader | None = None, autoescape: Any = False,
                 undefined: type = Undefined, trim_blocks: bool = False,
                 lstrip_blocks: bool = False, keep_trailing_newline: bool = False,
                 auto_reload: bool = True, cache_size: int = 400, extensions=(),
                 **unsupported: Any) -> None:  # fmt: skip
        if autoescape or trim_blocks or lstrip_blocks or extensions or unsupported:
            raise NotImplementedError(
                "the verification-side jinja2 stand-in only supports the default lexer/escaping "
                f"configuration (got autoescape={autoescape!r}, trim_blocks={trim_blocks!r}, "
                f"lstrip_blocks={lstrip_blocks!r}, extensions={extensions!r}, {unsupported!r})"
            )
        self.loader, self.undefined, self.autoescape = loader, undefined, False
        self.keep_trailing_newline, self.auto_reload = keep_trailing_newline, auto_reload
        self.trim_blocks = self.lstrip_blocks = False
        self.filters: dict[str, Any] = dict(filters.FILTERS)
        self.tests: dict[str, Any] = dict(tests.TESTS)
        self.globals: dict[str, Any] = {"range": range, "dict": dict}
        self.cache: dict[str, Template] | None = {} if cache_size else None

    # -- lookup helpers used by the runtime and by filters ---------------------
    def getattr(self, obj: Any, attribute: str) -> Any:
        return getattr_(obj, attribute, self.undefined)

    def getitem(self, obj: Any, argument: Any) -> Any:
        return getitem_(obj, argument, self.undefined)

    def _call(self, kind: str, table: dict, name: str, value: Any, args, kwargs) -> Any:
        func = table.get(name)
        if func is None:
            raise TemplateRuntimeError(f"No {kind} named {name!r}.")
        pass_arg = getattr(func, "jinja_pass_arg", None)
        if pass_arg == "environment":
            return func(self, value, *(args or ()), **(kwargs or {}))
        if pass_arg is not None:
            raise NotImplementedError(f"pass_{pass_arg} {kind}s are not supported by the stand-in")
        return func(value, *(args or ()), **(kwargs or {}))

    def call_filter(self, name: str, value: Any, args=None, kwargs=None, **_ignored: Any) -> Any:
        return self._call("filter", self.filters, name, value, args, kwargs)

    def call_test(self, name: str, value: Any, args=None, kwargs=None, **_ignored: Any) -> Any:
        return self._call("test", self.tests, name, value, args, kwargs)

    # -- template loading ------------------------------------------------------
    def from_string(self, source: str, globals=None, template_class=None) -> Template:
        return Template(self, source, globals=self._globals(globals))

    def _globals(self, extra) -> dict:
        return {**self.globals, **extra} if extra else self.globals

    def get_template(self, name, parent=None, globals=None) -> Template:
        if isinstance(name, Template):
            return name
        if self.loader is None:
            raise TypeError("no loader for this environment specified")
        if self.cache is not None:
            cached = self.cache.get(name)
            if cached is not None and (not self.auto_reload or cached.is_up_to_date):
                return cached
        source, filename, uptodate = self.loader.get_source(self, name)
        template = Template(self, source, name, filename, uptodate, self._globals(globals))
        if self.cache is not None:
            self.cache[name] = template
        return template

    def select_template(self, names, parent=None, globals=None) -> Template:
        if isinstance(names, Undefined):
            names._fail_with_undefined_error()
        if not names:
            raise TemplatesNotFound(message="Tried to select from an empty list of templates.")
        for name in names:
            if isinstance(name, Template):
                return name
            try:
                return self.get_template(name, parent, globals)
            except (TemplateNotFound, UndefinedError):
                pass
        raise TemplatesNotFound(list(names))

    def get_or_select_template(self, template_name_or_list, parent=None, globals=None) -> Template:
        if isinstance(template_name_or_list, (str, Undefined)):
            return self.get_template(template_name_or_list, parent, globals)
        if isinstance(template_name_or_list, Template):
            return template_name_or_list
        return self.select_template(template_name_or_list, parent, globals)

    def list_templates(self) -> list[str]:
        assert self.loader is not None
        return self.loader.list_templates()
