"""Built-in filters of the verification-side Jinja2 stand-in (non-autoescape semantics of
Jinja2 3.1).  Filters decorated with ``pass_environment`` receive the environment first."""

from __future__ import annotations

import math
import re
from itertools import chain, groupby, islice
from typing import Any, NamedTuple

from .exceptions import FilterArgumentError
from .runtime import Undefined, getitem_


def pass_environment(f):
    f.jinja_pass_arg = "environment"
    return f


def soft_str(s: Any) -> str:
    return s if isinstance(s, str) else str(s)


def ignore_case(value: Any) -> Any:
    return value.lower() if isinstance(value, str) else value


def _attr_parts(attr: Any) -> list:
    if attr is None:
        return []
    if isinstance(attr, str):
        return [int(x) if x.isdigit() else x for x in attr.split(".")]
    return [attr]


def make_attrgetter(environment, attribute, postprocess=None, default=None):
    parts = _attr_parts(attribute)

    def attrgetter(item: Any) -> Any:
        for part in parts:
            item = environment.getitem(item, part)
            if default is not None and isinstance(item, Undefined):
                item = default
        if postprocess is not None:
            item = postprocess(item)
        return item

    return attrgetter


def make_multi_attrgetter(environment, attribute, postprocess=None):
    if isinstance(attribute, str):
        split = [a.strip() for a in attribute.split(",")]
    else:
        split = [attribute]
    parts = [_attr_parts(item) for item in split]

    def attrgetter(item: Any) -> list:
        items = [None] * len(parts)
        for i, attribute_part in enumerate(parts):
            item_i = item
            for part in attribute_part:
                item_i = environment.getitem(item_i, part)
            if postprocess is not None:
                item_i = postprocess(item_i)
            items[i] = item_i
        return items

    return attrgetter


def do_default(value, default_value="", boolean=False):
    if isinstance(value, Undefined) or (boolean and not value):
        return default_value
    return value


@pass_environment
def do_join(environment, value, d="", attribute=None) -> str:
    if attribute is not None:
        value = map(make_attrgetter(environment, attribute), value)
    return str(d).join(map(str, value))


def do_indent(s: str, width=4, first: bool = False, blank: bool = False) -> str:
    indention = width if isinstance(width, str) else " " * width
    newline = "\n"
    s += newline  # this quirk is necessary for splitlines method
    if blank:
        rv = (newline + indention).join(s.splitlines())
    else:
        lines = s.splitlines()
        rv = lines.pop(0)
        if lines:
            rv += newline + newline.join(indention + line if line else line for line in lines)
    if first:
        rv = indention + rv
    return rv


class _GroupTuple(NamedTuple):
    grouper: Any
    list: list  # noqa: A003

    def __repr__(self) -> str:
        return tuple.__repr__(self)

    def __str__(self) -> str:
        return tuple.__str__(self)


@pass_environment
def do_groupby(environment, value, attribute, default=None, case_sensitive=False):
    expr = make_attrgetter(
        environment, attribute, postprocess=ignore_case if not case_sensitive else None,
        default=default,
    )  # fmt: skip
    out = [_GroupTuple(key, list(values)) for key, values in groupby(sorted(value, key=expr), expr)]
    if not case_sensitive:
        # Return the real key from the first value instead of the lowercase key.
        output_expr = make_attrgetter(environment, attribute, default=default)
        out = [_GroupTuple(output_expr(values[0]), values) for _, values in out]
    return out


_word_beginning_split_re = re.compile(r"([-\s({\[<]+)")


def do_title(s: str) -> str:
    return "".join(
        item[0].upper() + item[1:].lower()
        for item in _word_beginning_split_re.split(soft_str(s)) if item
    )  # fmt: skip


def do_replace(s, old, new, count=None) -> str:
    return str(s).replace(str(old), str(new), -1 if count is None else count)


def do_format(value, *args: Any, **kwargs: Any) -> str:
    if args and kwargs:
        raise FilterArgumentError("can't handle positional and keyword arguments at the same time")
    return soft_str(value) % (kwargs or args)


@pass_environment
def do_first(environment, seq):
    try:
        return next(iter(seq))
    except StopIteration:
        return environment.undefined("No first item, sequence was empty.")


@pass_environment
def do_last(environment, seq):
    try:
        return next(iter(reversed(seq)))
    except StopIteration:
        return environment.undefined("No last item, sequence was empty.")


def do_int(value, default: int = 0, base: int = 10) -> int:
    try:
        if isinstance(value, str):
            return int(value, base)
        return int(value)
    except (TypeError, ValueError):
        try:
            return int(float(value))
        except (TypeError, ValueError, OverflowError):
            return default


def do_float(value, default: float = 0.0) -> float:
    try:
        return float(value)
    except (TypeError, ValueError):
        return default


def do_round(value, precision: int = 0, method: str = "common") -> float:
    if method not in {"common", "ceil", "floor"}:
        raise FilterArgumentError("method must be common, ceil or floor")
    if method == "common":
        return round(value, precision)
    func = getattr(math, method)
    return func(value * (10**precision)) / (10**precision)


@pass_environment
def do_sort(environment, value, reverse=False, case_sensitive=False, attribute=None):
    key = make_multi_attrgetter(
        environment, attribute, postprocess=ignore_case if not case_sensitive else None
    )
    return sorted(value, key=key, reverse=reverse)


@pass_environment
def do_unique(environment, value, case_sensitive=False, attribute=None):
    getter = make_attrgetter(
        environment, attribute, postprocess=ignore_case if not case_sensitive else None
    )
    seen = set()
    for item in value:
        key = getter(item)
        if key not in seen:
            seen.add(key)
            yield item


def do_reverse(value):
    if isinstance(value, str):
        return value[::-1]
    try:
        return reversed(value)
    except TypeError:
        try:
            rv = list(value)
            rv.reverse()
            return rv
        except TypeError as e:
            raise FilterArgumentError("argument must be iterable") from e


def _min_or_max(environment, value, func, case_sensitive, attribute):
    it = iter(value)
    try:
        first = next(it)
    except StopIteration:
        return environment.undefined("No aggregated item, sequence was empty.")
    key = make_attrgetter(
        environment, attribute, postprocess=ignore_case if not case_sensitive else None
    )
    return func(chain([first], it), key=key)


@pass_environment
def do_min(environment, value, case_sensitive=False, attribute=None):
    return _min_or_max(environment, value, min, case_sensitive, attribute)


@pass_environment
def do_max(environment, value, case_sensitive=False, attribute=None):
    return _min_or_max(environment, value, max, case_sensitive, attribute)


@pass_environment
def do_sum(environment, iterable, attribute=None, start=0):
    if attribute is not None:
        iterable = map(make_attrgetter(environment, attribute), iterable)
    return sum(iterable, start)


@pass_environment
def do_attr(environment, obj, name: str):
    try:
        return getattr(obj, str(name))
    except AttributeError:
        return environment.undefined(obj=obj, name=name)


@pass_environment
def do_map(environment, value, *args: Any, **kwargs: Any):
    if not args and "attribute" in kwargs:
        attribute, default = kwargs.pop("attribute"), kwargs.pop("default", None)
        if kwargs:
            raise FilterArgumentError(f"Unexpected keyword argument {next(iter(kwargs))!r}")
        func = make_attrgetter(environment, attribute, default=default)
    else:
        try:
            name, args = args[0], args[1:]
        except LookupError:
            raise FilterArgumentError("map requires a filter argument") from None

        def func(item):
            return environment.call_filter(name, item, args, kwargs)

    if value:
        for item in value:
            yield func(item)


def _select_or_reject(environment, value, args, kwargs, modfunc, lookup_attr):
    if lookup_attr:
        try:
            attr = args[0]
        except LookupError:
            raise FilterArgumentError("Missing parameter for attribute name") from None
        transfunc, off = make_attrgetter(environment, attr), 1
    else:
        transfunc, off = (lambda x: x), 0
    try:
        name, rest = args[off], args[1 + off:]

        def func(item):
            return environment.call_test(name, item, rest, kwargs)

    except LookupError:
        func = bool
    if value:
        for item in value:
            if modfunc(func(transfunc(item))):
                yield item


@pass_environment
def do_select(environment, value, *args: Any, **kwargs: Any):
    return _select_or_reject(environment, value, args, kwargs, lambda x: x, False)


@pass_environment
def do_reject(environment, value, *args: Any, **kwargs: Any):
    return _select_or_reject(environment, value, args, kwargs, lambda x: not x, False)


@pass_environment
def do_selectattr(environment, value, *args: Any, **kwargs: Any):
    return _select_or_reject(environment, value, args, kwargs, lambda x: x, True)


@pass_environment
def do_rejectattr(environment, value, *args: Any, **kwargs: Any):
    return _select_or_reject(environment, value, args, kwargs, lambda x: not x, True)


def do_items(value):
    if isinstance(value, Undefined):
        return
    if not hasattr(value, "items"):
        raise TypeError("Can only get item pairs from a mapping.")
    yield from value.items()


def do_dictsort(value, case_sensitive=False, by="key", reverse=False):
    if by not in {"key", "value"}:
        raise FilterArgumentError('You can only sort by either "key" or "value"')
    pos = 0 if by == "key" else 1

    def sort_func(item):
        value = item[pos]
        return value if case_sensitive else ignore_case(value)

    return sorted(value.items(), key=sort_func, reverse=reverse)


def do_batch(value, linecount: int, fill_with=None):
    tmp: list = []
    for item in value:
        if len(tmp) == linecount:
            yield tmp
            tmp = []
        tmp.append(item)
    if tmp:
        if fill_with is not None and len(tmp) < linecount:
            tmp += [fill_with] * (linecount - len(tmp))
        yield tmp


def do_slice(value, slices: int, fill_with=None):
    seq = list(value)
    length = len(seq)
    items_per_slice, slices_with_extra = divmod(length, slices)
    offset = 0
    for slice_number in range(slices):
        start = offset + slice_number * items_per_slice
        if slice_number < slices_with_extra:
            offset += 1
        end = offset + (slice_number + 1) * items_per_slice
        tmp = seq[start:end]
        if fill_with is not None and slice_number >= slices_with_extra:
            tmp.append(fill_with)
        yield tmp


def do_escape(s) -> str:
    if hasattr(s, "__html__"):
        return s.__html__()
    return (str(s).replace("&", "&amp;").replace(">", "&gt;").replace("<", "&lt;")
            .replace("'", "&#39;").replace('"', "&#34;"))  # fmt: skip


FILTERS = {
    "abs": abs, "attr": do_attr, "batch": do_batch,
    "capitalize": lambda s: soft_str(s).capitalize(),
    "center": lambda value, width=80: soft_str(value).center(width),
    "count": len, "d": do_default, "default": do_default, "dictsort": do_dictsort,
    "e": do_escape, "escape": do_escape, "first": do_first, "float": do_float,
    "format": do_format, "groupby": do_groupby, "indent": do_indent, "int": do_int,
    "items": do_items, "join": do_join, "last": do_last, "length": len, "list": list,
    "lower": lambda s: soft_str(s).lower(), "map": do_map, "max": do_max, "min": do_min,
    "reject": do_reject, "rejectattr": do_rejectattr, "replace": do_replace,
    "reverse": do_reverse, "round": do_round, "safe": lambda s: s, "select": do_select,
    "selectattr": do_selectattr, "slice": do_slice, "sort": do_sort, "string": soft_str,
    "sum": do_sum, "title": do_title,
    "trim": lambda value, chars=None: soft_str(value).strip(chars), "unique": do_unique,
    "upper": lambda s: soft_str(s).upper(),
    "wordcount": lambda s: len(re.findall(r"\w+", soft_str(s))),
}  # fmt: skip
del islice
