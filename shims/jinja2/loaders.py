"""``jinja2.loaders`` of the verification-side Jinja2 stand-in: file system and dict loaders."""

from __future__ import annotations

import os

from .exceptions import TemplateNotFound


def split_template_path(template: str) -> list[str]:
    pieces = []
    for piece in template.split("/"):
        if os.path.sep in piece or (os.path.altsep and os.path.altsep in piece) or piece == os.path.pardir:
            raise TemplateNotFound(template)
        if piece and piece != ".":
            pieces.append(piece)
    return pieces


class BaseLoader:
    def get_source(self, environment, template: str):
        """Return ``(source, filename, uptodate)``."""
        raise TemplateNotFound(template)

    def list_templates(self) -> list[str]:
        raise TypeError("this loader cannot iterate over all templates")


class FileSystemLoader(BaseLoader):
    def __init__(self, searchpath, encoding: str = "utf-8", followlinks: bool = False) -> None:
        if isinstance(searchpath, (str, os.PathLike)):
            searchpath = [searchpath]
        self.searchpath = [os.fspath(p) for p in searchpath]
        self.encoding, self.followlinks = encoding, followlinks

    def get_source(self, environment, template: str):
        pieces = split_template_path(template)
        for searchpath in self.searchpath:
            filename = os.path.join(searchpath, *pieces)
            if not os.path.isfile(filename):
                continue
            with open(filename, encoding=self.encoding) as fp:
                contents = fp.read()
            mtime = os.path.getmtime(filename)

            def uptodate(filename=filename, mtime=mtime) -> bool:
                try:
                    return os.path.getmtime(filename) == mtime
                except OSError:
                    return False

            return contents, os.path.normpath(filename), uptodate
        plural = "path" if len(self.searchpath) == 1 else "paths"
        paths = ", ".join(repr(p) for p in self.searchpath)
        raise TemplateNotFound(template, f"{template!r} not found in search {plural}: {paths}")

    def list_templates(self) -> list[str]:
        found = set()
        for searchpath in self.searchpath:
            for dirpath, _, filenames in os.walk(searchpath, followlinks=self.followlinks):
                for filename in filenames:
                    rel = os.path.join(dirpath, filename)[len(searchpath):]
                    found.add(rel.strip(os.path.sep).replace(os.path.sep, "/"))
        return sorted(found)


class DictLoader(BaseLoader):
    def __init__(self, mapping) -> None:
        self.mapping = mapping

    def get_source(self, environment, template: str):
        if template in self.mapping:
            source = self.mapping[template]
            return source, None, lambda: source == self.mapping.get(template)
        raise TemplateNotFound(template)

    def list_templates(self) -> list[str]:
        return sorted(self.mapping)
