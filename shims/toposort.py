"""Verification-side stand-in for the third-party ``toposort`` package (>=1.9).

Supported (the whole public API of the real package):
  * ``toposort(data)``            -- generator of sets, one per dependency level
  * ``toposort_flatten(data, sort=True)`` -- flat list, each level ``sorted()`` when ``sort``
  * ``CircularDependencyError``   -- ``ValueError`` subclass carrying ``.data``

Semantics: ``data`` maps item -> set of dependencies; self-dependencies are
ignored; items that only occur as dependencies get an empty dependency set; the
input mapping is never modified; when no dependency-free item is left but items
remain, ``CircularDependencyError(remaining)`` is raised (after the acyclic
prefix has been yielded).
"""

__all__ = ["CircularDependencyError", "toposort", "toposort_flatten"]


class CircularDependencyError(ValueError):
    def __init__(self, data):
        # Sort the data just to make the output consistent, for use in error messages.
        s = "Circular dependencies exist among these items: {{{}}}".format(
            ", ".join(f"{key!r}:{value!r}" for key, value in sorted(data.items()))
        )
        super().__init__(s)
        self.data = data


def toposort(data):
    """Yield sets of items in topological order (dependencies first)."""
    if len(data) == 0:
        return
    # copy two levels deep, discarding self-dependencies
    data = {item: {e for e in dep if e != item} for item, dep in data.items()}
    extra = {v for values in data.values() for v in values} - set(data.keys())
    data.update({item: set() for item in extra})
    while True:
        ordered = {item for item, dep in data.items() if len(dep) == 0}
        if not ordered:
            break
        yield ordered
        data = {
            item: (dep - ordered) for item, dep in data.items() if item not in ordered
        }
    if len(data) != 0:
        raise CircularDependencyError(data)


def toposort_flatten(data, sort=True):
    """Flatten :func:`toposort`; each level is sorted when ``sort`` is true."""
    result = []
    for d in toposort(data):
        result.extend((sorted if sort else list)(d))
    return result
