#!/usr/bin/env python3
"""keep_mutation.py <PROP> <src dir> <name> <detected-by> <result line...>: copies a confirmed seeded change to /verif/seeded/<name>/."""
import json, os, shutil, sys
prop, src, name, detected = sys.argv[1:5]
result = " ".join(sys.argv[5:])
dst = f"/verif/seeded/{name}"
os.makedirs(dst, exist_ok=True)
shutil.copy(f"{src}/patch.diff", dst)
if os.path.exists(f"{src}/demo.py"):
    shutil.copy(f"{src}/demo.py", dst)
meta = {}
if os.path.exists(f"{src}/meta.json"):
    try:
        meta = json.load(open(f"{src}/meta.json"))
    except Exception:
        meta = {}
meta["property"] = prop
meta["confirmed"] = {
    "how": "tools/eval_mutation.sh: patch applied to a scratch worktree of /repo HEAD; repository tests run; demo run against patched and clean tree; quick check run with VERIF_REPO=<worktree>",
    "result": result,
    "detected_by": detected,
}
json.dump(meta, open(f"{dst}/meta.json", "w"), indent=1)
print("kept", dst)
