#!/usr/bin/env python3
"""Writes seeded/INDEX.md: one line per kept seeded change (what, what it needs, which check reported it)."""
import glob
import json

rows = []
for p in sorted(glob.glob("/verif/seeded/*/meta.json")):
    m = json.load(open(p))
    c = m.get("confirmed", {})
    res = c.get("result", "")
    bucket = ""
    if "bucket=" in res:
        bucket = res.split("bucket=", 1)[1].split(" cases=")[0]
    rows.append((p.split("/")[3], m.get("summary", "").replace("\n", " ").replace("|", "/"), m.get("needs", "").replace("\n", " ").replace("|", "/"),
                 c.get("detected_by", "").replace(" (VIOLATION reported)", ""), bucket.replace("|", "/")))
with open("/verif/seeded/INDEX.md", "w") as f:
    f.write("# Seeded property-breaking changes kept under /verif/seeded\n\n"
            "Each directory holds patch.diff (against /repo HEAD at the time), demo.py (exits 1 on the changed tree, 0 on the clean one) and meta.json.\n"
            "All of them leave the repository's 263 pinned tests passing. `tools/eval_mutation.sh <PROP> seeded/<dir>` re-runs the confirmation.\n"
            "Five patches (C04-m3, C07-m1, C13-m4, C15-r3m3, C19-r3m1) were written against an earlier HEAD and no longer apply since the function they change was repaired later "
            "by one of the `fix:` commits in /repo; meta.json records the confirmation at the time. Names: m<k> = first round for that property, "
            "r3 / r4 / r5 = later rounds.\n\n"
            "| id | change | needs | reported by | first bucket |\n|---|---|---|---|---|\n")
    for r in rows:
        f.write("| " + " | ".join(r) + " |\n")
print(len(rows), "rows")
