#!/bin/bash
# Wider regression net than the pinned baseline: the whole upstream suite with the stand-in packages on the path,
# run on a throw-away copy of the working tree (the suite regenerates tests/fixtures).
# The one expected failure is test_ruff_code_with_invalid_code (ruff is a no-op stand-in).
SRC="${1:-/repo}"; W=$(mktemp -d /tmp/fulltests.XXXX)
rsync -a --exclude .git "$SRC/" "$W/"
(cd "$W" && TMPDIR="$W/.tmp" && mkdir -p "$TMPDIR" && PYTHONPATH=/verif/shims PATH=/verif/shims/bin:$PATH /venv/bin/python -m pytest -q -p no:cacheprovider --color=no --timeout=900 --continue-on-collection-errors "${@:2}" 2>&1 | tail -${TAILN:-25})
rm -rf "$W"
