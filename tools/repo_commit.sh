#!/bin/bash
# usage: repo_commit.sh "<commit message>"  -- commits the working-tree change of /repo only if the pinned baseline still gives 263 passed
OUT=$(/verif/baseline.sh | tail -1 | sed 's/\x1b\[[0-9;]*m//g')
echo "$OUT"
if echo "$OUT" | grep -q "263 passed" && ! echo "$OUT" | grep -q "failed"; then
  git -C /repo commit -qam "$1" && git -C /repo log --oneline | head -1
else
  echo "REFUSED: baseline does not pass"; exit 1
fi
