#!/bin/bash
# usage: eval_mutation.sh <PROP> <mutation dir with patch.diff [demo.py]> [extra check ids...]
# Applies the patch to a scratch worktree of /repo HEAD (outside /repo and /verif), confirms the
# repository's tests still pass and the demonstration fails, then runs the quick check(s) against it.
PROP=$1; MDIR=$2; shift 2; CHECKS="$PROP $*"
WT=/tmp/wt/eval_$$
git -C /repo worktree add -q --detach $WT HEAD || exit 3
trap 'git -C /repo worktree remove --force $WT >/dev/null 2>&1' EXIT
if ! git -C $WT apply $MDIR/patch.diff 2>/tmp/wt/apply_err_$$; then echo "RESULT $MDIR apply=FAIL $(head -c 200 /tmp/wt/apply_err_$$)"; exit 0; fi
export TMPDIR=/tmp/wt/tmp_$$; mkdir -p $TMPDIR
TESTS=$(cd $WT && PYTHONPATH=$WT /venv/bin/python -m pytest -q -p no:cacheprovider --timeout=900 --continue-on-collection-errors 2>&1 | tail -1 | sed 's/\x1b\[[0-9;]*m//g')
DEMO=na
if [ -f $MDIR/demo.py ]; then
  (cd $TMPDIR && PATH=/verif/shims/bin:$PATH PYTHONPATH=$WT:/verif/shims timeout 300 /venv/bin/python $MDIR/demo.py >/dev/null 2>&1); DEMO_PATCHED=$?
  (cd $TMPDIR && PATH=/verif/shims/bin:$PATH PYTHONPATH=/repo:/verif/shims timeout 300 /venv/bin/python $MDIR/demo.py >/dev/null 2>&1); DEMO_CLEAN=$?
  DEMO="patched=$DEMO_PATCHED clean=$DEMO_CLEAN"
fi
OUT=""
for C in $CHECKS; do
  LOG=/tmp/wt/log_$$_$C.txt; mkdir -p /tmp/wt/logs
  (cd /verif && VERIF_REPO=$WT timeout 1200 ./check $C --tier quick > $LOG 2>&1); RC=$?
  V=$(grep -c "^VIOLATION" $LOG)
  B=$(grep -m1 "bucket=" $LOG | cut -c1-160)
  OUT="$OUT | $C rc=$RC violations=$V $B"
done
rm -rf $TMPDIR
rm -f /tmp/wt/apply_err_$$
echo "RESULT $MDIR tests=[$TESTS] demo=[$DEMO]$OUT"
