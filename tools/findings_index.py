#!/usr/bin/env python3
"""Writes FINDINGS.md from known_findings.json (the file the checks read): repaired defects and open known findings."""
import json

d = json.load(open("/verif/known_findings.json"))["findings"]
with open("/verif/FINDINGS.md", "w") as f:
    f.write("# Defects of tefra/xsdata found by the checks\n\nGenerated from `known_findings.json` by `tools/findings_index.py`.\n\n"
            "## Repaired in /repo (one `fix:` commit each; a fixed entry suppresses nothing)\n\n| property | commit | what failed |\n|---|---|---|\n")
    for e in d:
        if e["status"] == "fixed":
            f.write(f"| {e['property']} | {e['commit']} | {e['what'].replace('|', '/')} |\n")
    f.write("\n## Open known findings (genuine, not repaired: the repair is not small or needs a design decision upstream)\n\n"
            "Each is recognised by a predicate over the failing case *and* the wrong outcome (the `KF/...` bucket); anything else on the same input is still a VIOLATION.\n\n"
            "| property | bucket | what fails |\n|---|---|---|\n")
    for e in d:
        if e["status"] == "open":
            f.write(f"| {e['property']} | `{e['key']}` | {e['what'].replace('|', '/')} |\n")
print(sum(1 for e in d if e["status"] == "fixed"), "fixed,", sum(1 for e in d if e["status"] == "open"), "open")
